import CV.Proofs.InvQueue
/-
C02 — dispatch order.

  "Events queued before a flush pass are dispatched in ascending priority value and, for
   equal priority, in the order they were fired; an event fired from a handler is never
   dispatched before events that were already queued when the current pass began, and fire()
   never runs a handler re-entrantly.  For each event, handlers with different priorities run
   in descending priority order, and once a handler calls stop() on the event no handler of
   lower priority runs for it."

Part 1 (queue layer) is about `CV.Core.EQ` (CV/Model/Core/Queue.lean), the very functions
`fireRaw` / `flush` / `dispatchLoop` of the machine call, under the op language of
CV/Model/Core/QueueSpec.lean (`app` = `EQ.append`, `flushBegin` = `EQ.begin`, `pop` =
`EQ.pop`).  Everything is universally quantified: any queue satisfying the reachability
invariant `QInv`, any `Int` priorities, any interleaving of ops, any choice function `pick`.
`EQ.drainFrom` is not part of the op language: it merges items stamped by two counters, can
create equal `(prio, seq)` keys, and is C07's business.

Part 2 (handler order) is about `CV.Core.chooseNext` / `chooseIter`
(CV/Model/Core/Choose.lean), the restatement of the `group` / `h` / `rest` lines of
`handlerLoop`, for any priority function, any hints, any handler list that is sorted
descending — which `mergeSort` with `≥` (the model of `sorted(..., reverse=True)` in
`dispatcher`) guarantees (`sorted_of_mergeSort`).
-/
namespace CV.C02
open CV.Core

/-! ## 1. the invariant -/

theorem qinv_init : QInv {} := qinv_empty

theorem qinv_step {q : EQ} (h : QInv q) (op : QOp) : QInv (op.apply q).1 :=
  CV.Core.qinv_step h op

theorem qinv_run {q : EQ} (h : QInv q) (ops : List QOp) : QInv (runOps q ops).1 :=
  CV.Core.qinv_run ops h

/-- every queue reachable from the empty one satisfies the invariant -/
theorem qinv_reachable (ops : List QOp) : QInv (runOps {} ops).1 :=
  CV.Core.qinv_run ops qinv_empty

/-- `_flush_batch == 0` exactly when the heap is empty -/
theorem batch_zero_iff_heap_empty {q : EQ} (h : QInv q) : q.batch = 0 ↔ q.heap = [] := by
  rw [h.batch_eq]
  exact List.length_eq_zero_iff

/-- `fire()` at the queue layer: nothing is dispatched, the heap and the batch counter are
    untouched, the deque gains exactly the new item at its end. -/
theorem fire_inert (q : EQ) (ev : Nat) (prio : Int) :
    ((QOp.app ev prio).apply q).2 = none ∧
    ((QOp.app ev prio).apply q).1.heap = q.heap ∧
    ((QOp.app ev prio).apply q).1.batch = q.batch ∧
    ((QOp.app ev prio).apply q).1.queue = q.queue ++ [⟨prio, q.counter, ev⟩] :=
  ⟨rfl, rfl, rfl, rfl⟩

/-! ## 2. one pop -/

/-- The popped item is a minimum of the heap by `(prio, seq)`; the heap loses exactly it, the
    batch counter is decremented, the deque is untouched.  (Holds for every queue; `QInv` is
    not even needed.) -/
theorem pop_is_min {q q' : EQ} {pick : List QItem → Option QItem} {it : QItem}
    (hp : q.pop pick = some (it, q')) :
    (∀ x ∈ q.heap, it.le x = true) ∧ it ∈ q.heap ∧ q'.heap = q.heap.erase it ∧
      q'.batch + 1 = q.batch ∧ q'.queue = q.queue ∧ q'.counter = q.counter := by
  obtain ⟨hb, hit, rfl⟩ := pop_spec hp
  refine ⟨minCands_le hit, (mem_minCands hit).1, rfl, ?_, rfl, rfl⟩
  simp only; omega

/-- under `QInv` sequence numbers are unique, so the choice function is irrelevant:
    `heappop` is deterministic -/
theorem pop_pick_irrelevant {q : EQ} (h : QInv q) (pick₁ pick₂ : List QItem → Option QItem) :
    q.pop pick₁ = q.pop pick₂ := by
  by_cases hb : q.batch = 0
  · rw [pop_none_of_batch_zero pick₁ hb, pop_none_of_batch_zero pick₂ hb]
  · have hh : q.heap ≠ [] := fun e => hb ((batch_zero_iff_heap_empty h).mpr e)
    obtain ⟨i₁, q₁, h₁⟩ := pop_isSome pick₁ hb hh
    obtain ⟨i₂, q₂, h₂⟩ := pop_isSome pick₂ hb hh
    obtain ⟨_, hc₁, e₁⟩ := pop_spec h₁
    obtain ⟨_, hc₂, e₂⟩ := pop_spec h₂
    have hi : i₁ = i₂ := by
      refine eq_of_seq_eq h.heap_seq_ne (mem_minCands hc₁).1 (mem_minCands hc₂).1 ?_
      exact (QItem.le_antisymm_key (minCands_le hc₁ _ (mem_minCands hc₂).1)
        (minCands_le hc₂ _ (mem_minCands hc₁).1)).2
    rw [h₁, h₂, e₁, e₂, hi]

/-- a pop never fails while a batch is in progress (the heap cannot be empty then) -/
theorem pop_succeeds {q : EQ} (h : QInv q) (hb : q.batch ≠ 0)
    (pick : List QItem → Option QItem) : ∃ it q', q.pop pick = some (it, q') :=
  pop_isSome pick hb (fun e => hb ((batch_zero_iff_heap_empty h).mpr e))

/-! ## 3. one pass: priority order, FIFO among equals -/

/-- `flushBegin` followed by exactly `|queue|` pops (any picks) dispatches a permutation of
    the snapshot, sorted by `(prio, seq)`, and ends the batch. -/
theorem pass_sorted {q : EQ} (h : QInv q) (hb : q.batch = 0)
    (picks : List (List QItem → Option QItem)) (hn : picks.length = q.queue.length) :
    (runOps q (.flushBegin :: picks.map .pop)).2.Perm q.queue ∧
    (runOps q (.flushBegin :: picks.map .pop)).2.Pairwise (fun a b => a.le b = true) ∧
    (runOps q (.flushBegin :: picks.map .pop)).1.batch = 0 ∧
    (runOps q (.flushBegin :: picks.map .pop)).1.heap = [] ∧
    (runOps q (.flushBegin :: picks.map .pop)).1.queue = [] := by
  have := pass_full h hb (picks.map .pop) (hn ▸ midPass_pops picks)
  rw [appItems_pops] at this
  exact ⟨this.1, this.2.1, this.2.2.2.1, this.2.2.1, this.2.2.2.2⟩

/-- the dispatched list IS the `(prio, seq)`-sort of the snapshot -/
theorem pass_order_spec {q : EQ} (h : QInv q) (hb : q.batch = 0)
    (picks : List (List QItem → Option QItem)) (hn : picks.length = q.queue.length) :
    (runOps q (.flushBegin :: picks.map .pop)).2 = q.queue.mergeSort (fun a b => a.le b) := by
  have := pass_sorted h hb picks hn
  exact sorted_eq_mergeSort this.1 h.queue_seq_ne this.2.1

/-- ascending priority value: if `a` is dispatched before `b` then `a.prio ≤ b.prio` -/
theorem ascending_priority {q : EQ} (h : QInv q) (hb : q.batch = 0)
    (picks : List (List QItem → Option QItem)) (hn : picks.length = q.queue.length)
    {a b : QItem} (hab : [a, b].Sublist (runOps q (.flushBegin :: picks.map .pop)).2) :
    a.prio ≤ b.prio := by
  have := ((pass_sorted h hb picks hn).2.1.sublist hab)
  simp only [List.pairwise_cons, List.mem_singleton, forall_eq] at this
  exact QItem.prio_le_of_le this.1

/-- lower priority value first, wherever the two were fired -/
theorem lower_priority_first {q : EQ} (h : QInv q) (hb : q.batch = 0)
    (picks : List (List QItem → Option QItem)) (hn : picks.length = q.queue.length)
    {a b : QItem} (ha : a ∈ q.queue) (hbq : b ∈ q.queue) (hlt : a.prio < b.prio) :
    [a, b].Sublist (runOps q (.flushBegin :: picks.map .pop)).2 := by
  have hs := pass_sorted h hb picks hn
  have hne : a ≠ b := fun e => by rw [e] at hlt; omega
  rcases sublist_pair_of_mem (hs.1.symm.subset ha) (hs.1.symm.subset hbq) hne with h1 | h2
  · exact h1
  · have := hs.2.1.sublist h2
    simp only [List.pairwise_cons, List.mem_singleton, forall_eq] at this
    have := QItem.prio_le_of_le this.1
    omega

/-- FIFO among equal priorities: `a` fired before `b` (earlier in the deque), same priority
    ⇒ `a` dispatched before `b`.  (The dispatched list has no duplicates, so "`[a, b]` is a
    sublist" means "`a` strictly before `b`".) -/
theorem fifo_equal {q : EQ} (h : QInv q) (hb : q.batch = 0)
    (picks : List (List QItem → Option QItem)) (hn : picks.length = q.queue.length)
    {a b : QItem} (hab : [a, b].Sublist q.queue) (hp : a.prio = b.prio) :
    [a, b].Sublist (runOps q (.flushBegin :: picks.map .pop)).2 ∧
    (runOps q (.flushBegin :: picks.map .pop)).2.Nodup := by
  have hs := pass_sorted h hb picks hn
  have hseq : a.seq < b.seq := by
    have := h.queue_inc.sublist hab
    simp only [List.pairwise_cons, List.mem_singleton, forall_eq] at this
    exact this.1
  have ha : a ∈ q.queue := hab.subset (by simp)
  have hbq : b ∈ q.queue := hab.subset (by simp)
  have hne : a ≠ b := fun e => by rw [e] at hseq; omega
  refine ⟨?_, hs.1.nodup_iff.mpr (nodup_of_seq_ne h.queue_seq_ne)⟩
  rcases sublist_pair_of_mem (hs.1.symm.subset ha) (hs.1.symm.subset hbq) hne with h1 | h2
  · exact h1
  · have := hs.2.1.sublist h2
    simp only [List.pairwise_cons, List.mem_singleton, forall_eq] at this
    have hf := QItem.not_le_of_seq_lt hp hseq
    rw [this.1] at hf
    exact absurd hf (by simp)

/-! ## 4. events fired during a pass do not overtake -/

/-- General form: during the pass, appends, pops (any picks) and nested `flushBegin`s (while
    the batch is in progress: `midPass`) may interleave arbitrarily.  The pass dispatches
    exactly the sorted snapshot; every appended item is still in the deque (not the heap)
    when the pass ends, in append order, with its sequence number stamped from the counter. -/
theorem no_overtake_nested {q : EQ} (h : QInv q) (hb : q.batch = 0) (ops : List QOp)
    (hm : midPass q.queue.length ops = true) :
    (runOps q (.flushBegin :: ops)).2 = q.queue.mergeSort (fun a b => a.le b) ∧
    (runOps q (.flushBegin :: ops)).1.queue = appItems q.counter ops ∧
    (runOps q (.flushBegin :: ops)).1.heap = [] ∧
    (runOps q (.flushBegin :: ops)).1.batch = 0 ∧
    (∀ x ∈ appItems q.counter ops, x ∉ (runOps q (.flushBegin :: ops)).2) := by
  have hf := pass_full h hb ops hm
  refine ⟨sorted_eq_mergeSort hf.1 h.queue_seq_ne hf.2.1, hf.2.2.2.2, hf.2.2.1, hf.2.2.2.1, ?_⟩
  intro x hx hx'
  have h1 := appItems_seq_ge ops q.counter x hx
  have h2 := h.seq_lt x (List.mem_append_right _ (hf.1.subset hx'))
  omega

/-- The shape asked for: `flushBegin ::` a mix of `app` and `pop` ops containing exactly
    `n = |queue|` pops.  The dispatched items are the same list as without the appends. -/
theorem no_overtake {q : EQ} (h : QInv q) (hb : q.batch = 0) (ops : List QOp)
    (hnf : ∀ o ∈ ops, o.isFlush = false) (hn : ops.countP QOp.isPop = q.queue.length) :
    (runOps q (.flushBegin :: ops)).2 = q.queue.mergeSort (fun a b => a.le b) ∧
    (runOps q (.flushBegin :: ops)).1.queue = appItems q.counter ops ∧
    (runOps q (.flushBegin :: ops)).1.heap = [] ∧
    (runOps q (.flushBegin :: ops)).1.batch = 0 ∧
    (∀ x ∈ appItems q.counter ops, x ∉ (runOps q (.flushBegin :: ops)).2) :=
  no_overtake_nested h hb ops (midPass_of_noFlush ops _ hnf hn)

/-- ... and the events fired during pass k are exactly what pass k+1 dispatches. -/
theorem fired_during_pass_dispatched_next {q : EQ} (h : QInv q) (hb : q.batch = 0)
    (ops : List QOp) (hm : midPass q.queue.length ops = true)
    (picks : List (List QItem → Option QItem))
    (hn : picks.length = (appItems q.counter ops).length) :
    (runOps (runOps q (.flushBegin :: ops)).1 (.flushBegin :: picks.map .pop)).2
      = (appItems q.counter ops).mergeSort (fun a b => a.le b) := by
  have h1 := no_overtake_nested h hb ops hm
  have hi := qinv_run h (.flushBegin :: ops)
  have := pass_order_spec hi h1.2.2.2.1 picks (by rw [h1.2.1]; exact hn)
  rw [this, h1.2.1]

/-! ## 5. nested flush -/

/-- a `flushBegin` while a batch is in progress is the identity: a nested `flush()` from a
    handler continues the current pass and never starts a new one early -/
theorem nested_flush_continues {q : EQ} (hb : q.batch ≠ 0) :
    (QOp.flushBegin.apply q) = (q, none) := by
  simp [QOp.apply, begin_of_batch_ne hb]

/-- conversely, with no batch in progress `flushBegin` snapshots exactly the deque -/
theorem flush_begin_snapshots {q : EQ} (h : QInv q) (hb : q.batch = 0) :
    (QOp.flushBegin.apply q).1 = { q with batch := q.queue.length, heap := q.queue, queue := [] } := by
  simp [QOp.apply, begin_of_batch_zero h hb]

/-- Decrement-FIRST matters.  The mutant that pops first and decrements after the dispatcher
    returns (`popLate` … `decLate`) reaches, through a nested flush in the last handler of a
    batch, a state with `batch ≠ 0` and an empty heap — Python's `heappop` would raise
    IndexError there; `QInv` (a) is broken. -/
def popLate (q : EQ) : EQ := { q with heap := q.heap.erase ((minItem q.heap).getD ⟨0, 0, 0⟩) }
def decLate (q : EQ) : EQ := { q with batch := q.batch - 1 }

theorem decrement_after_witness :
    let q0 : EQ := (EQ.append {} 7 0).begin     -- one event queued, pass started
    let q1 := popLate q0                         -- mutant: popped, not yet decremented
    let q2 := q1.begin                           -- nested flush() from the handler
    q2.batch ≠ 0 ∧ q2.heap = [] ∧ ¬ QInv q2 := by
  refine ⟨by decide, by decide, ?_⟩
  intro h
  exact absurd h.batch_eq (by decide)

/-! ## 6. handler order -/

/-- the list `dispatcher` builds with `mergeSort (prio a ≥ prio b)` is sorted descending -/
theorem sorted_of_mergeSort (prioOf : Nat → Int) (l : List Nat) :
    (l.mergeSort (fun a b => decide (prioOf a ≥ prioOf b))).Pairwise
      (fun a b => prioOf a ≥ prioOf b) :=
  desc_of_mergeSort prioOf l

/-- (a) the chosen handler has the maximal priority of the remaining handlers -/
theorem choose_max {prioOf : Nat → Int} {hint : Option Nat} {hs rest : List Nat} {h : Nat}
    (hd : hs.Pairwise (fun a b => prioOf a ≥ prioOf b))
    (hc : chooseNext prioOf hint hs = some (h, rest)) :
    h ∈ hs ∧ ∀ x ∈ hs, prioOf h ≥ prioOf x :=
  ⟨(chooseNext_spec hc).1, chooseNext_max hd hc⟩

/-- (b) the rest is still sorted descending and is `hs` minus the chosen handler -/
theorem choose_rest {prioOf : Nat → Int} {hint : Option Nat} {hs rest : List Nat} {h : Nat}
    (hd : hs.Pairwise (fun a b => prioOf a ≥ prioOf b))
    (hc : chooseNext prioOf hint hs = some (h, rest)) :
    rest.Pairwise (fun a b => prioOf a ≥ prioOf b) ∧ rest = hs.erase h ∧ hs.Perm (h :: rest) :=
  ⟨(chooseNext_rest hd hc).1, (chooseNext_spec hc).2.1, (chooseNext_rest hd hc).2.1⟩

/-- iterating the choice to the end, for ANY hints: every handler runs exactly once and the
    priorities of the handlers run are non-increasing -/
theorem handlers_desc (prioOf : Nat → Int) (hints : Nat → Option Nat) {hs : List Nat}
    (hd : hs.Pairwise (fun a b => prioOf a ≥ prioOf b)) :
    (chooseIter prioOf hs.length hints hs).Perm hs ∧
    (chooseIter prioOf hs.length hints hs).Pairwise (fun a b => prioOf a ≥ prioOf b) :=
  ⟨chooseIter_perm prioOf _ hints hs hd (Nat.le_refl _), (chooseIter_desc prioOf _ hints hs hd).1⟩

/-- `stop()`: the loop is cut after the `k`-th choice (0-based), `s` being that handler.  What
    ran is the first `k+1` choices of the full iteration; no handler with a priority lower
    than `s`'s has run (before it — and trivially none runs after). -/
theorem stop_cuts (prioOf : Nat → Int) (hints : Nat → Option Nat) {hs : List Nat}
    (hd : hs.Pairwise (fun a b => prioOf a ≥ prioOf b)) (k : Nat) (hk : k < hs.length) {s : Nat}
    (hs' : (chooseIter prioOf (k + 1) hints hs).getLast? = some s) :
    chooseIter prioOf (k + 1) hints hs = (chooseIter prioOf hs.length hints hs).take (k + 1) ∧
    (chooseIter prioOf (k + 1) hints hs).length = k + 1 ∧
    ∀ h ∈ hs, prioOf h < prioOf s → h ∉ chooseIter prioOf (k + 1) hints hs := by
  refine ⟨chooseIter_take prioOf _ _ hints hs (by omega), ?_, ?_⟩
  · rw [chooseIter_length]; omega
  · intro h _ hlt hmem
    have := desc_last_min (chooseIter_desc prioOf (k + 1) hints hs hd).1 hs' h hmem
    omega

/-- ... and every handler with a priority higher than the stopper's HAS run -/
theorem stop_cuts_complete (prioOf : Nat → Int) (hints : Nat → Option Nat) {hs : List Nat}
    (hd : hs.Pairwise (fun a b => prioOf a ≥ prioOf b)) (k : Nat) (hk : k < hs.length) {s : Nat}
    (hs' : (chooseIter prioOf (k + 1) hints hs).getLast? = some s) :
    ∀ h ∈ hs, prioOf h > prioOf s → h ∈ chooseIter prioOf (k + 1) hints hs := by
  intro h hh hgt
  have hfull := handlers_desc prioOf hints hd
  have htk := chooseIter_take prioOf (k + 1) hs.length hints hs (by omega)
  have hsm : s ∈ (chooseIter prioOf hs.length hints hs).take (k + 1) := by
    rw [← htk]; exact List.mem_of_getLast? hs'
  have hmem : h ∈ (chooseIter prioOf hs.length hints hs).take (k + 1) ++
      (chooseIter prioOf hs.length hints hs).drop (k + 1) := by
    rw [List.take_append_drop]; exact hfull.1.symm.subset hh
  rw [htk]
  rcases List.mem_append.mp hmem with h1 | h2
  · exact h1
  · have hp := hfull.2
    rw [← List.take_append_drop (k + 1) (chooseIter prioOf hs.length hints hs)] at hp
    have := (List.pairwise_append.mp hp).2.2 s hsm h h2
    omega

/-- The fallback handler `dispatcher` appends AFTER sorting (`sorted ++ [h]`, for
    `generate_events`: priority -100) keeps the list sorted iff no collected handler has a
    lower priority than the fallback. -/
theorem sorted_append_fallback {prioOf : Nat → Int} {hs : List Nat} {f : Nat}
    (hd : hs.Pairwise (fun a b => prioOf a ≥ prioOf b)) :
    (hs ++ [f]).Pairwise (fun a b => prioOf a ≥ prioOf b) ↔ ∀ h ∈ hs, prioOf h ≥ prioOf f := by
  rw [List.pairwise_append]
  constructor
  · intro h x hx; exact h.2.2 x hx f (List.mem_singleton.mpr rfl)
  · intro h
    refine ⟨hd, by simp, ?_⟩
    intro a ha b hb
    rw [List.mem_singleton.mp hb]; exact h a ha

/-! ## 7. non-vacuity -/

/-- a reachable queue with mixed priorities (negative, equal, positive), left by an earlier
    pass that was itself interleaved with appends: seqs 3..8 in the deque, counter 9 -/
def exQ : EQ :=
  (runOps {} [.app 10 5, .app 11 (-3), .app 12 5, .flushBegin, .pop (fun _ => none),
    .app 13 2, .app 14 (-1), .pop (fun c => c.head?), .flushBegin, .app 15 2, .pop (fun _ => none),
    .app 16 (-1), .app 17 0, .app 18 2]).1

theorem exQ_inv : QInv exQ := qinv_reachable _

example : exQ.batch = 0 ∧ exQ.heap = [] ∧ exQ.counter = 9 ∧
    exQ.queue = [⟨2, 3, 13⟩, ⟨-1, 4, 14⟩, ⟨2, 5, 15⟩, ⟨-1, 6, 16⟩, ⟨0, 7, 17⟩, ⟨2, 8, 18⟩] := by
  decide

def exPicks : List (List QItem → Option QItem) :=
  [fun _ => none, fun c => c.head?, fun c => c.getLast?, fun _ => some ⟨0, 0, 0⟩, fun _ => none,
   fun c => c.head?]

/-- `pop_is_min`, `pop_succeeds`: a pop that succeeds, on a heap with mixed priorities -/
example : ∃ it q', exQ.begin.pop (fun _ => none) = some (it, q') ∧ it = ⟨-1, 4, 14⟩ :=
  ⟨_, _, rfl, rfl⟩
example : QInv exQ.begin ∧ exQ.begin.batch ≠ 0 := ⟨qinv_begin exQ_inv, by decide⟩

/-- `pass_sorted` / `pass_order_spec` / `ascending_priority` / `lower_priority_first`:
    hypotheses hold for `exQ`, `exPicks`, and the pass dispatches by priority, FIFO among equals -/
example : QInv exQ ∧ exQ.batch = 0 ∧ exPicks.length = exQ.queue.length ∧
    (runOps exQ (.flushBegin :: exPicks.map .pop)).2 =
      [⟨-1, 4, 14⟩, ⟨-1, 6, 16⟩, ⟨0, 7, 17⟩, ⟨2, 3, 13⟩, ⟨2, 5, 15⟩, ⟨2, 8, 18⟩] :=
  ⟨exQ_inv, by decide, by decide, by decide⟩

/-- `fifo_equal`: two items of equal priority, in deque order -/
example : [(⟨2, 3, 13⟩ : QItem), ⟨2, 8, 18⟩].Sublist exQ.queue ∧
    (⟨2, 3, 13⟩ : QItem).prio = (⟨2, 8, 18⟩ : QItem).prio := by decide
example : (⟨-1, 6, 16⟩ : QItem) ∈ exQ.queue ∧ (⟨2, 3, 13⟩ : QItem) ∈ exQ.queue ∧
    (⟨-1, 6, 16⟩ : QItem).prio < (⟨2, 3, 13⟩ : QItem).prio := by decide

/-- `no_overtake`: appends (incl. one with a priority lower than everything queued) between the
    pops; `no_overtake_nested`: additionally nested flushes mid-pass -/
def exMix : List QOp :=
  [.pop (fun _ => none), .app 20 (-7), .pop (fun _ => none), .pop (fun _ => none), .app 21 2,
   .app 22 (-7), .pop (fun _ => none), .pop (fun _ => none), .pop (fun _ => none), .app 23 0]
def exMixNested : List QOp :=
  [.pop (fun _ => none), .app 20 (-7), .flushBegin, .pop (fun _ => none), .pop (fun _ => none),
   .app 21 2, .flushBegin, .app 22 (-7), .pop (fun _ => none), .pop (fun _ => none), .flushBegin,
   .pop (fun _ => none), .app 23 0]

example : (∀ o ∈ exMix, o.isFlush = false) ∧ exMix.countP QOp.isPop = exQ.queue.length ∧
    (runOps exQ (.flushBegin :: exMix)).2 =
      [⟨-1, 4, 14⟩, ⟨-1, 6, 16⟩, ⟨0, 7, 17⟩, ⟨2, 3, 13⟩, ⟨2, 5, 15⟩, ⟨2, 8, 18⟩] ∧
    (runOps exQ (.flushBegin :: exMix)).1.queue =
      [⟨-7, 9, 20⟩, ⟨2, 10, 21⟩, ⟨-7, 11, 22⟩, ⟨0, 12, 23⟩] := by
  refine ⟨?_, by decide, by decide, by decide⟩
  intro o ho
  simp only [exMix, List.mem_cons, List.not_mem_nil, or_false] at ho
  rcases ho with rfl | rfl | rfl | rfl | rfl | rfl | rfl | rfl | rfl | rfl <;> rfl

example : midPass exQ.queue.length exMixNested = true ∧
    (runOps exQ (.flushBegin :: exMixNested)).2 = (runOps exQ (.flushBegin :: exMix)).2 ∧
    (runOps exQ (.flushBegin :: exMixNested)).1.queue = (runOps exQ (.flushBegin :: exMix)).1.queue := by
  decide

/-- `fired_during_pass_dispatched_next` -/
example : (runOps (runOps exQ (.flushBegin :: exMix)).1
      (.flushBegin :: (List.replicate 4 (fun _ => none)).map .pop)).2 =
    [⟨-7, 9, 20⟩, ⟨-7, 11, 22⟩, ⟨0, 12, 23⟩, ⟨2, 10, 21⟩] := by decide

/-- a nested flush during the LAST event of a batch (batch = 0 again) is outside `midPass`:
    it legitimately starts the next pass -/
example : midPass 1 [.pop (fun _ => none), .flushBegin] = false := by decide

/-- `nested_flush_continues`: a state with a batch in progress -/
example : exQ.begin.batch ≠ 0 := by decide

/-- handler order: priorities 1, -2, 1, 0, 1, -2 for handlers 0..5 -/
def exPrio : Nat → Int
  | 0 => 1 | 1 => -2 | 2 => 1 | 3 => 0 | 4 => 1 | _ => -2
def exHs : List Nat := [0, 2, 4, 3, 1, 5]
def exHints : Nat → Option Nat
  | 0 => some 4      -- in the tie group: honoured
  | 1 => some 3      -- not in the tie group {0, 2}: head is taken
  | 2 => some 2
  | 4 => some 5
  | _ => none

example : exHs.Pairwise (fun a b => exPrio a ≥ exPrio b) := by decide
example : chooseNext exPrio (some 4) exHs = some (4, [0, 2, 3, 1, 5]) := by decide
example : chooseIter exPrio exHs.length exHints exHs = [4, 0, 2, 3, 5, 1] := by decide
/-- `stop_cuts`, `stop_cuts_complete`: handler 3 (priority 0) stops the event at step k = 3 -/
example : (3 : Nat) < exHs.length ∧ (chooseIter exPrio (3 + 1) exHints exHs).getLast? = some 3 ∧
    chooseIter exPrio (3 + 1) exHints exHs = [4, 0, 2, 3] := by decide
/-- `sorted_append_fallback`: with a handler below the fallback's priority the appended list
    is NOT sorted — the fallback then runs after a lower-priority handler -/
example : ¬ ([0, 1] ++ [2]).Pairwise (fun a b => (fun | 0 => (0:Int) | 1 => -200 | _ => -100) a ≥
    (fun | 0 => (0:Int) | 1 => -200 | _ => -100) b) := by decide


/-! ## 8. the link to the machine

Parts 1-7 are about the queue LAYER (`EQ` under `QOp`) and the handler-choice layer
(`chooseNext`).  The theorems below are about the small-step core machine
(CV/Model/Core/Step.lean): every configuration (`step_queue_ops`, `fire_is_inert`, …: no
hypothesis at all, hence in particular every reachable one) resp. every configuration of every
driver session (`Reach s0 c`, CV/Proofs/CoreReach.lean: arbitrary external operations, clock
advances, tapes, programs) from an initial state whose queues satisfy the layer invariant.
They say that the machine touches a component's `_EventQueue` only through the layer
operations, so that parts 1-7 apply to it.  Proofs: CV/Proofs/InvQueueBase.lean (the relation
`QRel` through all primitives / helpers / arms of `step`), CV/Proofs/InvQueue.lean. -/

/-- **Classification.**  What one step of the machine - any configuration `c`, any component `x`
    - does to `x`'s queue `q = (c.st.comp x).eq`; `q'` is the queue after the step:
    1. `q' = runOps q ops` for a finite list of `QOp.app` ops (`[]` = unchanged; two for e.g.
       `handlerRaised` = failure + exception, `eventDonePre` = done + success);
    2. `q' = flushBegin q` - only when the top frame is `.flush y` and `x` is `y`'s root;
    3. `(q', it) = pop pick q` with a successful pop - only when the top frame is
       `.dispatchLoop x`; the popped event goes to `.dispatcher x it.ev q'.batch`;
    4. `q' = (q.drainFrom child.eq).1` (deque := deque ++ child's deque) - only when the top frame
       is `.register ch p` and `x ≠ ch` is `p`'s root;
    5. `q' = (root.eq.drainFrom q).2` (deque := []) - only when the top frame is `.register x p`.
    Counter, heap and batch change only as those operations change them. -/
theorem step_queue_ops (c : Cfg) (x : Nat) :
    (∃ ops : List QOp, (∀ o ∈ ops, ∃ e p, o = QOp.app e p) ∧
        ((step c).st.comp x).eq = (runOps (c.st.comp x).eq ops).1)
    ∨ (∃ y k, c.stack = .flush y :: k ∧ c.exn = none ∧ c.st.rootOf y = x ∧
        ((step c).st.comp x).eq = (QOp.flushBegin.apply (c.st.comp x).eq).1)
    ∨ (∃ k pick it, c.stack = .dispatchLoop x :: k ∧ c.exn = none ∧
        (QOp.pop pick).apply (c.st.comp x).eq = (((step c).st.comp x).eq, some it) ∧
        (step c).stack = .dispatcher x it.ev ((step c).st.comp x).eq.batch :: .dispatchLoop x :: k)
    ∨ (∃ ch p k, c.stack = .register ch p :: k ∧ c.exn = none ∧ p ≠ ch ∧ x = (c.st.comp p).root ∧ x ≠ ch ∧
        ((step c).st.comp x).eq = ((c.st.comp x).eq.drainFrom (c.st.comp ch).eq).1)
    ∨ (∃ p k, c.stack = .register x p :: k ∧ c.exn = none ∧ p ≠ x ∧ (c.st.comp p).root ≠ x ∧
        ((step c).st.comp x).eq = ((c.st.comp (c.st.comp p).root).eq.drainFrom (c.st.comp x).eq).2) := by
  rcases q2_step_class c x with h | ⟨y, k, h1, h2, h3, h4⟩ | ⟨k, it, q', h1, h2, h3, h4, h5⟩ | h | h
  · exact .inl h
  · exact .inr (.inl ⟨y, k, h1, h2, h3, h4⟩)
  · refine .inr (.inr (.inl ⟨k, c.st.q2pick, it, h1, h2, ?_, ?_⟩))
    · simp only [QOp.apply, h3, h4]
    · rw [h4]; exact h5
  · exact .inr (.inr (.inr (.inl h)))
  · exact .inr (.inr (.inr (.inr h)))

/-- the same, for readers of the layer: a step that is not a `register` step applies a list of
    layer ops to every queue -/
theorem step_queue_runOps (c : Cfg) (x : Nat)
    (hreg : ∀ ch p k, c.stack ≠ .register ch p :: k) :
    ∃ ops : List QOp, ((step c).st.comp x).eq = (runOps (c.st.comp x).eq ops).1 := by
  rcases step_queue_ops c x with ⟨ops, _, h⟩ | ⟨_, _, _, _, _, h⟩ | ⟨_, pick, _, _, _, h, _⟩ |
      ⟨ch, p, k, hs, _⟩ | ⟨p, k, hs, _⟩
  · exact ⟨ops, h⟩
  · exact ⟨[.flushBegin], h⟩
  · exact ⟨[.pop pick], by simp only [runOps, h]⟩
  · exact absurd hs (hreg ch p k)
  · exact absurd hs (hreg x p k)

/-- hypothesis on the initial state: `_flush_batch` = heap size in every component (true of
    freshly constructed managers: both 0) -/
def InitBatch (s : St) : Prop := ∀ x, (s.comp x).eq.batch = (s.comp x).eq.heap.length

/-- hypothesis on the initial state: every component's queue satisfies the layer invariant (true
    of freshly constructed managers: `qinv_init`) -/
def InitQueues (s : St) : Prop := ∀ x, QInv (s.comp x).eq

/-- two fresh managers; one manager in the middle of a pass with a mixed queue -/
def exSt : St := { comps := [{ parent := 0, root := 0 }, { parent := 1, root := 1 }] }
def exStBusy : St := { comps := [{ parent := 0, root := 0, eq := exQ.begin }] }

example : InitQueues exSt ∧ InitBatch exSt := ⟨q2_two_fresh_init, fun x => (q2_two_fresh_init x).batch_eq⟩
example : InitQueues exStBusy ∧ InitBatch exStBusy ∧ (exStBusy.comp 0).eq.batch = 6 := by
  have h : InitQueues exStBusy := by
    intro x
    match x with
    | 0 => exact qinv_begin exQ_inv
    | n + 1 => exact qinv_init
  exact ⟨h, fun x => (h x).batch_eq, by decide⟩

/-- **`_flush_batch` = heap size, always.**  Part (a) of `QInv` for every component of every
    reachable configuration - including across `register` (`drainFrom` moves deques only).
    Hence `heappop` never meets an empty heap and the `remaining` argument of `_dispatcher` is the
    number of events of the pass still to be dispatched. -/
theorem batch_eq_heap (s0 : St) (h0 : InitBatch s0) (c : Cfg) (hr : Reach s0 c) (x : Nat) :
    (c.st.comp x).eq.batch = (c.st.comp x).eq.heap.length :=
  q2_batch_reach s0 h0 c hr x

/-- guard for `qinv_reach_partial`: a pending `register ch p` step finds `ch`'s deque empty -/
def NoDrain (c : Cfg) : Prop :=
  ∀ ch p k, c.stack = .register ch p :: k → c.exn = none → (c.st.comp ch).eq.queue = []

/-- (`ReachND`, defined in CV/Proofs/InvQueue.lean, uses literally this guard) -/
example : NoDrain = Q2NoDrain := rfl

/-- The full layer invariant `QInv` (batch = heap size, sequence numbers below the counter,
    pairwise different, increasing along the deque) holds for every component of every
    configuration reached by a session in which no `register` step drains a non-empty deque
    (`ReachND`: `Reach` with the guard `NoDrain` on every configuration a step is taken from).
    FULL statement (over `Reach`): FALSE, see `qinv_reach_witness`: `drainFrom` keeps the
    child's sequence numbers, which were stamped by another counter.  Consequence for the
    property: `pass_sorted` / `fifo_equal` / `no_overtake` apply to the machine's passes as long
    as components are registered before events are fired at them; after a drain of a non-empty
    deque the priority order still holds (`dispatch_pops_min` needs no invariant) but FIFO among
    equal priorities is only guaranteed within each of the two merged sequences. -/
theorem qinv_reach_partial (s0 : St) (h0 : InitQueues s0) (c : Cfg) (hr : ReachND s0 c) (x : Nat) :
    QInv (c.st.comp x).eq :=
  q2_qinv_reachND s0 h0 c hr x

/-- guarded runs are runs -/
theorem reachND_reach {s0 : St} {c : Cfg} (h : ReachND s0 c) : Reach s0 c := h.reach

/-- … and under `QInv` the tape-derived pick of the machine is irrelevant: the dispatch order of
    guarded runs is fully determined by `(prio, seq)` -/
theorem machine_pop_deterministic (s0 : St) (h0 : InitQueues s0) (c : Cfg) (hr : ReachND s0 c) (r : Nat)
    (pick : List QItem → Option QItem) :
    c.st.popEvent r = (c.st.comp r).eq.pop pick :=
  pop_pick_irrelevant (qinv_reach_partial s0 h0 c hr r) _ _

/-- **Runs of the machine are runs of the layer.**  For every configuration `c`, component `x`
    and number of steps `n` such that no `register` step among them drains a non-empty deque:
    there is a list of layer ops `ops` with
      * queue of `x` after the `n` steps = `(runOps q ops).1`, and
      * the items the layer run dispatches, `(runOps q ops).2`, = the items the `.dispatchLoop x`
        steps of the machine run popped, in order (`q2poppedRun`) - each of which was handed to
        `_dispatcher` by the very step that popped it (`popped_is_dispatched`).
    So `pass_sorted`, `fifo_equal`, `no_overtake_nested`, … - statements about `runOps` - are
    statements about what the machine dispatches, and in which order. -/
theorem run_is_layer_run (c : Cfg) (x n : Nat) (hg : ∀ i, i < n → NoDrain (runN i c)) :
    ∃ ops : List QOp, ((runN n c).st.comp x).eq = (runOps (c.st.comp x).eq ops).1 ∧
      (runOps (c.st.comp x).eq ops).2 = q2poppedRun x n c :=
  q2_run_trace x n c hg

theorem popped_is_dispatched (c : Cfg) (x : Nat) (it : QItem) (h : q2popped c x = some it) :
    ∃ k, c.stack = .dispatchLoop x :: k ∧ c.exn = none ∧
      (step c).stack = .dispatcher x it.ev ((step c).st.comp x).eq.batch :: .dispatchLoop x :: k :=
  q2_popped_dispatched c x it h

/-- a whole `flush` of the busy manager (6 events in the heap): the machine dispatches them in
    `(prio, seq)` order - the machine run, not the layer run, is evaluated here -/
example : q2poppedRun 0 60 (startOf (envChange exStBusy 0 []) (.flush 0)) =
    [⟨-1, 4, 14⟩, ⟨-1, 6, 16⟩, ⟨0, 7, 17⟩, ⟨2, 3, 13⟩, ⟨2, 5, 15⟩, ⟨2, 8, 18⟩] := by decide +kernel

/-- `fire` on manager 1, `fire` on manager 0, then `1.register(0)`: both events carry sequence
    number 0 of their own manager's counter -/
def exW1 : Cfg := runN 3 (startOf (envChange exSt 0 []) (.doAct 1 (.fire 0 none 0 false)))
def exW2 : Cfg := runN 3 (startOf (envChange exW1.st 0 []) (.doAct 0 (.fire 0 none 0 false)))
def exW3 : Cfg := runN 2 (startOf (envChange exW2.st 0 []) (.doAct 1 (.reg 1 0)))

/-- the excluded case really fails: a reachable configuration (from two fresh managers) whose
    root queue holds two items with the same `(prio, seq)` key, fired in the order 0-then-1 but
    queued in the order 1-then-0 -/
theorem qinv_reach_witness :
    InitQueues exSt ∧ Reach exSt exW3 ∧ ¬ NoDrain (runN 1 (startOf (envChange exW2.st 0 []) (.doAct 1 (.reg 1 0)))) ∧
    (exW3.st.comp 0).eq.queue = [⟨0, 0, 1⟩, ⟨0, 0, 0⟩] ∧ ¬ QInv (exW3.st.comp 0).eq := by
  refine ⟨q2_two_fresh_init,
    Reach.runN (.next 0 [] _ (Reach.runN (.next 0 [] _ (Reach.runN (.init 0 [] _) 3) (by decide)) 3) (by decide)) 2,
    ?_, by decide, ?_⟩
  · intro h
    have := h 1 0 _ rfl rfl
    exact absurd this (by decide)
  · intro h
    have h1 := h.queue_inc
    have h2 : (exW3.st.comp 0).eq.queue = [⟨0, 0, 1⟩, ⟨0, 0, 0⟩] := by decide
    rw [h2] at h1
    simp at h1

/-- non-vacuity of `ReachND`: a guarded run with a `register` step (of a component whose deque
    is empty) and a fire + flush afterwards -/
example : ReachND exSt (runN 2 (startOf (envChange exSt 0 []) (.doAct 1 (.reg 1 0)))) := by
  have h0 : ReachND exSt (startOf (envChange exSt 0 []) (.doAct 1 (.reg 1 0))) := .init 0 [] _
  have h1 : ReachND exSt (runN 1 (startOf (envChange exSt 0 []) (.doAct 1 (.reg 1 0)))) := by
    refine ReachND.step h0 ?_
    intro ch p k hs _
    simp [startOf, startDo, Cfg.start] at hs
  refine ReachND.step h1 ?_
  intro ch p k hs _
  have : ch = 1 := by
    have h2 : (runN 1 (startOf (envChange exSt 0 []) (.doAct 1 (.reg 1 0)))).stack =
        [.register 1 0, .acts ⟨1, none⟩ [], .doFin 1] := rfl
    rw [h2] at hs
    injection hs with hs _
    injection hs with h _
    exact h.symm
  subst this
  decide

/-- **One iteration of `dispatchEvents`' loop** in a reachable configuration whose top frame is
    `.dispatchLoop r`: if `_flush_batch` is 0 the loop ends and nothing changes; otherwise the
    step pops an item `it` that is a minimum by `(prio, seq)` of `r`'s heap, removes exactly it
    (deque and counter untouched), decrements `_flush_batch` FIRST and calls
    `_dispatcher(it.ev, …, remaining)` with `remaining` = the new `_flush_batch` = the number of
    events left in the heap; no other component's queue changes. -/
theorem dispatch_pops_min (s0 : St) (h0 : InitBatch s0) (c : Cfg) (hr : Reach s0 c) (r : Nat) (k : List Frame)
    (hs : c.stack = .dispatchLoop r :: k) (hx : c.exn = none) :
    ((c.st.comp r).eq.batch = 0 ∧ step c = { c with stack := k }) ∨
    ((c.st.comp r).eq.batch ≠ 0 ∧
      ∃ it q', (∀ y ∈ (c.st.comp r).eq.heap, it.le y = true) ∧ it ∈ (c.st.comp r).eq.heap ∧
        q'.heap = (c.st.comp r).eq.heap.erase it ∧ q'.batch + 1 = (c.st.comp r).eq.batch ∧
        q'.batch = q'.heap.length ∧ q'.queue = (c.st.comp r).eq.queue ∧ q'.counter = (c.st.comp r).eq.counter ∧
        (step c).stack = .dispatcher r it.ev q'.batch :: .dispatchLoop r :: k ∧ (step c).exn = none ∧
        ∀ y, ((step c).st.comp y).eq = if y = r then q' else (c.st.comp y).eq) := by
  have hb := q2_batch_reach s0 h0 c hr
  have hp := q2_dispatch_progress c r hb
  rcases q2_dispatch_pops_min c r k hs hx with ⟨h1, h2⟩ | ⟨it, q', h1, h2, h3, h4, h5, h6, h7, h8, h9, _, h11⟩
  · exact .inl ⟨hp.1.mp h1, h2⟩
  · refine .inr ⟨?_, it, q', h2, h3, h4, h5, hp.2 it q' h1, h6, h7, h8, h9, h11⟩
    intro hz
    rw [hp.1.mpr hz] at h1; cases h1

example : InitBatch exStBusy ∧ Reach exStBusy (startOf (envChange exStBusy 0 []) (.flush 0)) :=
  ⟨fun x => by
    match x with
    | 0 => exact (qinv_begin exQ_inv).batch_eq
    | n + 1 => rfl, .init 0 [] _⟩
/-- the nested flush continues the batch: after the `.flush` step the loop frame is on top, and
    its step dispatches the minimum `⟨-1, 4, 14⟩` with `remaining = 5` -/
example : (step (step (startOf (envChange exStBusy 0 []) (.flush 0)))).stack =
    [.dispatcher 0 14 5, .dispatchLoop 0, .flushFin 0 false] := rfl

/-- **`fire()` is inert** (plain handler body / external code).  The step that executes a
    `fire` act of a `.acts` frame: (`Q2Fire`) appends the new event `e = |evs|` with the given
    priority to the queue of the firing component's root and to no other queue, changes no other
    field of any component, creates the event object, logs one `F` entry, leaves the handler,
    generator, wait and timer tables and the clock alone - and continues with the SAME frame on
    the remaining acts: no `.dispatcher` / `.invoke` / `.hLoop` frame is pushed, the frames below
    are untouched, nothing is returned or raised. -/
theorem fire_is_inert (c : Cfg) (ctx : HCtx) (i : Nat) (target : Option Chan) (prio : Int) (cancel : Bool)
    (rest : Prog) (k : List Frame)
    (hs : c.stack = .acts ctx (.fire i target prio cancel :: rest) :: k) (hx : c.exn = none) :
    (step c).stack = .acts ctx rest :: k ∧ (step c).exn = none ∧ (step c).ret = c.ret ∧
    Q2Fire c.st (step c).st (c.st.rootOf ctx.self) c.st.evs.length prio ∧
    (step c).st.evs.length = c.st.evs.length + 1 :=
  q2_acts_fire c ctx i target prio cancel rest k hs hx

/-- **`fire()` is inert** (generator handler body): the same for a `fire` act executed by a
    `.stepGen g` frame; the generator record only advances past the act. -/
theorem fire_is_inert_gen (c : Cfg) (g e h owner i : Nat) (target : Option Chan) (prio : Int) (cancel : Bool)
    (rest : Prog) (n : Nat) (pc : Option Bool) (sd : Bool) (k : List Frame)
    (hs : c.stack = .stepGen g :: k) (hx : c.exn = none)
    (hg : c.st.gen g = .user e h owner (.fire i target prio cancel :: rest) n pc sd) :
    (step c).stack = .stepGen g :: k ∧ (step c).exn = none ∧ (step c).ret = c.ret ∧
    Q2Fire (c.st.setGen g (.user e h owner rest n none sd)) (step c).st (c.st.rootOf owner) c.st.evs.length prio ∧
    (step c).st.evs.length = c.st.evs.length + 1 :=
  q2_stepGen_fire c g e h owner i target prio cancel rest n pc sd k hs hx hg

/-- what `Q2Fire` says about the queues, in layer terms: one `QOp.app` on the root, nothing else -/
theorem fire_appends_once {s s' : St} {r e : Nat} {prio : Int} (h : Q2Fire s s' r e prio) (x : Nat) :
    (s'.comp x).eq = if x = r ∧ x < s.comps.length then ((QOp.app e prio).apply (s.comp x).eq).1
      else (s.comp x).eq := by
  rw [h.comp x]
  split <;> rfl

/-- **No re-entrant dispatch through `fire()`.**  Whenever the next step executes a `fire` act of
    user code (`Q2FiresNext`: in a plain body or in a generator body - these are the only two
    places where the machine runs a user `fire`), the step replaces the top frame by a frame
    that is not a dispatching frame (`.dispatcher`, `.hLoop`, `.invoke`, `.dispatchLoop`,
    `.flush`, `.tick`), leaves all frames below untouched (cf. `C04.frames_below_untouched`),
    logs exactly one entry, an `F`, (no `D`/`I`/`H` entry: no handler ran) and does not touch
    the handler table.  The handler that called `fire()` simply goes on. -/
theorem no_reentrant_dispatch_by_fire (c : Cfg) (h : Q2FiresNext c) :
    ∃ f f' k, c.stack = f :: k ∧ (step c).stack = f' :: k ∧ f'.q2dispatching = false ∧
      (step c).exn = none ∧ (step c).ret = c.ret ∧
      (∃ e nm ch p, (step c).st.log = .fire e nm ch p :: c.st.log) ∧ (step c).st.hs = c.st.hs :=
  q2_no_reentrant c h

/-- a handler body about to fire, inside a dispatch (frames below: the handler loop) -/
def exFiring : Cfg :=
  { st := exSt, stack := [.acts ⟨1, some 0⟩ [.fire 0 none (-1) false, .ret 7], .invokeFin 0 0,
      .hAfter 1 0 [] false .none, .dispatchLoop 1] }
example : Q2FiresNext exFiring := ⟨rfl, .inl ⟨_, _, _, _, _, _, _, rfl⟩⟩
example : (step exFiring).stack = [.acts ⟨1, some 0⟩ [.ret 7], .invokeFin 0 0, .hAfter 1 0 [] false .none,
    .dispatchLoop 1] ∧ ((step exFiring).st.comp 1).eq.queue = [⟨-1, 0, 0⟩] ∧
    ((step exFiring).st.comp 0).eq.queue = [] := ⟨rfl, by decide, by decide⟩

/-- **The machine's handler loop IS `chooseNext`.**  `St.chooseHandler` (the choice the `.hLoop`
    arm makes, following the tape) is `chooseNext` of the layer with the priority table of the
    current state and the hint read off the tape (`St.q2hint`); the arm keeps exactly the other
    handlers.  So `choose_max`, `choose_rest`, `handlers_desc`, `stop_cuts` are statements about
    the machine's loop. -/
theorem handler_loop_uses_chooseNext (s : St) (e h0 : Nat) (rest0 : List Nat) :
    chooseNext s.q2prio (s.q2hint e h0 rest0) (h0 :: rest0) =
      some (s.chooseHandler e h0 rest0, (h0 :: rest0).erase (s.chooseHandler e h0 rest0)) :=
  q2_chooseHandler s e h0 rest0

/-- … as a statement about the step of a `.hLoop` frame; with a descending pending list the
    invoked handler has maximal priority and the kept list is again descending. -/
theorem handler_loop_step (c : Cfg) (r e h0 : Nat) (rest0 : List Nat) (err : Bool) (stale : Outcome) (k : List Frame)
    (hs : c.stack = .hLoop r e (h0 :: rest0) err stale :: k) (hx : c.exn = none) :
    ∃ h rest, chooseNext c.st.q2prio (c.st.q2hint e h0 rest0) (h0 :: rest0) = some (h, rest) ∧
      (step c).stack = .invoke r h e :: .hAfter r e rest err stale :: k ∧ (step c).exn = none ∧
      (step c).st.q2prio = c.st.q2prio ∧
      ((h0 :: rest0).Pairwise (fun a b => c.st.q2prio a ≥ c.st.q2prio b) →
        (∀ x ∈ h0 :: rest0, c.st.q2prio h ≥ c.st.q2prio x) ∧
        rest.Pairwise (fun a b => c.st.q2prio a ≥ c.st.q2prio b)) := by
  obtain ⟨h, rest, h1, h2, h3, h4⟩ := q2_hLoop_step c r e h0 rest0 err stale k hs hx
  exact ⟨h, rest, h1, h2, h3, St.q2prio_of_hs h4, fun hd => ⟨(choose_max hd h1).2, (choose_rest hd h1).1⟩⟩

/-- **`stop()` cuts the loop.**  After a handler returned, the `.hApply` step looks at
    `event.stopped`: if set, the loop frame is replaced by `.dispFin` and the pending handlers
    `rest` (all of priority ≤ the stopper's, by `handler_loop_step`) disappear with it - no
    frame, no state field refers to them any more; otherwise the loop goes on with the same
    `rest`. -/
theorem stop_breaks_loop (c : Cfg) (r e : Nat) (rest : List Nat) (err : Bool) (v : Outcome) (k : List Frame)
    (hs : c.stack = .hApply r e rest err v :: k) (hx : c.exn = none) :
    (step c).stack = (if ((c.st.applyValue r e v).ev e).stopped = true then Frame.dispFin r e err
                      else Frame.hLoop r e rest err v) :: k :=
  q2_hApply_step c r e rest err v k hs hx

/-- **What `_dispatcher` builds on a cache miss.**  `computeHandlers` returns
    `sorted = mergeSort (prio a ≥ prio b) (collected handlers)` (`St.q2sorted`, descending), and
    appends a freshly allocated fallback handler exactly for `generate_events` (priority -100) and
    for an unhandled `exception` event. -/
theorem dispatcher_sorts (s : St) (r : Nat) (name : Name) (chans : List Chan) :
    (s.q2sorted r name chans).Pairwise (fun a b => s.q2prio a ≥ s.q2prio b) ∧
    (∀ h, h ∈ s.q2sorted r name chans ↔ ∃ ch ∈ chans, h ∈ collect s (s.comps.length + 1) r name ch) ∧
    (((s.computeHandlers r name chans).1 = s.q2sorted r name chans ∧ (s.computeHandlers r name chans).2.hs = s.hs ∧
        name ≠ Name.generateEvents ∧ ¬ (name = Name.exception ∧ s.q2sorted r name chans = []))
    ∨ ((s.computeHandlers r name chans).1 = s.q2sorted r name chans ++ [s.hs.length] ∧
        ∃ hd, (s.computeHandlers r name chans).2.hs = s.hs ++ [hd] ∧
          ((name = Name.generateEvents ∧ hd.prio = -100 ∧ hd.kind = .fallbackGE) ∨
           (name = Name.exception ∧ s.q2sorted r name chans = [] ∧ hd.prio = 0 ∧ hd.kind = .fallbackExc)))) := by
  refine ⟨q2_sorted_desc s r name chans, ?_, q2_computeHandlers s r name chans⟩
  intro h
  unfold St.q2sorted
  rw [List.mem_mergeSort, List.mem_flatMap]

/-- … hence the list handed to the handler loop satisfies the `Desc` hypothesis of
    `handlers_desc` / `stop_cuts` (w.r.t. the priority table of the state the loop starts in)
    whenever the collected handlers are declared records (`hin`; C01's invariant `K.hid/gid`)
    and - for `generate_events` - none of them has a priority below the fallback's -100 (`hlow`).
    FULL statement (without `hlow`): false, see `dispatcher_sorts_desc_witness` and
    `sorted_append_fallback`: the fallback is appended AFTER sorting, so a user `generate_events`
    handler with a priority below -100 runs before the (higher-priority) fallback. -/
theorem dispatcher_sorts_desc_partial (s : St) (r : Nat) (name : Name) (chans : List Chan)
    (hin : ∀ h ∈ s.q2sorted r name chans, h < s.hs.length)
    (hlow : name = Name.generateEvents → ∀ h ∈ s.q2sorted r name chans, s.q2prio h ≥ -100) :
    (s.computeHandlers r name chans).1.Pairwise
      (fun a b => (s.computeHandlers r name chans).2.q2prio a ≥ (s.computeHandlers r name chans).2.q2prio b) :=
  q2_computeHandlers_desc s r name chans hin hlow

/-- one component with a user handler of priority 3 for `generate_events`: hypotheses hold, the
    fallback (id 1) is appended last -/
def exStGE : St :=
  { comps := [{ parent := 0, root := 0, htab := [(some Name.generateEvents, 0)] }],
    hs := [{ owner := 0, names := [Name.generateEvents], chan := none, prio := 3, kind := .user 0 }] }
example : (exStGE.computeHandlers 0 Name.generateEvents [.star]).1 = [0, 1] ∧
    (∀ h ∈ exStGE.q2sorted 0 Name.generateEvents [.star], h < exStGE.hs.length) ∧
    (∀ h ∈ exStGE.q2sorted 0 Name.generateEvents [.star], exStGE.q2prio h ≥ -100) := by decide +kernel

/-- the excluded case: a user `generate_events` handler with priority -200 - the list is not
    descending, the fallback (priority -100) runs after it -/
def exStGELow : St :=
  { comps := [{ parent := 0, root := 0, htab := [(some Name.generateEvents, 0)] }],
    hs := [{ owner := 0, names := [Name.generateEvents], chan := none, prio := -200, kind := .user 0 }] }
theorem dispatcher_sorts_desc_witness :
    (exStGELow.computeHandlers 0 Name.generateEvents [.star]).1 = [0, 1] ∧
    ¬ (exStGELow.computeHandlers 0 Name.generateEvents [.star]).1.Pairwise
      (fun a b => (exStGELow.computeHandlers 0 Name.generateEvents [.star]).2.q2prio a ≥
        (exStGELow.computeHandlers 0 Name.generateEvents [.star]).2.q2prio b) := by
  decide +kernel

/-- the tape names handler 4 of the tie group {0, 2, 4}: hint honoured by machine and layer alike -/
def exStTape : St :=
  { hs := [{ owner := 0, names := [], chan := none, prio := 1, kind := .user 0 },
           { owner := 0, names := [], chan := none, prio := -2, kind := .user 0 },
           { owner := 0, names := [], chan := none, prio := 1, kind := .user 0 },
           { owner := 0, names := [], chan := none, prio := 0, kind := .user 0 },
           { owner := 0, names := [], chan := none, prio := 1, kind := .user 0 }],
    tape := [.inv 9 4 0] }
example : exStTape.chooseHandler 9 0 [2, 4, 3, 1] = 4 ∧ exStTape.q2hint 9 0 [2, 4, 3, 1] = some 4 ∧
    chooseNext exStTape.q2prio (some 4) [0, 2, 4, 3, 1] = some (4, [0, 2, 3, 1]) := by decide

end CV.C02

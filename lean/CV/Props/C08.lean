import CV.Model.Core.Machine
namespace CV.C08
theorem placeholder : True := trivial
end CV.C08

import CV.Proofs.InvRunCode
import CV.Proofs.InvDispRun
/-
C08 — run()/stop(): started once, everything queued is drained, stopped once.

Machine-level theorems about the small-step core machine (`CV.Model.Core.Step`), over all
configurations a driver session can reach (`Reach`, CV/Proofs/CoreReach.lean) from a well-formed
initial state, for all programs, templates, tapes and session scripts.

  `Init s0`   the only hypothesis on the initial state: the two reserved event names `started` /
              `stopped` are not used by user templates or by pre-existing timer events, and the
              `fire` entries of the initial log refer to existing events (`WF`; e.g. any state
              with an empty log and no timers whose templates avoid the two names).

A `run()` of component `x` is the segment of a session from a reachable configuration `c0` with
`c0.stack = [.run x]` (what `startRun` produces; no other arm pushes a `.run` frame) onwards:
`runN n c0`, n = 0, 1, 2, …  (`runN` is plain iteration of `step`: `runN_succ'`).
`firesOf nm y s` counts the log entries "fire of an event named `nm` whose first argument is
component `y`" (`started(y)`, `stopped(y)`).
-/
namespace CV.C08
open CV.Core

/-- hypothesis on the initial state of a session -/
def Init (s0 : St) : Prop := WF s0

/-! ### 1. stop() on a manager that is not running has no effect -/

/-- the `.stopMgr x code` arm on a component that is not running only pops its frame: state, log,
    return register and pending exception are unchanged -/
theorem stop_idle_noop (c : Cfg) (k : List Frame) (x : Nat) (code : Code)
    (h : (c.st.comp x).running = false) :
    stepFrame c k (.stopMgr x code) = { c with stack := k } := by
  show c.stopMgr k x code = _
  unfold Cfg.stopMgr
  simp [h, Cfg.pop]

/-- … and as an external operation `x.stop(code)` of the environment: four steps, nothing changed,
    no `SystemExit` -/
theorem stop_idle_noop_op (s : St) (x : Nat) (code : Code) (h : (s.comp x).running = false) :
    runN 4 (startDo s x (.stopMgr x code)) = { st := s, stack := [], ret := .out .none, exn := none } := by
  simp [runN, startDo, Cfg.start, done, step, stepFrame, Cfg.acts, actStep, Cfg.goto, Cfg.stopMgr, h,
    Cfg.pop, Cfg.popRet, Cfg.doFin, Ret.outcome]

/-! ### 2. started is dispatched exactly once per run() -/

/-- no step other than the execution of a `.run` frame fires `started(y)`, for any `y` -/
theorem started_only_by_run {s0 : St} (hi : Init s0) {c : Cfg} (hr : Reach s0 c)
    (hnr : ∀ y k, c.stack = .run y :: k → c.exn ≠ none) (y : Nat) :
    firesOf Name.started y (step c).st = firesOf Name.started y c.st :=
  (step_flags (reach_inv hi c hr).1 hnr y).started

/-- from the first step of `x.run()` on, at every later point of the session segment (in
    particular when `run()` returns), exactly one `started(x)` has been fired since the start of
    the run, and no `started(y)` for any other `y` -/
theorem started_once {s0 : St} (hi : Init s0) {c0 : Cfg} (hr : Reach s0 c0) {x : Nat}
    (hs : c0.stack = [.run x]) (hx : c0.exn = none) (hlt : x < c0.st.comps.length) (n y : Nat) :
    firesOf Name.started y (runN (n + 1) c0).st =
      firesOf Name.started y c0.st + (if x = y then 1 else 0) :=
  (run_rel (reach_inv hi c0 hr).1 hs hx hlt n).started y

/-! ### 3. stopped is dispatched exactly once per run() -/

/-- any step that is not the start of a `run()`: either `x.running` and the number of
    `stopped(x)` fired are both unchanged, or `x` was running, is not running any more, and exactly
    one `stopped(x)` was fired (then the step is `St.stopBegin x`, see `step_flags`) -/
theorem stopped_only_by_stop {s0 : St} (hi : Init s0) {c : Cfg} (hr : Reach s0 c)
    (hnr : ∀ y k, c.stack = .run y :: k → c.exn ≠ none) (x : Nat) :
    (((step c).st.comp x).running = (c.st.comp x).running ∧
        firesOf Name.stopped x (step c).st = firesOf Name.stopped x c.st) ∨
    ((c.st.comp x).running = true ∧ ((step c).st.comp x).running = false ∧
        firesOf Name.stopped x (step c).st = firesOf Name.stopped x c.st + 1) :=
  (step_flags (reach_inv hi c hr).1 hnr x).stop

/-- at every point of `x.run()` after its first step: no `stopped(x)` yet while `x` is running,
    exactly one since the start of the run once it is not -/
theorem stopped_once {s0 : St} (hi : Init s0) {c0 : Cfg} (hr : Reach s0 c0) {x : Nat}
    (hs : c0.stack = [.run x]) (hx : c0.exn = none) (hlt : x < c0.st.comps.length) (n : Nat) :
    firesOf Name.stopped x (runN (n + 1) c0).st =
      firesOf Name.stopped x c0.st + (if ((runN (n + 1) c0).st.comp x).running = true then 0 else 1) := by
  have := (run_rel (reach_inv hi c0 hr).1 hs hx hlt n).stopped
  split
  · rename_i h; simp only [h, if_true] at this; omega
  · rename_i h; simp only [h] at this; simpa using this

/-- `run()` keeps processing until `stop()`: the main loop `while self.running or len(self._queue)`
    calls `tick()` again as long as `x` is running or its queue is non-empty, and is left (for the
    fade-out ticks) exactly when `x` is not running and the queue is empty -/
theorem keeps_processing (c : Cfg) (k : List Frame) (x : Nat) :
    stepFrame c k (.runLoop x) =
      if (c.st.comp x).running = true ∨ (c.st.comp x).eq.len > 0
      then c.goto k c.st [.tick x, .runLoop x] else c.pop k c.st := by
  show c.runLoop k x = _
  unfold Cfg.runLoop
  simp only [Bool.or_eq_true, decide_eq_true_eq]

/-- `stop(code)` on a running manager: clear the flag and fire `stopped` (`St.stopBegin`); then, if
    the root is executing `run()`, only remember the exit code for `run()` (no `SystemExit` here);
    otherwise tick three times inline and raise `SystemExit(code)` iff a code was given (`.stopFin`) -/
theorem stop_running_arm (c : Cfg) (k : List Frame) (x : Nat) (code : Code)
    (h : (c.st.comp x).running = true) :
    stepFrame c k (.stopMgr x code) =
      (if ((c.st.stopBegin x).comp ((c.st.stopBegin x).rootOf x)).executing = true
       then c.pop k ((c.st.stopBegin x).stopSetCode ((c.st.stopBegin x).rootOf x) code)
       else c.goto k (c.st.stopBegin x) [.ticks x 3, .stopFin code]) ∧
    stepFrame c k (.stopFin code) = (if code.isSome = true then c.raise k c.st (.sysExit code) else c.pop k c.st) := by
  constructor
  · show c.stopMgr k x code = _
    unfold Cfg.stopMgr
    simp only [h, Bool.not_true, Bool.false_eq_true, if_false]
    split <;> simp_all
  · rfl

/-! ### 4. run() returns only with an empty queue, after stop -/

/-- when the code after `run()`'s `try` block is reached on the normal path (the `.runFin x` frame
    is about to execute), `x` is not running, its queue is empty, and `.runFin x` is the last frame:
    the run returns in this step -/
theorem returns_drained {s0 : St} (hi : Init s0) {c : Cfg} (hr : Reach s0 c) {x : Nat} {k : List Frame}
    (hs : c.stack = .runFin x :: k) (hx : c.exn = none) :
    k = [] ∧ (c.st.comp x).running = false ∧ (c.st.comp x).eq.len = 0 := by
  obtain ⟨_, y, ph, P, hsh⟩ := reach_inv hi c hr
  obtain ⟨h1, h2, h3, h4⟩ := hsh.at_runFin hs
  subst h1 h3 h4
  exact ⟨h2, (hsh.good.2 hx).1, (hsh.good.2 hx).2⟩

/-- the same on the `SystemExit` path: when `run()`'s `finally` (tick + drain loop) has completed
    and the parked exception is about to be re-raised, the queue of the running component is empty -/
theorem returns_drained_exn {s0 : St} (hi : Init s0) {c : Cfg} (hr : Reach s0 c) {ex : Exn}
    {k : List Frame} (hs : c.stack = .runRethrow ex :: k) (hx : c.exn = none) :
    ∃ x, k = [.runFin x] ∧ (c.st.comp x).eq.len = 0 := by
  obtain ⟨_, y, ph, P, hsh⟩ := reach_inv hi c hr
  obtain ⟨h1, h3, h4⟩ := hsh.at_runRethrow hs
  subst h3 h4
  exact ⟨y, h1, hsh.good.2 hx⟩

/-- a run that returns has fired exactly one `started(x)` and exactly one `stopped(x)` -/
theorem returns_after_one_started_one_stopped {s0 : St} (hi : Init s0) {c0 : Cfg} (hr : Reach s0 c0)
    {x : Nat} (hs : c0.stack = [.run x]) (hx : c0.exn = none) (hlt : x < c0.st.comps.length)
    (n : Nat) {x' : Nat} {k : List Frame}
    (hfin : (runN n c0).stack = .runFin x' :: k) (hxn : (runN n c0).exn = none) :
    x' = x ∧ k = [] ∧
    firesOf Name.started x (runN n c0).st = firesOf Name.started x c0.st + 1 ∧
    firesOf Name.stopped x (runN n c0).st = firesOf Name.stopped x c0.st + 1 ∧
    ((runN n c0).st.comp x).eq.len = 0 := by
  cases n with
  | zero =>
    have h0 : (runN 0 c0) = c0 := rfl
    rw [h0, hs] at hfin
    cases hfin
  | succ n =>
    have hrel := run_rel (reach_inv hi c0 hr).1 hs hx hlt n
    obtain ⟨ph, P, hsh, _⟩ := hrel.shape
    obtain ⟨h1, h2, h3, h4⟩ := hsh.at_runFin hfin
    subst h1 h3 h4
    have hg := hsh.good.2 hxn
    have h5 := hrel.started x'
    have h6 := hrel.stopped
    simp only [hg.1] at h6
    simp only [if_true] at h5
    exact ⟨rfl, h2, h5, by simpa using h6, hg.2⟩

/-! ### 5. the exit code -/

/-- the end of `run()`: it raises `SystemExit(code)` iff the root's `_exit_code` is `code ≠ None`,
    and returns normally otherwise -/
theorem code_propagates (c : Cfg) (k : List Frame) (x : Nat) (hx : c.exn = none) :
    (stepFrame c k (.runFin x)).stack = k ∧
    (stepFrame c k (.runFin x)).exn =
      match (c.st.comp (c.st.rootOf x)).exitCode with
      | some code => some (.sysExit (some code))
      | none => none := by
  show (c.runFin k x).stack = k ∧ (c.runFin k x).exn = _
  unfold Cfg.runFin
  have h1 : (c.st.runEnd x).1 = (c.st.comp (c.st.rootOf x)).exitCode := by
    unfold St.runEnd
    dsimp only
    rw [St.comp_modComp]
    split <;> rfl
  rw [h1]
  split <;> simp_all

/-- `_exit_code` of a component `r` changes only (a) in `y.stop(code)` with `code ≠ None` on a
    running `y` whose root `r` is executing `run()` - it becomes `code` - or (b) at the end of a
    `run()` of a component whose root is `r` - it becomes `None` -/
theorem exit_code_written_only_by_stop {s0 : St} (hi : Init s0) {c : Cfg} (hr : Reach s0 c) (r : Nat)
    (hne : ((step c).st.comp r).exitCode ≠ (c.st.comp r).exitCode) :
    c.exn = none ∧
    ((∃ y code k, c.stack = .stopMgr y code :: k ∧ (c.st.comp y).running = true ∧ code.isSome = true ∧
        r = (c.st.stopBegin y).rootOf y ∧ ((c.st.stopBegin y).comp r).executing = true ∧
        ((step c).st.comp r).exitCode = code) ∨
     (∃ y k, c.stack = .runFin y :: k ∧ r = c.st.rootOf y ∧ ((step c).st.comp r).exitCode = none)) :=
  step_exitCode (reach_inv hi c hr).1 r hne

/-- a manager that has returned from `run()` can be run again: after the last step of `run()` the
    session segment is over, `x` is not running, its queue is empty, its root is not executing and
    holds no exit code - the values these fields have in a fresh manager -/
theorem rerun {s0 : St} (hi : Init s0) {c : Cfg} (hr : Reach s0 c) {x : Nat} {k : List Frame}
    (hs : c.stack = .runFin x :: k) (hx : c.exn = none) :
    done (step c) = true ∧
    ((step c).st.comp x).running = false ∧
    ((step c).st.comp x).eq.len = 0 ∧
    ((step c).st.comp (c.st.rootOf x)).executing = false ∧
    ((step c).st.comp (c.st.rootOf x)).exitCode = none := by
  obtain ⟨hk, hrun, hq⟩ := returns_drained hi hr hs hx
  subst hk
  have hwf := (reach_inv hi c hr).1
  obtain ⟨_, _, hr2, _, hex, hcode, heq, _⟩ := runEnd_spec hwf x
  have hst : (step c).st = (c.st.runEnd x).2 := by
    rw [step_cons c _ _ hs hx]
    show (c.runFin [] x).st = _
    unfold Cfg.runFin; split <;> rfl
  have hstack : (step c).stack = [] := by
    rw [step_cons c _ _ hs hx]
    exact (code_propagates c [] x hx).1
  refine ⟨by simp [done, hstack], ?_, ?_, ?_, ?_⟩
  · rw [hst, hr2, hrun]
  · rw [hst, heq, hq]
  · rw [hst, hex]
  · rw [hst, hcode]

/-- End to end: `run()` leaves with `SystemExit(v)` iff during the run an effective `x.stop(v)`
    was executed (`EffStop`: `x` running, code `v` given, root executing `run()` - there is at most
    one, the first stop of `x` that carries a code while `x` is still running), and returns
    normally iff there was none.

    PARTIAL.  Full statement: the same without `hclean`, `hcode`, `hroot`.  Obstacles (all three are
    false of the model, and the first two of the real code as well, for histories outside the
    property's scope): `hcode` - a stale `_exit_code` left on the root before the run is reported by
    this run (`code_propagates_run_witness`); `hclean` - another *running* manager `y` in the same
    tree that is stopped with a code writes the same root attribute; `hroot` - if `x` is registered
    under another root while it runs, `stop` and the end of `run()` look at different roots. -/
theorem code_propagates_run_partial {s0 : St} (hi : Init s0) {c0 : Cfg} (hr : Reach s0 c0) {x : Nat}
    (hs : c0.stack = [.run x]) (hx : c0.exn = none) (hlt : x < c0.st.comps.length)
    (hclean : ∀ y, y ≠ x → (c0.st.comp y).running = false)
    (hcode : (c0.st.comp x).exitCode = none)
    (hroot : ∀ m, (runN m c0).st.rootOf x = x)
    (n : Nat) (hfin : (runN n c0).stack = [.runFin x]) (hxn : (runN n c0).exn = none) :
    done (runN (n + 1) c0) = true ∧
    (∀ v, (runN (n + 1) c0).exn = some (.sysExit (some v)) ↔ ∃ m, m < n ∧ EffStop x (runN m c0) v) ∧
    ((runN (n + 1) c0).exn = none ↔ ∀ m, m < n → ∀ v, ¬ EffStop x (runN m c0) v) :=
  run_exit_code (reach_inv hi c0 hr).1 hs hx hlt hclean hcode hroot n hfin hxn

/-- the excluded case `hcode` really fails: with a stale `_exit_code = 7` on the root, a run whose
    only handler calls `self.stop()` WITHOUT a code (program table of `s3`) raises `SystemExit(7)` -/
def s3 : St := {
  comps := [{ parent := 0, root := 0, htab := [(some Name.started, 0)], exitCode := some 7 }],
  hs := [{ owner := 0, names := [Name.started], chan := none, kind := .user 0 }],
  progs := [[.stopMgr 0 none]] }

theorem code_propagates_run_witness :
    s3.progs = [[.stopMgr 0 none]] ∧
    ∃ n, (runN n (startRun s3 0)).exn = some (.sysExit (some 7)) ∧ done (runN n (startRun s3 0)) = true :=
  ⟨rfl, 59, by decide +kernel⟩

/-! ### 6. KeyboardInterrupt / SystemExit raised by user code stop the manager -/

/-- in the handler loop of `_dispatcher` -/
theorem kbd_sysexit_stop_handler (c : Cfg) (k : List Frame) (r e : Nat) (rest : List Nat) (err : Bool)
    (stale : Outcome) :
    (c.ret.outcome = .kbdInt →
      stepFrame c k (.hAfter r e rest err stale) = c.goto k c.st [.stopMgr r none, .hApply r e rest err stale]) ∧
    (∀ code, c.ret.outcome = .sysExit code →
      stepFrame c k (.hAfter r e rest err stale) = c.goto k c.st [.stopMgr r code, .hApply r e rest err stale]) := by
  constructor
  · intro h; show c.hAfter k r e rest err stale = _; unfold Cfg.hAfter; rw [h]
  · intro code h; show c.hAfter k r e rest err stale = _; unfold Cfg.hAfter; rw [h]

/-- in `processTask` (a generator handler resumed by `tick`) -/
theorem kbd_sysexit_stop_task (c : Cfg) (k : List Frame) (r : Nat) (t : Task) :
    (c.ret.yield = .kbdInt → stepFrame c k (.ptOwn r t) = c.goto k c.st [.stopMgr r none]) ∧
    (∀ code, c.ret.yield = .sysExit code → stepFrame c k (.ptOwn r t) = c.goto k c.st [.stopMgr r code]) ∧
    (∀ p b, c.ret.yield = .kbdInt → stepFrame c k (.ptParent r t p b) = c.goto k c.st [.stopMgr r none]) ∧
    (∀ p b code, c.ret.yield = .sysExit code →
      stepFrame c k (.ptParent r t p b) = c.goto k c.st [.stopMgr r code]) := by
  refine ⟨?_, ?_, ?_, ?_⟩
  · intro h; show c.ptOwn k r t = _; unfold Cfg.ptOwn; rw [h]
  · intro code h; show c.ptOwn k r t = _; unfold Cfg.ptOwn; rw [h]
  · intro p b h; show c.ptParent k r t p b = _; unfold Cfg.ptParent; rw [h]
  · intro p b code h; show c.ptParent k r t p b = _; unfold Cfg.ptParent; rw [h]

/-! ### non-vacuity -/

/-- a small initial state: one component, no handlers -/
def s1 : St := { comps := [{ parent := 0, root := 0 }] }

example : Init {} := ⟨by simp, by simp, by simp⟩
example : Init s1 := ⟨by simp [s1], by simp [s1], by simp [s1]⟩

/-- the hypotheses of `started_once` / `stopped_once` are satisfiable: a session that starts with `run 0` -/
example : ∃ c0, Reach s1 c0 ∧ c0.stack = [.run 0] ∧ c0.exn = none ∧ 0 < c0.st.comps.length :=
  ⟨_, Reach.init 0 [] (.run 0), rfl, rfl, by decide⟩

/-- a component that is not running exists -/
example : (s1.comp 0).running = false := rfl

/-- one component whose handler for `started` calls `self.stop(3)` -/
def s2 : St := {
  comps := [{ parent := 0, root := 0, htab := [(some Name.started, 0)] }],
  hs := [{ owner := 0, names := [Name.started], chan := none, kind := .user 0 }],
  progs := [[.stopMgr 0 (some 3)]] }

def atRunFin (c : Cfg) (x : Nat) : Bool :=
  match c.stack, c.exn with
  | [.runFin y], none => y == x
  | _, _ => false

example : Init s2 := ⟨by simp [s2], by simp [s2], by simp [s2]⟩

/-- the hypotheses of `returns_drained` / `rerun` / `returns_after_one_started_one_stopped` are
    satisfiable: `run 0` on `s2` reaches its `.runFin 0` frame after 58 steps … -/
example : atRunFin (runN 58 (startRun s2 0)) 0 = true := by decide +kernel

/-- … and the next step makes `run()` raise `SystemExit(3)`: the code given to `stop()` -/
example : (runN 59 (startRun s2 0)).exn = some (.sysExit (some 3)) ∧ done (runN 59 (startRun s2 0)) = true := by
  decide +kernel

/-- the hypotheses of `code_propagates_run_partial` other than reachability are decidable facts of
    a start configuration; `s2` satisfies the two about flags -/
example : (∀ y, y ≠ 0 → ((startRun s2 0).st.comp y).running = false) ∧ ((startRun s2 0).st.comp 0).exitCode = none := by
  refine ⟨?_, rfl⟩
  intro y hy
  have : ¬ y < s2.comps.length := by simp [s2]; omega
  show (s2.comp y).running = false
  rw [St.comp_ge this]; rfl

/-! ### 7. "dispatched exactly once": conservation of queued events (machine level)

The log entries are `F e …` (`fireEvent` appended event object `e` to a manager's `_EventQueue`) and
`D e` (`_dispatcher` entered for `e`, handed over by `dispatchEvents`).  For a class of event ids
`K : Nat → Bool` (`(· == e)`: one event object):
  `firedCnt K log` / `dispCnt K log`   number of `F` / `D` entries of class `K`;
  `queuedCnt K s`                      number of class-`K` items in the deques (`EQ.dequeCnt`) and batch
                                       heaps (`EQ.heapCnt`) of ALL components (`register`'s `drainFrom`
                                       moves items between two of them);
  `d8pend K stack`                     1 iff the top frame is `.dispatcher _ e _` with `K e`: the event
                                       `dispatchEvents` has just popped, one step before its `D`.
Proofs: CV/Proofs/InvDispBase.lean, InvDisp.lean (conservation through all arms of `step`),
InvDispLoc.lean (where the copies are; an event object is fired once), InvDispRun.lean. -/

/-- hypothesis on the initial state for the conservation theorems: every `root` field is a valid
    component id (a `fire` on a dangling root would log an `F` and queue nothing) and the state is
    balanced: as many `F` as `D` + queued items, for every class of event ids (e.g. a fresh session:
    empty log, empty queues - `initD_of_fresh`) -/
def InitD (s0 : St) : Prop := ∀ K : Nat → Bool, DBal K 0 s0

/-- fresh managers satisfy `InitD` -/
theorem initD_of_fresh (s : St) (hroot : ∀ x, (s.comp x).root < s.comps.length) (hlog : s.log = [])
    (hq : ∀ x, (s.comp x).eq.len = 0) : InitD s := by
  intro K
  refine ⟨hroot, ?_⟩
  have : queuedCnt K s = 0 := (r8_queued_zero K s).mpr (fun y => r8_len_cnt K _ (hq y))
  rw [hlog, this]
  rfl

/-- **Conservation.**  In every reachable configuration, for every class `K` of event ids: every
    event ever appended to a manager's queue (`F`) is in exactly one place - handed to `_dispatcher`
    (`D`), still in some manager's deque or batch heap (possibly another manager's than the one it was
    fired on: `register` drains deques), or popped and about to be handed over (top frame).  Counted
    with multiplicity: a `Timer` re-fires one event object.  Never two places, never none. -/
theorem conservation {s0 : St} (hd : InitD s0) {c : Cfg} (hr : Reach s0 c) (K : Nat → Bool) :
    firedCnt K c.st.log = dispCnt K c.st.log + queuedCnt K c.st + d8pend K c.stack :=
  (d8_reach (hd K) c hr).bal.bal

/-- for an event object fired once: exactly one of "dispatched", "queued", "in flight" -/
theorem exactly_one_place {s0 : St} (hd : InitD s0) {c : Cfg} (hr : Reach s0 c) (e : Nat)
    (h1 : firedCnt (· == e) c.st.log = 1) :
    (dispCnt (· == e) c.st.log = 1 ∧ queuedCnt (· == e) c.st = 0 ∧ d8pend (· == e) c.stack = 0) ∨
    (dispCnt (· == e) c.st.log = 0 ∧ queuedCnt (· == e) c.st = 1 ∧ d8pend (· == e) c.stack = 0) ∨
    (dispCnt (· == e) c.st.log = 0 ∧ queuedCnt (· == e) c.st = 0 ∧ d8pend (· == e) c.stack = 1) := by
  have := conservation hd hr (· == e)
  omega

/-- nothing is dispatched more often than it was fired -/
theorem dispatched_le_fired {s0 : St} (hd : InitD s0) {c : Cfg} (hr : Reach s0 c) (K : Nat → Bool) :
    dispCnt K c.st.log ≤ firedCnt K c.st.log := by
  have := conservation hd hr K
  omega

/-- **A popped event cannot be dropped.**  `.dispatcher` frames (the call `dispatcher(event, …)` of
    `dispatchEvents`) exist only as the TOP frame and only while no exception is pending: the step
    after the pop executes `_dispatcher`'s entry (which logs the `D`), no unwinding can remove it -/
theorem dispatcher_frame_on_top_only {s0 : St} (hd : InitD s0) {c : Cfg} (hr : Reach s0 c) :
    (∀ f ∈ c.stack.tail, ∀ r e rem, f ≠ .dispatcher r e rem) ∧
    (∀ r e rem k, c.stack = .dispatcher r e rem :: k → c.exn = none) := by
  have h := d8_reach (hd (fun _ => true)) c hr
  refine ⟨?_, ?_⟩
  · intro f hf r e rem he
    have := h.tail
    simp only [d8plainAll, List.all_eq_true] at this
    have := this f hf
    rw [he] at this; cases this
  · intro r e rem k hs
    exact (h.head _ k hs rfl).1

/-- **At the return of `run()`**: every event ever fired has been dispatched as often as it was
    fired, except for copies that sit in the queue of ANOTHER manager (`x`'s own deque and heap are
    empty: they contribute 0 to `queuedCnt`) -/
theorem returns_all_dispatched {s0 : St} (hi : Init s0) (hd : InitD s0) {c : Cfg} (hr : Reach s0 c) {x : Nat}
    {k : List Frame} (hs : c.stack = .runFin x :: k) (hx : c.exn = none) (K : Nat → Bool) :
    firedCnt K c.st.log = dispCnt K c.st.log + queuedCnt K c.st ∧ (c.st.comp x).eq.cntK K = 0 := by
  have h1 := conservation hd hr K
  rw [hs] at h1
  have hp : d8pend K (Frame.runFin x :: k) = 0 := rfl
  rw [hp] at h1
  exact ⟨h1, r8_len_cnt K _ (returns_drained hi hr hs hx).2.2⟩

/-- … hence, when no other manager holds queued events (one tree, nothing left on detached
    components): fired = dispatched, for every class of events -/
theorem returns_fired_eq_dispatched {s0 : St} (hi : Init s0) (hd : InitD s0) {c : Cfg} (hr : Reach s0 c) {x : Nat}
    {k : List Frame} (hs : c.stack = .runFin x :: k) (hx : c.exn = none)
    (hother : ∀ y, y ≠ x → (c.st.comp y).eq.len = 0) (K : Nat → Bool) :
    firedCnt K c.st.log = dispCnt K c.st.log := by
  have h := returns_all_dispatched hi hd hr hs hx K
  have : queuedCnt K c.st = 0 := by
    rw [r8_queued_zero]
    intro y
    by_cases hy : y = x
    · subst hy; exact h.2
    · exact r8_len_cnt K _ (hother y hy)
  omega

/-- **Events queued on `x` are dispatched before `run()` returns.**  From a reachable configuration
    `c1` in which every queued copy of the class-`K` events (ids `< nb`, none a `Timer`'s event object)
    sits in `x`'s own queue and the log has `fc` `F` entries for them (`DLoc`): if `x.register(…)` is
    not executed in the next `j` steps and then `x.run()` is about to return normally, the log has
    exactly `fc` `F` and exactly `fc` `D` entries of class `K`: nothing was fired again, everything
    was dispatched. -/
theorem queued_on_x_dispatched_by_return {s0 : St} (hi : Init s0) (hd : InitD s0) {c1 : Cfg} (hr : Reach s0 c1)
    {K : Nat → Bool} {x nb fc : Nat} (h1 : DLoc K x nb fc c1.st)
    (hnoreg : ∀ i p k, (runN i c1).stack ≠ .register x p :: k)
    (j : Nat) {k : List Frame} (hfin : (runN j c1).stack = .runFin x :: k) (hxn : (runN j c1).exn = none) :
    firedCnt K (runN j c1).st.log = fc ∧ dispCnt K (runN j c1).st.log = fc :=
  r8_tracked hi hd hr h1 hnoreg j hfin hxn

/-- **`started` is dispatched exactly once.**  `x.run()` on a root `x` (`hroot`), `x.register(…)` not
    executed during the run (`hnoreg`): when `run()` returns normally, the `started` event object of
    this run (id `c0.st.evs.length`, created by the first step) has exactly one `F` and exactly one
    `D` entry in the log.
    PARTIAL.  Full statement: without `hroot`, `hnoreg`.  `hnoreg` is necessary: see
    `dispatched_once_witness` (a handler that registers the running manager under another one moves
    its deque away).  `hroot` is not known to be necessary (for a non-root `x` the event goes to the
    root's queue, which `x.tick()` flushes); the proof tracks the event in `x`'s own queue. -/
theorem started_dispatched_once_partial {s0 : St} (hi : Init s0) (hd : InitD s0) {c0 : Cfg} (hr : Reach s0 c0)
    {x : Nat} (hs : c0.stack = [.run x]) (hx : c0.exn = none) (hroot : c0.st.rootOf x = x)
    (hnoreg : ∀ i p k, (runN i c0).stack ≠ .register x p :: k)
    (n : Nat) {k : List Frame} (hfin : (runN n c0).stack = .runFin x :: k) (hxn : (runN n c0).exn = none) :
    firedCnt (· == c0.st.evs.length) (runN n c0).st.log = 1 ∧
    dispCnt (· == c0.st.evs.length) (runN n c0).st.log = 1 :=
  r8_started hi hd hr hs hx hroot hnoreg n hfin hxn

/-- **`stopped` is dispatched exactly once.**  If step `m` of the run executes an effective
    `x.stop(code)` (`x` running; by `stopped_once` there is exactly one such step) with `x` its own
    root, and `x.register(…)` is not executed during the run: when `run()` returns normally, the
    `stopped` event object fired by that step (id = `|evs|` before the step) has exactly one `F` and
    exactly one `D` entry.  PARTIAL for the same reason as `started_dispatched_once_partial`. -/
theorem stopped_dispatched_once_partial {s0 : St} (hi : Init s0) (hd : InitD s0) {c0 : Cfg} (hr : Reach s0 c0)
    {x : Nat} (hnoreg : ∀ i p k, (runN i c0).stack ≠ .register x p :: k)
    (m : Nat) {code : Code} {k' : List Frame} (hst : (runN m c0).stack = .stopMgr x code :: k')
    (hxm : (runN m c0).exn = none) (hrun : ((runN m c0).st.comp x).running = true)
    (hroot : (runN m c0).st.rootOf x = x)
    (n : Nat) (hmn : m < n) {k : List Frame} (hfin : (runN n c0).stack = .runFin x :: k)
    (hxn : (runN n c0).exn = none) :
    firedCnt (· == (runN m c0).st.evs.length) (runN n c0).st.log = 1 ∧
    dispCnt (· == (runN m c0).st.evs.length) (runN n c0).st.log = 1 :=
  r8_stopped hi hd hr hnoreg m hst hxm hrun hroot n hmn hfin hxn

/-- two managers; the `started` handler of manager 0 calls `self.stop()` and then
    `self.register(manager 1)` -/
def sW : St := {
  comps := [{ parent := 0, root := 0, htab := [(some Name.started, 0)] }, { parent := 1, root := 1 }],
  hs := [{ owner := 0, names := [Name.started], chan := none, kind := .user 0 }],
  progs := [[.stopMgr 0 none, .reg 0 1]] }

def atRegister (c : Cfg) (x p : Nat) : Bool :=
  match c.stack, c.exn with
  | .register y q :: _, none => y == x && q == p
  | _, _ => false

/-- the excluded case `hnoreg` really fails: `run 0` on `sW` executes `0.register(1)` at step 12
    (which drains manager 0's deque, holding the freshly fired `stopped`, into manager 1's) and
    returns at step 49 with `stopped` (event 2) fired once and never dispatched; `started` (event 0)
    was dispatched once -/
theorem dispatched_once_witness :
    atRegister (runN 12 (startRun sW 0)) 0 1 = true ∧
    atRunFin (runN 49 (startRun sW 0)) 0 = true ∧
    Entry.fire 2 Name.stopped [.star] 0 ∈ (runN 49 (startRun sW 0)).st.log ∧
    firedCnt (· == 2) (runN 49 (startRun sW 0)).st.log = 1 ∧
    dispCnt (· == 2) (runN 49 (startRun sW 0)).st.log = 0 ∧
    dispCnt (· == 0) (runN 49 (startRun sW 0)).st.log = 1 := by
  decide +kernel

/-! ### non-vacuity (section 7) -/

example : InitD s1 := initD_of_fresh s1 (by
    intro x
    match x with
    | 0 => decide
    | n + 1 =>
      have : ¬ (n + 1) < s1.comps.length := by simp [s1]
      rw [St.comp_ge this]; decide) rfl
  (by intro x; match x with | 0 => rfl | n + 1 => rfl)
example : InitD s2 := initD_of_fresh s2 (by
    intro x
    match x with
    | 0 => decide
    | n + 1 =>
      have : ¬ (n + 1) < s2.comps.length := by simp [s2]
      rw [St.comp_ge this]; decide) rfl
  (by intro x; match x with | 0 => rfl | n + 1 => rfl)

/-- `exactly_one_place`: in the run of `s2` the `started` event (id 0) is fired once -/
example : firedCnt (· == 0) (runN 58 (startRun s2 0)).st.log = 1 := by decide +kernel

/-- `started_dispatched_once_partial` / `stopped_dispatched_once_partial` /
    `queued_on_x_dispatched_by_return`: the run of `s2` (handler of `started` calls `self.stop(3)`):
    root, no `.register` frame in any of its 58 steps, the effective stop at some step `m < 58` with
    `x` running and its own root, `.runFin 0` at step 58 … -/
def noRegister (c : Cfg) : Bool :=
  match c.stack with
  | .register _ _ :: _ => false
  | _ => true
def atStop (c : Cfg) (x : Nat) : Bool :=
  match c.stack, c.exn with
  | .stopMgr y _ :: _, none => y == x && (c.st.comp x).running && c.st.rootOf x == x
  | _, _ => false
example : (startRun s2 0).st.rootOf 0 = 0 ∧ ((List.range 59).all fun i => noRegister (runN i (startRun s2 0))) = true ∧
    ((List.range 58).any fun m => atStop (runN m (startRun s2 0)) 0) = true ∧
    atRunFin (runN 58 (startRun s2 0)) 0 = true := by decide +kernel
/-- … and both conclusions, evaluated: `started` = event 0, `stopped` = event 2 -/
example : dispCnt (· == 0) (runN 58 (startRun s2 0)).st.log = 1 ∧
    dispCnt (· == 2) (runN 58 (startRun s2 0)).st.log = 1 := by decide +kernel
/-- `DLoc` is satisfiable: after the first step of that run, for `K = {0}` -/
example : DLoc (· == 0) 0 1 1 (step (startRun s2 0)).st :=
  r8_runBegin s2 0 rfl (by intro y; match y with | 0 => rfl | n + 1 => rfl) rfl (by intro tm h; cases h)

end CV.C08

import CV.Proofs.Stream
/-
C11 - Stream writes arrive in order, each byte once, and close waits for the buffer.

Everything below is about `CV.Stream.step` (CV/Model/Stream.lean), the model of the write
path of `Server` connections, `Client` and `File`, for

  * every endpoint kind `k`,
  * every op sequence `ops` (any number of writes with any payloads - empty, arbitrarily
    large -, close requests at any position, `_write` events carrying any OS outcome:
    accept any number of bytes, raise any errno),
  * every errno reaction table `act` that satisfies `GoodActs` (the table of the live code
    is measured by the harness on every run and `goodTable` is evaluated on it).

`trace act k ops` is what an observer sees; `check` / `acceptedOf` / `writtenOf` are defined
in CV/Model/StreamSpec.lean without reference to the model.

OS hypothesis (`osOk`): no bytes are accepted on a socket after it raised a fatal errno.
(That a socket closed by the endpoint refuses with EBADF is part of the model.)
-/
namespace CV.C11
open CV.Stream

/-- The reaction table of the repaired code, up to errnos that behave alike (used for the
    non-vacuity examples; the real table is a parameter obligation). -/
def fixedAct (e : Nat) : ErrAct :=
  if specTransient e then ⟨true, false, false⟩ else ⟨false, true, true⟩

/-- Client._write before the `fix:` commit: EPIPE/ENOTCONN close, everything else fires
    `error` and drops the payload. -/
def unfixedClientAct (e : Nat) : ErrAct :=
  if e = 32 ∨ e = 107 then ⟨false, false, true⟩ else ⟨false, true, false⟩

def demoOps : List Op :=
  [.write [1, 2, 3], .write [], .writable (.accept 2), .close, .write [4],
   .writable (.refuse EAGAIN), .writable (.accept 0), .writable (.accept 9),
   .writable (.accept 9), .writable (.accept 9), .writable (.refuse 104)]

example : GoodActs fixedAct := by
  intro e; unfold fixedAct goodAct; cases specTransient e <;> simp

/-- **Main theorem.** On every run of the model the independent spec predicate holds:
    accepted chunks are always the next pending bytes (nothing lost, repeated, reordered),
    nothing is accepted after the socket was closed, the socket is closed only when nothing
    is pending or after a fatal error, a fatal error is signalled by `error`/disconnect
    before the op ends, and an open healthy endpoint with pending bytes is registered as a
    writer. -/
theorem spec_holds (act : Nat → ErrAct) (hg : GoodActs act) (k : Kind) (ops : List Op)
    (hos : osOk (trace act k ops) = true) : check (trace act k ops) = none := by
  unfold osOk at hos
  rcases sim_run act hg ops (init k) {} (R_init k) with h | h
  · simp [trace, h] at hos
  · exact h.bad

example : osOk (trace fixedAct .client demoOps) = true ∧ check (trace fixedAct .client demoOps) = none := by
  decide

/-- The bytes handed to the OS are always an exact prefix of the bytes written to the
    endpoint before it closed - also after a fatal send error. -/
theorem accepted_prefix (act : Nat → ErrAct) (hg : GoodActs act) (k : Kind) (ops : List Op)
    (hos : osOk (trace act k ops) = true) :
    acceptedOf (trace act k ops) <+: writtenOf false (trace act k ops) := by
  have hb := spec_holds act hg k ops hos
  unfold osOk at hos
  have hbal := specRun_balance {} (trace act k ops) rfl
  have ha := specRun_accepted {} (trace act k ops) hb (by simpa using hos)
  have hw := specRun_written {} (trace act k ops)
  rw [ha, hw] at hbal
  exact ⟨_, by simpa using hbal⟩

/-- Conservation: as long as no send was refused with a fatal errno - whatever the partial
    sends and transient refusals (EAGAIN/EWOULDBLOCK, EINTR, ENOBUFS) - the bytes accepted
    by the OS followed by the bytes still buffered are exactly the bytes written; once the
    endpoint has closed, everything written before has been accepted. -/
theorem conservation (act : Nat → ErrAct) (hg : GoodActs act) (k : Kind) (ops : List Op)
    (hnf : ∀ e, Ev.refuse e ∈ trace act k ops → specTransient e = true) :
    acceptedOf (trace act k ops)
        ++ (if (run act (init k) ops).1.isOpen then (run act (init k) ops).1.buf.flatten else [])
      = writtenOf false (trace act k ops) := by
  have ⟨hd, ho⟩ := no_fatal {} (trace act k ops) hnf rfl rfl
  rcases sim_run act hg ops (init k) {} (R_init k) with h | h
  · simp only [trace] at ho; rw [ho] at h; exact absurd h (by simp)
  · have hbal := specRun_balance {} (trace act k ops) rfl
    have ha := specRun_accepted {} (trace act k ops) h.bad ho
    have hw := specRun_written {} (trace act k ops)
    rw [ha, hw] at hbal
    simp only [trace] at hd
    cases hopen : (run act (init k) ops).1.isOpen with
    | true => simpa [trace, h.pendOpen hopen hd] using hbal
    | false => simpa [trace, h.pendClosed hopen hd] using hbal

example : ∀ e, Ev.refuse e ∈ trace fixedAct .file (demoOps.take 10) → specTransient e = true := by
  intro e h
  have hall : (trace fixedAct .file (demoOps.take 10)).all
      (fun ev => match ev with | .refuse e => specTransient e | _ => true) = true := by decide
  exact (List.all_eq_true.mp hall) _ h

/-- Nothing is written after the endpoint has closed its socket. -/
theorem nothing_after_close (act : Nat → ErrAct) (hg : GoodActs act) (k : Kind) (ops : List Op)
    (hos : osOk (trace act k ops) = true) (a b : List Ev)
    (hsplit : trace act k ops = a ++ .sockClose :: b) : ∀ x, Ev.acc x ∉ b := by
  have hb := spec_holds act hg k ops hos
  unfold check at hb
  rw [hsplit, specRun_append, specRun_cons] at hb
  exact closed_no_acc _ b (sockClose_closed _) hb

/-- A close takes effect only after everything written so far has been accepted: at the
    moment the socket is closed (no fatal send error before), accepted = written. -/
theorem close_after_drain (act : Nat → ErrAct) (hg : GoodActs act) (k : Kind) (ops : List Op)
    (hos : osOk (trace act k ops) = true) (a b : List Ev)
    (hsplit : trace act k ops = a ++ .sockClose :: b) (hfirst : Ev.sockClose ∉ a)
    (hnf : ∀ e, Ev.refuse e ∈ a → specTransient e = true) :
    acceptedOf a = writtenOf false a := by
  have hb := spec_holds act hg k ops hos
  unfold check at hb
  rw [hsplit, specRun_append, specRun_cons] at hb
  have hb1 := bad_none_of_run hb
  have hba : (specRun {} a).bad = none := by
    cases h : (specRun {} a).bad with
    | none => rfl
    | some c => exact absurd hb1 (specStep_bad_mono _ _ (by simp [h]))
  have ⟨hd, ho⟩ := no_fatal {} a hnf rfl rfl
  have hc := no_close_closed {} a hfirst rfl
  have hbal := specRun_balance {} a rfl
  have ha := specRun_accepted {} a hba ho
  have hw := specRun_written {} a
  have hp : (specRun {} a).pending = [] := by
    cases hpe : (specRun {} a).pending with
    | nil => rfl
    | cons x xs =>
      exfalso
      have : (specStep (specRun {} a) .sockClose).bad ≠ none := by
        simp only [specStep, hc, hd, hpe]
        exact fail_bad _ _
      exact this hb1
  rw [ha, hw, hp] at hbal
  simpa using hbal

/-- A fatal send error (any errno other than the transient ones) on the open endpoint is
    followed, before the op is over, by an `error` or a disconnect event. -/
theorem fatal_signalled (act : Nat → ErrAct) (hg : GoodActs act) (k : Kind) (ops : List Op)
    (hos : osOk (trace act k ops) = true) (a b : List Ev) (e : Nat)
    (hsplit : trace act k ops = a ++ .refuse e :: b) (hopen : Ev.sockClose ∉ a)
    (hfatal : specTransient e = false)
    (c d : List Ev) (i : Bool) (hop : b = c ++ .bd i :: d) (hc : ∀ j, Ev.bd j ∉ c) :
    Ev.evErr ∈ c ∨ Ev.evDisc ∈ c := by
  have hb := spec_holds act hg k ops hos
  unfold check at hb
  rw [hsplit, specRun_append, specRun_cons, hop] at hb
  have hcl := no_close_closed {} a hopen rfl
  apply owed_signalled _ c i d _ hb hc
  simp [specStep, hcl, hfatal]

def fatalOps : List Op := [.write [1, 2], .writable (.accept 1), .writable (.refuse 104)]

example : ∃ a b, trace fixedAct .server fatalOps = a ++ .refuse 104 :: b ∧ Ev.sockClose ∉ a
    ∧ osOk (trace fixedAct .server fatalOps) = true :=
  ⟨(trace fixedAct .server fatalOps).take 4, (trace fixedAct .server fatalOps).drop 5,
    by decide, by decide, by decide⟩

/-- Writer interest: an open endpoint is registered as a writer exactly while its buffer is
    non-empty - no stall and no busy loop (holds for every reaction table). -/
theorem interest_iff (act : Nat → ErrAct) (k : Kind) (ops : List Op) :
    (run act (init k) ops).1.isOpen = true →
      ((run act (init k) ops).1.interest = true ↔ (run act (init k) ops).1.buf ≠ []) :=
  interest_run act ops (init k) (by intro _; simp [init])

/-- Server connections: once the connection is closed no `send` is even attempted (for every
    reaction table and every OS behaviour). -/
theorem server_no_send_when_closed (act : Nat → ErrAct) (s : State) (ops : List Op)
    (hk : s.kind = .server) (hc : s.isOpen = false) :
    ∀ ev ∈ (run act s ops).2, (∀ b, ev ≠ .acc b) ∧ (∀ e, ev ≠ .refuse e) ∧ ev ≠ .sockClose :=
  server_closed_run act ops s hk hc

/-- `GoodActs` is needed: with the reaction table of `Client._write` before the fix, one
    payload and one EAGAIN lose the payload (the spec fails with `stalled`: the byte is
    pending, the endpoint open, and nobody will ever send it). -/
theorem unfixed_client_witness :
    check (trace unfixedClientAct .client [.write [97], .writable (.refuse EAGAIN)]) = some .stalled := by
  decide

end CV.C11

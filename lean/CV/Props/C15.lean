import CV.Proofs.HttpResp
import CV.Proofs.HttpHead
import CV.Proofs.HttpSeq
import CV.Proofs.HttpRespPath
import CV.Proofs.HttpRespFail
/-
C15 - Every HTTP response is a well-formed, self-delimiting message with exact body.

Model: CV.HttpResp (prepare / _on_response / _on_stream / _clients, after the fix: commits).
Reader: CV.HttpSpec (RFC 7230 client side; shares no definition with the model).

All statements are for every request shape `rq` (HEAD or not, HTTP/1.0 or 1.1, keep-alive wish),
every response `r` (any status, any reason, any application headers, a sized / unsized / streamed
body with any number of parts of any length, empty parts included, close forced or not) and, where
present, every byte string `rest` that follows on the connection and every list of requests.

Hypotheses that appear:
  neutral r.hdrs   the application did not itself set Content-Length / Transfer-Encoding /
                   Connection (then the framing is the application's, not the framework's);
  wfHead …         status has three digits, no LF in the reason phrase, header names are
                   non-empty tokens without ':' / blanks / LF, header values contain no LF and
                   carry no leading/trailing blanks (what a reader is allowed to strip).
These delimit the *inputs* the property quantifies over (result type and size, status class,
version, Connection wish, method, streaming, request sequences); they exclude no framing decision
of the code.  Header injection through application-supplied header text is not part of C15.
The theorems that speak only about the framing (`body_roundtrip`, `body_roundtrip_close`,
`bodyless`, `delimiter_choice`, `close_iff_announced`, `sequence`, `entry_released`) carry no such
hypothesis at all.

Nothing is `_partial`: the five defects found on the unrepaired tree (HEAD without close/cleanup,
missing last-chunk for an empty unsized body, empty first streamed piece framed as last-chunk,
body written for 1xx/204/304, 205 with an unsized body left undelimited) were repaired by `fix:`
commits and the model follows the repaired code.
Not modelled (outside the statement's product or other properties' territory): `stream = True`
together with a non-iterator body (a TypeError loop in the framework - reported, not judged),
(body iterators that raise and handlers returning True / False: modelled since, see the last part of this file), request cookies echoed as Set-Cookie,
request parsing (C13), errors.py (the page text and the headers an httperror / redirect event leaves are
parameters `ErrEnv` of the second part), the scheduling of coroutine handlers inside the core (C04/C06: which
events reach the decision code for a handler shape is the observed table `trace`).
Second part (below, "Responses produced through the handler-return paths"): the decision code that turns the
result of a request handler into the one `response(res)` event - model CV.HttpResp `step` / `trace` / `answer`
(CV/Model/HttpRespPath.lean), after three `fix:` commits found by it (error of a nested event answered twice;
Redirect raised in a nested / coroutine handler answered without Location; error triple of a failing coroutine
callee taken for the body).
-/
namespace CV.C15
open CV.HttpResp CV.HttpSpec

/- `headOf rq r` / `msgOf rq r` (CV/Proofs/HttpSeq.lean): the head and the message the client must
   recover: version, status, reason, *all* headers in order, `expectedBody`, and `willClose` =
   the close decision of `prepare`.  `wf rq r` = `neutral r.hdrs && wfHead …` (see above). -/

/-- **Body framing, self-delimiting case.**  Unless the response is delimited by the end of the
connection, the RFC reader - given the framing `prepare` announced - recovers exactly the body the
application produced (nothing for HEAD / 1xx / 204 / 304) and leaves exactly the bytes that
followed the response: Content-Length is exact, the chunked coding is complete and terminated. -/
theorem body_roundtrip (rq : Req) (r : Resp) (rest : Bytes) (eof : Bool)
    (h : untilClose rq r = false) :
    decodeBody rq.isHead r.status (framing (prepare rq r)) (bodyBytes rq r ++ rest) eof
      = some (expectedBody rq r, rest) :=
  decodeBody_delimited rq r rest eof h

/-- **Body framing, close-delimited case.**  Otherwise the body is everything up to the end of the
connection, and the server does end it. -/
theorem body_roundtrip_close (rq : Req) (r : Resp) (h : untilClose rq r = true) :
    decodeBody rq.isHead r.status (framing (prepare rq r)) (bodyBytes rq r) true
        = some (expectedBody rq r, [])
      ∧ hasClose (respond rq r) = true := by
  refine ⟨decodeBody_untilClose rq r h, ?_⟩
  rw [hasClose_respond]; exact untilClose_closes rq r h

/-- **HEAD, 1xx, 204 and 304 responses carry no body**: nothing is written after the header block. -/
theorem bodyless (rq : Req) (r : Resp) (h : (rq.isHead || bodylessStatus r.status) = true) :
    bodyBytes rq r = [] ∧ expectedBody rq r = [] := by
  refine ⟨bodyBytes_nobody rq r h, ?_⟩
  simp [expectedBody, h]

/-- **Choice of the delimiter.**  Content-Length iff the body is sized; chunked only on HTTP/1.1,
never for HEAD, never together with Content-Length; and a response that has a body but neither
is closed by the server. -/
theorem delimiter_choice (rq : Req) (r : Resp) :
    ((prepare rq r).clen.isSome = true ↔ ∃ ps, r.body = .sized ps)
    ∧ ((prepare rq r).chunked = true → rq.v11 = true ∧ rq.isHead = false ∧ (prepare rq r).clen = none)
    ∧ (untilClose rq r = true → (prepare rq r).close = true) := by
  refine ⟨?_, ?_, untilClose_closes rq r⟩
  · rw [prepare_clen]
    cases hb : r.body <;> simp [cLength]
  · intro hc
    cases hb : r.body with
    | sized ps => rw [prepare_sized_not_chunked rq r ps hb] at hc; exact absurd hc (by simp)
    | iter ps =>
      unfold prepare at hc ⊢
      simp only [hb, cLength] at hc ⊢
      split at hc
      · simp at hc
      · split at hc
        · simp at hc
        · split at hc
          · rename_i hv; simp at hv; simp [hv.1, hv.2]
          · simp at hc
    | stream ps =>
      unfold prepare at hc ⊢
      simp only [hb, cLength] at hc ⊢
      split at hc
      · simp at hc
      · split at hc
        · simp at hc
        · split at hc
          · rename_i hv; simp at hv; simp [hv.1, hv.2]
          · simp at hc

/-- **The connection is closed iff the response announces it** (RFC 7230 6.3 reading of the
protocol version and the Connection header the response carries). -/
theorem close_iff_announced (rq : Req) (r : Resp) :
    hasClose (respond rq r) = announcesClose rq.v11 (prepare rq r).conn := by
  rw [hasClose_respond, announces_prepare]

/-- The framing headers in the rendered header block are read back as `prepare` decided them. -/
theorem framing_recovered (rq : Req) (r : Resp) (h : neutral r.hdrs = true) :
    framingOf (headers r (prepare rq r)) = some (framing (prepare rq r)) :=
  framingOf_headers r _ h

/-- **Whole message, self-delimiting case**: from the raw bytes of a response followed by any
bytes `rest`, the RFC reader recovers status line, every header, the exact body, whether the
server will close, and leaves exactly `rest`. -/
theorem roundtrip (rq : Req) (r : Resp) (rest : Bytes) (eof : Bool)
    (hw : wf rq r = true) (h : untilClose rq r = false) :
    rfcDecode rq.isHead (bytesOf (respond rq r) ++ rest) eof = .ok (msgOf rq r, rest) :=
  rfcDecode_delimited rq r rest eof hw h

/-- **Whole message, close-delimited case**: the reader recovers the message once the connection
has ended, the message says so, and the server closes. -/
theorem roundtrip_close (rq : Req) (r : Resp) (hw : wf rq r = true) (h : untilClose rq r = true) :
    rfcDecode rq.isHead (bytesOf (respond rq r)) true = .ok (msgOf rq r, [])
      ∧ (msgOf rq r).willClose = true ∧ hasClose (respond rq r) = true := by
  have hcl := untilClose_closes rq r h
  exact ⟨rfcDecode_untilClose rq r hw h, hcl, by rw [hasClose_respond]; exact hcl⟩

/-- **Successive requests on one connection.**  Starting from a fresh connection, every request up
to and including the first whose response closes is answered by the response to *its own*
(request, application result) pair - nothing of an earlier exchange survives - and nothing at all
is written after the close. -/
theorem sequence (script : List (Req × Resp)) :
    run Conn.fresh script = (answered script).flatMap (fun x => respond x.1 x.2) :=
  run_clean script Conn.fresh rfl rfl

/-- After any exchange on a clean connection the `_clients` entry is gone again. -/
theorem entry_released (c : Conn) (x : Req × Resp) (hs : c.stale = none) :
    (serve c x).1.stale = none := by
  cases hc : c.closed with
  | true => simp [serve, hc, hs]
  | false => rw [serve_clean c x hs hc]

/-- **The property predicate itself holds of every model run.**  `checkWire` is the decidable
predicate the driver evaluates on the *implementation's* recorded events (spec on impl): read
the responses one after the other with the RFC reader; response i has the status, the
application's headers and exactly the body of request i (no body for HEAD/1xx/204/304); no stray
bytes; a response that announces close is the last thing on the connection and the close event
follows; no close otherwise; nothing happens after the close.  For every list of requests on a
fresh connection - any length - the model's events satisfy it. -/
theorem spec_holds_of_every_run (script : List (Req × Resp)) (hw : ∀ x ∈ script, wf x.1 x.2 = true) :
    checkWire (wireOf (run Conn.fresh script)) (script.map expectOf) = .ok :=
  checkWire_run script hw


/-! ## Responses produced through the handler-return paths

The application produces its result by *returning / yielding from a request handler*.  `trace p k s` are the
events that reach circuits.web's decision code (`HTTP._on_request_success`, `_on_request_failure`,
`_on_exception`, `Dispatcher._on_request_value_changed`; model: `step`) for handler shape `p` (plain `request`
handler, Controller method through `expose`, coroutine yielding the pieces, `yield self.call(e)` /
`yield self.wait(e)`, `return self.fire(e)` with a callee that answers at once or ticks later, nobody), result
kind `k` (a value, the Response object, an httperror event) and stage `s` (all well, or an exception raised in the
handler / after the first yield / in the callee: a Redirect, an HTTPException with any code, anything else).
All statements are for every such combination that exists (`trace p k s = some evs`), every request shape `rq`,
every status / headers the handler set (`app`), every body `b` and every error page text (`env`).
Which events the core delivers for a shape (`trace`) is validated against the real event trace by the check,
not derived here (C04/C06 are about the core). -/

/-- **Exactly one response per request**, whichever way the handler hands over its result and wherever it
raises: the decision code fires exactly one answer (each answer ends in exactly one `response(res)` event),
and it is the expected one - the handler's result, or the page for what was raised. -/
theorem one_response_per_request (p : Path) (k : Kind) (s : Stage) (evs : List HttpEv)
    (h : trace p k s = some evs) :
    (fired evs).length = 1 ∧ fired evs = [expected p s] := by
  rw [fired_trace p k s evs h]; simp

/-- **The response does not depend on the path.**  Two handlers that produce the same outcome (both a result,
or both the same exception class / code) - along any two paths, at any two stages - put exactly the same
bytes and the same close decision on the connection, given the same status, headers and body. -/
theorem result_path_irrelevant (rq : Req) (env : ErrEnv) (app : App) (b : Body)
    (p₁ p₂ : Path) (k₁ k₂ : Kind) (s₁ s₂ : Stage) (e₁ e₂ : List HttpEv)
    (h₁ : trace p₁ k₁ s₁ = some e₁) (h₂ : trace p₂ k₂ s₂ = some e₂)
    (hsame : expected p₁ s₁ = expected p₂ s₂) :
    pathActs rq env app b e₁ = pathActs rq env app b e₂ := by
  rw [pathActs_of_fired rq env app b e₁ _ (fired_trace p₁ k₁ s₁ e₁ h₁),
      pathActs_of_fired rq env app b e₂ _ (fired_trace p₂ k₂ s₂ e₂ h₂), hsame]

/-- **A result is answered as a result**: when nothing is raised (and somebody handles the request) the
connection carries `respond` of the response the handler prepared - its status, its headers, the body `b`. -/
theorem result_is_response (rq : Req) (env : ErrEnv) (app : App) (b : Body) (p : Path) (k : Kind)
    (evs : List HttpEv) (h : trace p k .ok = some evs) (hp : p ≠ .nobody) :
    pathActs rq env app b evs
      = respond rq { status := app.status, reason := app.reason, hdrs := app.hdrs, body := b,
                     forceClose := app.close } := by
  rw [pathActs_of_fired rq env app b evs _ (fired_trace p k .ok evs h)]
  cases p <;> simp_all [expected, answer]

/-- **An error result is the error page, and the connection is closed.**  Whatever the path and the stage,
an exception is answered by the response of the three-way choice (Redirect -> redirect with its code,
HTTPException -> its code, anything else -> 500): status = that code, body = the page text (one part, sized
- so delimited by Content-Length), and the server closes the connection after it. -/
theorem error_result_is_error_page (rq : Req) (env : ErrEnv) (app : App) (b : Body) (p : Path) (k : Kind)
    (s : Stage) (e : Exc) (evs : List HttpEv) (h : trace p k s = some evs) (hs : raised s = some e) :
    ∃ r : Resp, pathActs rq env app b evs = respond rq r
      ∧ r = answer env app b (excFired e)
      ∧ r.status = (match e with | .redirect c => c | .http c => c | .other => 500)
      ∧ r.body = pageBody (env.page (excFired e))
      ∧ hasClose (pathActs rq env app b evs) = true := by
  have hp : p ≠ .nobody := by
    intro hp; subst hp
    cases k <;> cases s <;> simp [trace] at h <;> simp [raised] at hs
  have hexp : expected p s = excFired e := by
    cases s <;> simp [raised] at hs <;> subst hs <;> cases p <;> simp_all [expected]
  have hact := pathActs_of_fired rq env app b evs _ (fired_trace p k s evs h)
  rw [hexp] at hact
  refine ⟨answer env app b (excFired e), hact, rfl, ?_, ?_, ?_⟩
  · cases e <;> simp [excFired, answer]
  · cases e <;> simp [excFired, answer]
  · rw [hact, hasClose_respond]
    exact prepare_close_of_force rq _ (answer_exc_force env app b e)

/-- **Whichever path produced it, the client recovers the result** (self-delimiting case; with
`roundtrip_close` for the close-delimited one): from the bytes put on the connection for the request, followed
by any bytes `rest`, the RFC reader recovers the status line, every header, exactly the body the handler
handed over, and leaves `rest`. -/
theorem path_roundtrip (rq : Req) (env : ErrEnv) (app : App) (b : Body) (p : Path) (k : Kind) (s : Stage)
    (evs : List HttpEv) (rest : Bytes) (eof : Bool) (h : trace p k s = some evs)
    (hw : wf rq (answer env app b (expected p s)) = true)
    (hd : untilClose rq (answer env app b (expected p s)) = false) :
    rfcDecode rq.isHead (bytesOf (pathActs rq env app b evs) ++ rest) eof
      = .ok (msgOf rq (answer env app b (expected p s)), rest) := by
  rw [pathActs_of_fired rq env app b evs _ (fired_trace p k s evs h)]
  exact rfcDecode_delimited rq _ rest eof hw hd

/-- **An error is answered once.**  For *any* sequence of events at the decision code (not only the traced
ones): once the request is marked handled - which every answered exception does - no later event of the
request makes the code fire another error or redirect page (only "nobody handled the request" is outside:
it is decided before any handler runs). -/
theorem error_answered_once (evs : List HttpEv) (hn : HttpEv.success .none ∉ evs) (e : Exc) :
    excFired e ∉ runEvents true evs := by
  intro hmem
  exact excFired_ne_respond e (runEvents_handled evs hn _ hmem)

/-- ... and the first exception that reaches the decision code does mark the request handled. -/
theorem exception_marks_handled (e : Exc) :
    (step false (.failure e)).1 = true ∧ (step false (.exception (.nested e))).1 = true
      ∧ (step false (.success (.triple e))).1 = true ∧ (step false (.success (.valError e))).1 = true := by
  simp [step, once]

/-! ### non-vacuity: the hypotheses are satisfiable by non-trivial values -/

private def rqGet : Req := { isHead := false, v11 := true, keep := true }
private def rq10 : Req := { isHead := false, v11 := false, keep := false }
private def hdrsEx : List (Bytes × Bytes) := [([68, 97, 116, 101], [84, 104, 117]), ([88, 45, 67], [116, 48])]
private def rStream : Resp :=
  { status := 200, reason := [79, 75], hdrs := hdrsEx, body := .stream [[], [104, 105], [], [33]], forceClose := false }
private def rSized : Resp :=
  { status := 404, reason := [78, 111], hdrs := hdrsEx, body := .sized [[104, 105], []], forceClose := true }

-- chunked stream on HTTP/1.1: well-formed, self-delimiting
example : wf rqGet rStream = true ∧ untilClose rqGet rStream = false ∧ (prepare rqGet rStream).chunked = true := by
  decide
-- the same stream on HTTP/1.0: delimited by close
example : wf rq10 rStream = true ∧ untilClose rq10 rStream = true := by decide
-- sized error page
example : wf rqGet rSized = true ∧ untilClose rqGet rSized = false ∧ (prepare rqGet rSized).clen = some 2 := by
  decide
-- body-less
example : (({ rqGet with isHead := true } : Req).isHead || bodylessStatus rStream.status) = true := by decide
example : neutral rStream.hdrs = true := by decide
-- a script whose second response closes: the third request is not answered
example : (answered [(rqGet, rStream), (rqGet, rSized), (rqGet, rStream)]).length = 2 := by decide
example : (Conn.fresh).stale = none := rfl
-- a three-request script satisfying the hypothesis of `spec_holds_of_every_run`
example : ∀ x ∈ [(rqGet, rStream), (rq10, rStream), (rqGet, rSized)], wf x.1 x.2 = true := by decide

-- handler-return paths: combinations that exist, with their events
example : trace .exposeFireLate .value (.callee (.http 404))
    = some [.success .valPending, .changed .other, .exception (.nested (.http 404))] := rfl
example : trace .plain (.errorEvent 503) .ok = some [.success (.errorEvent 503)] := rfl
example : trace .exposeCall .value (.afterYield (.redirect 303)) ≠ none ∧ trace .plainGen .value .ok ≠ none
    ∧ expected .exposeCall (.afterYield (.redirect 303)) = expected .plain (.handler (.redirect 303)) := by decide
example : trace .expose .responseObj .ok ≠ none ∧ Path.expose ≠ Path.nobody := by decide
example : raised (.callee .other) = some .other ∧ trace .plainCall .value (.callee .other) ≠ none := by decide
private def envEx : ErrEnv := { reason := fun _ => [78], page := fun _ => [112, 97, 103, 101], hdrs := fun _ h => h }
private def appEx : App := { status := 200, reason := [79, 75], hdrs := hdrsEx, close := false }
example : wf rqGet (answer envEx appEx (.sized [[104, 105]]) (expected .exposeFire .ok)) = true
    ∧ untilClose rqGet (answer envEx appEx (.sized [[104, 105]]) (expected .exposeFire .ok)) = false := by decide
example : wf rqGet (answer envEx appEx (.sized [[104, 105]]) (expected .expose (.handler (.http 404)))) = true
    ∧ untilClose rqGet (answer envEx appEx (.sized [[104, 105]]) (expected .expose (.handler (.http 404)))) = false := by
  decide
example : HttpEv.success .none ∉ [HttpEv.success (.triple .other), .exception (.nested .other), .changed .ready] := by
  decide
-- without the handled flag the same error would be answered again (what the `fix:` commit repaired)
example : runEvents false [.success (.triple .other), .exception (.nested .other)] = [.error 500] := by decide


/-! ## Body iterators that raise, and handlers that return a flag

Model CV/Model/HttpRespFail.lean (the code after the `fix:` commit "a response body iterator that raises after the
head is sent aborts the connection"); `cutOk` is written on the RFC reader only.  Quantified over every request
shape, every response (status, headers, close forced or not), every unsized / streamed body with any pieces
(empty ones included), every failure point `k` (0 = before the first piece, beyond the last piece = when the
iterator is asked for the end), every state of the connection and every sequence of further requests.
`touched rq r` says that the body object is used at all: not HEAD / 1xx / 204 / 304, not a list. -/

open CV.HttpResp in
/-- **A failing body iterator ends the connection, and the peer is not deceived.**  The server closes, nothing
follows the close, what was sent after the header block is - in the announced framing - a prefix of what the
application produced (so there is no second status line inside the message), and a chunked message carries no
last-chunk: the RFC reader cannot take the truncated body for a complete one. -/
theorem failure_cut_is_visible (rq : Req) (r : Resp) (k : Nat) (h : touched rq r = true) :
    cutOk (framing (prepare rq r)) (failBytes rq r k) (hasClose (respondFail rq r k)) false (producedOf r) = true := by
  obtain ⟨ws, hws⟩ := respondFail_shape rq r k h
  rw [hws, hasClose_writes_close]
  exact cutOk_fail rq r k h

example : touched ⟨false, true, true⟩ ⟨200, [], [], .stream [[1], [2]], false⟩ = true := by decide

/-- **Exactly one status line, exactly one close, the close is last**: the acts of the failed response are the
header block, the pieces handed out before the failure, and the close - no error response after the head. -/
theorem failure_one_head_then_close (rq : Req) (r : Resp) (k : Nat) (h : touched rq r = true) :
    ∃ ws : List Bytes, respondFail rq r k
      = Act.write (renderHead rq.v11 r.status r.reason (headers r (prepare rq r))) :: (ws.map Act.write ++ [Act.close]) := by
  obtain ⟨ws, hws⟩ := respondFail_shape rq r k h
  cases ws with
  | nil => simp [respondFail] at hws
  | cons w ws =>
    refine ⟨ws, ?_⟩
    simp only [respondFail, List.map_cons, List.cons_append] at hws ⊢
    injection hws with h1 h2
    rw [h2]

example : touched ⟨false, false, false⟩ ⟨200, [], [], .iter [[1]], false⟩ = true := by decide

/-- **The per-connection entry is released and the connection is dead**: whatever was left in `_clients`, after the
failed response the entry is gone, the connection counts as closed, and no further request on it is answered -
never another response behind an unfinished message. -/
theorem failure_releases_entry (c : Conn) (x : Req × Resp) (k : Nat) (xs : List ((Req × Resp) × Option Nat))
    (hc : c.closed = false) (hs : c.stale = none) (h : touched x.1 x.2 = true) :
    (serveMaybe c x (some k)).1 = { stale := none, closed := true }
    ∧ runMaybe c ((x, some k) :: xs) = respondFail x.1 x.2 k := by
  obtain ⟨ws, hws⟩ := respondFail_shape x.1 x.2 k h
  have h1 : serveMaybe c x (some k) = ({ stale := none, closed := true }, respondFail x.1 x.2 k) := by
    simp [serveMaybe, hc, hs, hws, hasClose_writes_close]
  refine ⟨by rw [h1], ?_⟩
  have hdead : ∀ (ys : List ((Req × Resp) × Option Nat)) (d : Conn), d.closed = true → runMaybe d ys = [] := by
    intro ys
    induction ys with
    | nil => intro d _; rfl
    | cons y ys ih =>
      intro d hd
      obtain ⟨y, ky⟩ := y
      cases ky with
      | none => simp [runMaybe, serveMaybe, serve, hd, ih d hd]
      | some j => simp [runMaybe, serveMaybe, hd, ih d hd]
  have hd := hdead xs { stale := none, closed := true } rfl
  simp [runMaybe, h1, hd]

example : (Conn.fresh).closed = false ∧ (Conn.fresh).stale = none := by decide

/-- **Where nothing can fail nothing changes**: for HEAD, body-less statuses and list bodies the response is the
ordinary one (covered by the theorems above), whatever the failure point. -/
theorem failure_untouched (rq : Req) (r : Resp) (k : Nat) (h : touched rq r = false) :
    respondFail rq r k = respond rq r :=
  respondFail_untouched rq r k h

example : touched ⟨true, true, true⟩ ⟨200, [], [], .stream [[1]], false⟩ = false := by decide

/-- **A handler that returns `True` / `False` has taken the exchange over**: the HTTP component writes nothing and
closes nothing for it (no status line of its own beside the handler's), and keeps the request / response pair. -/
theorem flag_result_is_silent (c : Conn) (x : Req × Resp) :
    (serveFlag c x).2 = [] ∧ (c.closed = false → (serveFlag c x).1.stale.isSome = true ∧ (serveFlag c x).1.closed = false) := by
  unfold serveFlag
  cases hc : c.closed <;> simp

end CV.C15

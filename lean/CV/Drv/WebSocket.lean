import CV.Drv.Util
import CV.Model.WebSocketSpec
/-
Line protocol of the `ws` machine (C17).

  mode client|server            which side the codec is (client masks what it writes)
  keys <hex of 4n bytes>        the values `os.urandom(4)` will return, in order (cyclic)
  feed <hex>                    one raw read            -> <msgs> | <writes> | c=<n> x=<n>
  write t|b <hex>               local write event       -> same shape
  close                         local close event       -> same shape
  param <name> <nat>            constant extracted from the live code = constant of the model
  spec-write <c|s> <key> <t|b> <payload> <written>      spec on impl: written data frame
  spec-read <c|s> <0|1|m> <stream> <frame>* | <obs>*     spec on impl: reaction to peer frames
      frame = f:<fin 0|1>:<opcode>:<key hex|~>:<payload hex>
      obs   = mt:<hex> | mb:<hex> | w:<hex of a written frame> | c
      0/1 = local close not sent / sent before the first read; m = sent somewhere in between
            (then pongs are only required to be a sub-sequence of the expected ones)
msgs: `mt:<hex>` / `mb:<hex>`; writes: `w:<hex>`; c = close events fired by the codec on its
own channel, x = close events fired on the parent channel (transport close).
-/
namespace CV.Drv
open CV.WS

structure WsSt where
  st : St := {}
  client : Bool := false
  keys : List Bytes := []
  kpos : Nat := 0

def WsSt.nextKey (s : WsSt) : Bytes × WsSt :=
  if s.keys.isEmpty then ([0, 0, 0, 0], s)
  else (s.keys.getD (s.kpos % s.keys.length) [0, 0, 0, 0], { s with kpos := s.kpos + 1 })

def chunk4 : Nat → Bytes → List Bytes
  | 0, _ => []
  | _, [] => []
  | fuel + 1, bs => bs.take 4 :: chunk4 fuel (bs.drop 4)

def showMsg : Out → Option String
  | Out.message true p => some s!"mt:{toHex p}"
  | Out.message false p => some s!"mb:{toHex p}"
  | _ => none

def join (l : List String) : String := " ".intercalate l

def answer (msgs writes : List String) (c x : Nat) : String :=
  s!"{join msgs} | {join writes} | c={c} x={x}"

/-- render the pongs of `outs` with successive keys -/
def renderPongs (s : WsSt) : List Out → WsSt × List String
  | [] => (s, [])
  | Out.pong p :: rest =>
    let (k, s1) := if s.client then s.nextKey else ([], s)
    let (s2, ws) := renderPongs s1 rest
    (s2, s!"w:{toHex (pongFrame s.client p k)}" :: ws)
  | _ :: rest => renderPongs s rest

def showClose : CloseOut → Option String
  | CloseOut.frame bs => some s!"w:{toHex bs}"
  | CloseOut.transport => none

def doClose (s : WsSt) : WsSt × List String × Nat :=
  let (st1, co) := onClose s.st
  ({ s with st := st1 }, co.filterMap showClose, (co.filter (· == CloseOut.transport)).length)

def keyOf (bs : Bytes) : Option Key :=
  match bs with
  | [a, b, c, d] => some ⟨a, b, c, d⟩
  | _ => none

def optKey (t : String) : Option (Option Key) :=
  if t == "~" then some none
  else match fromHex t with
    | some bs => (keyOf bs).map some
    | none => none

def frameOf (t : String) : Option RFrame :=
  match t.splitOn ":" with
  | ["f", fin, op, k, p] =>
    match fin.toNat?, op.toNat?, optKey k, fromHex p with
    | some fin, some op, some k, some p =>
      if fin ≤ 1 ∧ op < 16 then some ⟨fin == 1, op, k, p⟩ else none
    | _, _, _, _ => none
  | _ => none

/-- an observation token of the implementation -> `Out` (written frames are decoded by the
    RFC decoder and must be exactly one pong, masked iff the endpoint is a client) -/
def obsOf (client : Bool) (t : String) : Option (Option Out) :=
  match t.splitOn ":" with
  | ["mt", h] => (fromHex h).map (fun p => some (Out.message true p))
  | ["mb", h] => (fromHex h).map (fun p => some (Out.message false p))
  | ["c"] => some (some Out.closeEvt)
  | ["w", h] =>
    match fromHex h with
    | some w =>
      match rfcDecodeFrames w with
      | some [f] =>
        if f.fin && f.opcode == 10 && (f.key.isSome == client) then some (some (Out.pong f.payload))
        else some none
      | _ => some none
    | none => none
  | _ => none

def isPong : Out → Bool
  | Out.pong _ => true
  | _ => false

def splitBarW (ts : List String) : List String × List String :=
  (ts.takeWhile (· ≠ "|"), (ts.dropWhile (· ≠ "|")).drop 1)

def modeOf : String → Option Bool
  | "c" => some true
  | "s" => some false
  | _ => none

def wsStep (s : WsSt) : List String → WsSt × String
  | ["mode", "client"] => ({ s with client := true }, "ok")
  | ["mode", "server"] => ({ s with client := false }, "ok")
  | ["keys", h] =>
    match fromHex h with
    | some bs =>
      if bs.length % 4 == 0 then ({ s with keys := chunk4 bs.length bs, kpos := 0 }, "ok")
      else (s, "bad-op")
    | none => (s, "bad-op")
  | ["feed", h] =>
    match fromHex h with
    | some d =>
      let (st1, outs) := feed s.st d
      let s1 := { s with st := st1 }
      let (s2, pw) := renderPongs s1 outs
      let nc := (outs.filter (· == Out.closeEvt)).length
      -- the close event the codec fires on its own channel is handled by its `_on_close`
      let (s3, cw, x) := if nc > 0 then doClose s2 else (s2, [], 0)
      (s3, answer (outs.filterMap showMsg) (pw ++ cw) nc x)
    | none => (s, "bad-op")
  | ["write", k, h] =>
    match (if k == "t" then some true else if k == "b" then some false else none), fromHex h with
    | some text, some d =>
      if s.st.closeSent then (s, answer [] [] 0 0)
      else
        let (key, s1) := if s.client then s.nextKey else ([], s)
        match onWrite s.st s.client text d key with
        | some fr => (s1, answer [] [s!"w:{toHex fr}"] 0 0)
        | none => (s, answer [] [] 0 0)
    | _, _ => (s, "bad-op")
  | ["close"] =>
    let (s1, cw, x) := doClose s
    (s1, answer [] cw 0 x)
  | ["param", name, v] =>
    match v.toNat? with
    | some v =>
      let want : Option Nat := match name with
        | "thr7" => some thr7
        | "thr16" => some thr16
        | "opText" => some opText
        | "opBinary" => some opBinary
        | "opClose" => some opClose
        | "opPing" => some opPing
        | "opPong" => some opPong
        | _ => none
      match want with
      | some w => (s, if w == v then "ok" else s!"fail model={w} code={v}")
      | none => (s, "bad-op")
    | none => (s, "bad-op")
  | ["spec-write", m, k, kind, p, w] =>
    match modeOf m, (fromHex k).bind keyOf, fromHex p, fromHex w with
    | some client, some key, some p, some w =>
      if kind == "t" ∨ kind == "b" then
        (s, if specWrite client key (kind == "t") p w then "ok" else "fail written-frame")
      else (s, "bad-op")
    | _, _, _, _ => (s, "bad-op")
  | "spec-read" :: m :: cs :: stream :: rest =>
    let (fts, ots) := splitBarW rest
    match modeOf m, fromHex stream, fts.mapM frameOf, ots.mapM (obsOf (m == "c")) with
    | some _, some stream, some fs, some obs =>
      if cs ≠ "0" ∧ cs ≠ "1" ∧ cs ≠ "m" then (s, "bad-op")
      else if rfcEncodeFrames fs != stream then (s, "fail peer-encoding")
      else if !(conforming none fs) then (s, "fail peer-not-conforming")
      else if obs.any (·.isNone) then (s, "fail pong-frame")
      else
        let outs := obs.filterMap id
        -- messages/close and written pongs are observed on two different channels: the
        -- two sequences are compared separately
        let e := expected (cs == "1") none fs
        if outs.filter (!isPong ·) != e.filter (!isPong ·) then (s, "fail messages")
        else if cs == "m" then
          (s, if (outs.filter isPong).isSublist (e.filter isPong) then "ok" else "fail pongs")
        else (s, if outs.filter isPong == e.filter isPong then "ok" else "fail pongs")
    | _, _, _, _ => (s, "bad-op")
  | _ => (s, "bad-op")

def wsMachine : Machine := ⟨WsSt, {}, wsStep⟩

end CV.Drv

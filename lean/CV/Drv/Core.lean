import CV.Drv.Util
import CV.Model.Core.Machine
import CV.Model.Core.LogSpec
/-
Line protocol for the core machine (model name `core`).

setup:   tmpl <i> <name> <flags|-> <succChans|~> <complChans|~>
         prog <i> <act> ; <act> ; …
         handler <hid> <owner> <names|-> <chan|~> <prio> <progIdx>      (declared, not installed)
         comp <cid> <chan> <builtin hid>                               (BaseComponent.__init__)
         install <hid>                                                 (addHandler during __init__)
         timer <tid> <interval> <persist 0|1> <tmpl> <target|~> <comp> <parent>
         setexec <c> <0|1>    timeoutticks <n>    fuel <n>
         tape <entry tokens>                                           (append to the choice tape)
ops:     do <c> <act>      tick <c>      flush <c>      run <c>      adv <d>
         -> `ok | <entry> | <entry> …`  or  `exn <kind> | <entries>`
query:   tree      values      residue
tokens:  chan  `*` | `n<k>` | `i<c>`;  name `<base>` or `<base>:<s>,<s>`;  list `a,b` (`-` empty)
-/
namespace CV.Drv.CM
open CV.Drv
open CV.Core

def parseChan (t : String) : Option Chan :=
  if t == "*" then some .star
  else match t.toList with
    | 'n' :: r => (String.ofList r).toNat?.map .named
    | 'i' :: r => (String.ofList r).toNat?.map .inst
    | _ => none

def parseOptChan (t : String) : Option (Option Chan) :=
  if t == "~" then some none else (parseChan t).map some

def parseChans (t : String) : Option (List Chan) :=
  if t == "-" then some [] else (t.splitOn ",").mapM parseChan

def parseOptChans (t : String) : Option (Option (List Chan)) :=
  if t == "~" then some none else (parseChans t).map some

def parseName (t : String) : Option Name :=
  match t.splitOn ":" with
  | [b] => b.toNat?.map (fun b => ⟨b, []⟩)
  | [b, s] => do
    let b ← b.toNat?
    let s ← (s.splitOn ",").mapM (·.toNat?)
    pure ⟨b, s⟩
  | _ => none

def parseNames (t : String) : Option (List Name) :=
  if t == "-" then some [] else (t.splitOn "|").mapM parseName

def parseInt (t : String) : Option Int := t.toInt?

def parseOptNat (t : String) : Option (Option Nat) :=
  if t == "~" then some none else t.toNat?.map some

def parseBool (t : String) : Option Bool :=
  if t == "1" then some true else if t == "0" then some false else none

def parseAct : List String → Option Act
  | ["fire", t, tg, p, c] => do
    pure (.fire (← t.toNat?) (← parseOptChan tg) (← parseInt p) (← parseBool c))
  | ["stopEv"] => some .stopEv
  | ["ret", v] => v.toNat?.map .ret
  | ["raise"] => some .raise
  | ["yld", v] => (parseOptNat v).map .yld
  | ["call", t, tg, to, c] => do
    pure (.call (← t.toNat?) (← parseOptChan tg) (← parseOptNat to) (← parseBool c))
  | ["wait", n, tg, to, c] => do
    pure (.wait (← parseName n) (← parseOptChan tg) (← parseOptNat to) (← parseBool c))
  | ["addH", h] => h.toNat?.map .addH
  | ["rmH", h, n] => do
    let n ← if n == "~" then some none else (parseName n).map some
    pure (.rmH (← h.toNat?) n)
  | ["reg", c, p] => do pure (.reg (← c.toNat?) (← p.toNat?))
  | ["unreg", c] => c.toNat?.map .unreg
  | ["flush"] => some .flush
  | ["stopMgr", c, code] => do pure (.stopMgr (← c.toNat?) (← parseOptNat code))
  | ["sysExit", code] => (parseOptNat code).map .sysExit
  | ["kbdInt"] => some .kbdInt
  | ["timerNew", t] => t.toNat?.map .timerNew
  | ["timerReset", t] => t.toNat?.map .timerReset
  | _ => none

/-- split a token list at ";" -/
def splitSemi : List String → List (List String)
  | [] => [[]]
  | t :: rest =>
    match splitSemi rest with
    | [] => [[t]]
    | cur :: more => if t == ";" then [] :: cur :: more else (t :: cur) :: more

def parseProg (ts : List String) : Option Prog :=
  ((splitSemi ts).filter (· ≠ [])).mapM parseAct

def showChan : Chan → String
  | .star => "*"
  | .named n => s!"n{n}"
  | .inst c => s!"i{c}"

def showChans (cs : List Chan) : String :=
  if cs.isEmpty then "-" else ",".intercalate (cs.map showChan)

def showName (n : Name) : String :=
  if n.sfx.isEmpty then toString n.base else s!"{n.base}:{",".intercalate (n.sfx.map toString)}"

def showVItem : VItem → String
  | .val n => toString n
  | .err => "E"

def showView : Collapsed → String
  | .unset => "U"
  | .single x => s!"S{showVItem x}"
  | .many xs => s!"L{",".intercalate (xs.map showVItem)}"

def showEntry : Entry → String
  | .fire e n cs p => s!"F {e} {showName n} {showChans cs} {p}"
  | .disp e => s!"D {e}"
  | .inv e h s => s!"I {e} {h} {s}"
  | .task e g => s!"P {e} {g}"
  | .resumed e h src v er => s!"R {e} {h} {src} {showView v} {if er then 1 else 0}"
  | .timeout e h c => s!"T {e} {h} {if c then 1 else 0}"
  | .idle d => s!"W {d}"
  | .batch n => s!"B {n}"
  | .exit e h => s!"O {e} {h}"
  | .hinv e k o => s!"H {e} {k} {o}"

def parseVItem (t : String) : Option VItem :=
  if t == "E" then some .err else t.toNat?.map .val

def parseView (t : String) : Option Collapsed :=
  match t.toList with
  | ['U'] => some .unset
  | 'S' :: r => (parseVItem (String.ofList r)).map .single
  | 'L' :: r => ((String.ofList r).splitOn ",").mapM parseVItem |>.map .many
  | _ => none

def parseEntry : List String → Option Entry
  | ["F", e, n, cs, p] => do pure (.fire (← e.toNat?) (← parseName n) (← parseChans cs) (← parseInt p))
  | ["D", e] => e.toNat?.map .disp
  | ["I", e, h, s] => do pure (.inv (← e.toNat?) (← h.toNat?) (← s.toNat?))
  | ["P", e, g] => do pure (.task (← e.toNat?) (← g.toNat?))
  | ["R", e, h, src, v, er] => do
    pure (.resumed (← e.toNat?) (← h.toNat?) (← src.toNat?) (← parseView v) (← parseBool er))
  | ["T", e, h, c] => do pure (.timeout (← e.toNat?) (← h.toNat?) (← parseBool c))
  | ["W", d] => (parseInt d).map .idle
  | ["B", n] => n.toNat?.map .batch
  | ["O", e, h] => do pure (.exit (← e.toNat?) (← h.toNat?))
  | ["H", e, k, o] => do pure (.hinv (← e.toNat?) (← k.toNat?) (← o.toNat?))
  | _ => none

structure CoreSt where
  st : St := {}
  tape0 : List Entry := []   -- the complete implementation log as received (for the spec ops)
  fuel : Nat := 20000
  shown : Nat := 0          -- number of log entries already reported

def showExn : Exn → String
  | .sysExit code => s!"sysexit {match code with | some n => toString n | none => "~"}"
  | .fuel => "fuel"
  | .blocked => "blocked"
  | .unregistrable => "unregistrable"
  | .apiRaised => "raised"
  | .inadmissible => "inadmissible"

/-- run a machine action and report the new log entries -/
def runM (cs : CoreSt) (m : M Unit) : CoreSt × String :=
  let (res, st') := (m.run).run cs.st
  let newEntries := (st'.log.take (st'.log.length - cs.shown)).reverse
  let txt := " | ".intercalate (newEntries.map showEntry)
  let head := match res with
    | .ok _ => "ok"
    | .error ex => s!"exn {showExn ex}"
  ({ cs with st := st', shown := st'.log.length }, s!"{head} | {txt}")

def flagsOf (t : String) (c : Char) : Bool := t.toList.contains c

def showTree (s : St) : String :=
  let rows := s.comps.zipIdx.map fun (c, i) =>
    let kids := (c.children.mergeSort (· ≤ ·)).map toString
    s!"{i}:{c.parent}:{c.root}:{",".intercalate kids}:{if c.pending then 1 else 0}:{c.eq.len}"
  " ".intercalate rows

def showValues (s : St) : String :=
  let rows := s.evs.zipIdx.map fun (e, i) =>
    s!"{i}:{showView e.val.view}:{if e.val.errors then 1 else 0}:{if e.val.result then 1 else 0}"
  " ".intercalate rows

/-- residue observables of C06: per component number of handler-table entries and tasks -/
def showResidue (s : St) : String :=
  let rows := s.comps.zipIdx.map fun (c, i) => s!"{i}:{c.htab.length}:{c.globals.length}:{c.tasks.length}"
  " ".intercalate rows

def coreStep (cs : CoreSt) : List String → CoreSt × String
  | ["tmpl", i, n, fl, sc, cc] =>
    match i.toNat?, parseName n, parseOptChans sc, parseOptChans cc with
    | some i, some n, some sc, some cc =>
      if i != cs.st.tmpls.length then (cs, "bad-op index") else
      let t : Tmpl := { name := n, success := flagsOf fl 's', failure := flagsOf fl 'f',
                        complete := flagsOf fl 'c', notify := flagsOf fl 'n',
                        successChans := sc, completeChans := cc }
      ({ cs with st := { cs.st with tmpls := cs.st.tmpls ++ [t] } }, "ok")
    | _, _, _, _ => (cs, "bad-op")
  | "prog" :: i :: rest =>
    match i.toNat?, parseProg rest with
    | some i, some p =>
      if i != cs.st.progs.length then (cs, "bad-op index") else
      ({ cs with st := { cs.st with progs := cs.st.progs ++ [p] } }, "ok")
    | _, _ => (cs, "bad-op")
  | ["handler", h, o, ns, ch, p, pr] =>
    match h.toNat?, o.toNat?, parseNames ns, parseOptChan ch, parseInt p, pr.toNat? with
    | some h, some o, some ns, some ch, some p, some pr =>
      if h != cs.st.hs.length then (cs, "bad-op index") else
      let hd : Handler := { owner := o, names := ns, chan := ch, prio := p, kind := .user pr }
      ({ cs with st := { cs.st with hs := cs.st.hs ++ [hd] } }, "ok")
    | _, _, _, _, _, _ => (cs, "bad-op")
  | ["comp", c, ch, bh] =>
    match c.toNat?, parseChan ch, bh.toNat? with
    | some c, some ch, some bh =>
      if c != cs.st.comps.length || bh != cs.st.hs.length then (cs, "bad-op index") else
      let comp : Comp := { parent := c, root := c, chan := ch }
      let hd : Handler := { owner := c, names := [Name.prepareUnregister.child sfxComplete],
                            chan := some (.inst c), kind := .prepUnregComplete }
      let st := { cs.st with comps := cs.st.comps ++ [comp], hs := cs.st.hs ++ [hd] }
      let (_, st) := ((addHandler bh).run).run st
      -- a fresh component is not dirty in a way that matters; keep what addHandler did
      ({ cs with st := st }, "ok")
    | _, _, _ => (cs, "bad-op")
  | ["install", h] =>
    match h.toNat? with
    | some h =>
      let (_, st) := ((addHandler h).run).run cs.st
      ({ cs with st := st }, "ok")
    | none => (cs, "bad-op")
  | ["timer", t, iv, pe, tm, tg, c, p] =>
    match t.toNat?, parseInt iv, parseBool pe, tm.toNat?, parseOptChan tg, c.toNat?, p.toNat? with
    | some t, some iv, some pe, some tm, some tg, some c, some p =>
      if t != cs.st.timers.length then (cs, "bad-op index") else
      let hid := cs.st.hs.length
      let hd : Handler := { owner := c, names := [Name.generateEvents], chan := none, kind := .timer t }
      let st := { cs.st with timers := cs.st.timers ++ [{ interval := iv, persist := pe, tmpl := tm,
                                                          target := tg, comp := c, parent := p }],
                             hs := cs.st.hs ++ [hd] }
      let (_, st) := ((addHandler hid).run).run st
      ({ cs with st := st }, s!"ok {hid}")
    | _, _, _, _, _, _, _ => (cs, "bad-op")
  | ["setexec", c, b] =>
    match c.toNat?, parseBool b with
    | some c, some b =>
      ({ cs with st := { cs.st with comps := cs.st.comps.modify c fun x => { x with executing := b } } }, "ok")
    | _, _ => (cs, "bad-op")
  | ["timeoutticks", n] =>
    match parseInt n with
    | some n => ({ cs with st := { cs.st with timeoutTicks := n } }, "ok")
    | none => (cs, "bad-op")
  | ["fuel", n] =>
    match n.toNat? with
    | some n => ({ cs with fuel := n }, "ok")
    | none => (cs, "bad-op")
  | "tape" :: rest =>
    match parseEntry rest with
    | some en => ({ cs with st := { cs.st with tape := cs.st.tape ++ [en] }, tape0 := cs.tape0 ++ [en] }, "ok")
    | none => (cs, "bad-op")
  | "do" :: c :: rest =>
    match c.toNat?, parseAct rest with
    | some c, some a =>
      runM cs (do
        match ← doAct cs.fuel ⟨c, none⟩ a with
        | some (.sysExit code) => stopMgr cs.fuel c code
        | some .kbdInt => stopMgr cs.fuel c none
        | some .raised => throw .apiRaised
        | _ => pure ())
    | _, _ => (cs, "bad-op")
  | ["tick", c] =>
    match c.toNat? with
    | some c => runM cs (tick cs.fuel c)
    | none => (cs, "bad-op")
  | ["flush", c] =>
    match c.toNat? with
    | some c => runM cs (flush cs.fuel c)
    | none => (cs, "bad-op")
  | ["run", c] =>
    match c.toNat? with
    | some c => runM cs (run cs.fuel c)
    | none => (cs, "bad-op")
  | ["adv", d] =>
    match parseInt d with
    | some d => ({ cs with st := { cs.st with clock := cs.st.clock + d } }, "ok")
    | none => (cs, "bad-op")
  -- spec predicates on the implementation log (tape0) and on the model log
  | ["spec", "passorder", which] =>
    let log := if which == "impl" then cs.tape0 else cs.st.log.reverse
    (cs, if passOrderOk log then "ok" else "fail pass-order")
  | ["spec", "handlerorder", which] =>
    let log := if which == "impl" then cs.tape0 else cs.st.log.reverse
    let prioOf := fun h => (cs.st.hs.getD h dfltHandler).prio
    (cs, if handlerOrderOk prioOf log then "ok" else "fail handler-order")
  | ["tree"] => (cs, showTree cs.st)
  | ["values"] => (cs, showValues cs.st)
  | ["residue"] => (cs, showResidue cs.st)
  | _ => (cs, "bad-op")

def coreMachine : Machine := ⟨CoreSt, {}, coreStep⟩

end CV.Drv.CM

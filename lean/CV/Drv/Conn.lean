import CV.Drv.Util
import CV.Drv.Poller
import CV.Model.ConnSpec
/-
Line protocol of the connection model (machine `conn`).

  kind select|poll|epoll                  fresh server model + fresh spec observer              -> ok
  acc o f 0|1                             accept() returned object o with number f; 1 = peer already gone
  wr o n                                  `write(sock, data)` event, n = len data
  cl o                                    `close(sock)` event
  hu o                                    `_disconnect(sock)` event (injected poller hang-up)
  po f:b … | r:o:R … | s:o:S …            one zero-timeout round; f:b as in machine `poller`;
                                          R = hex | eof | again | err : what recv on o answers if called
                                          S = k | again | fatal       : what send on o answers if called
        each answered by the observations of the op, in order:
        c:o  r:o:hex  d:o  e:o  R:o:R  S:o:n:S  X:o  T:o=flags,…        (or `bad-op`)
  ca                                      `close()` event without a socket (server-wide close; W11)
  st                                      `stopped` event reaches the server (W11)
        answered like the ops above
  spec <observations>                     feed the *implementation's* observations of one op to the spec
                                          observer                                              -> ok | fail <clause>
  cli reset | cli reset pipe (a Pipe() end: born connected) | cli co ok|refused|timeout|failed | cli un
  (prepare_unregister) | cli st (stopped) | cli cl | cli wr n | cli rd R | cli wt k|again|pipe|other | cli hu
                                          client model; answered by C D r:hex E U …             (or `-`)
  clispec C D …                           `connected`/`disconnected` alternate, starting with C  -> ok | fail <clause>
  clispec pipe D C D …                    the same for a Pipe() end (born connected): starting with D
-/
namespace CV.Drv
namespace C12
open CV.Conn

structure St where
  m : Conn.State := Conn.State.init .select
  σ : Conn.Spec := {}
  c : Conn.Client.State := {}

def showRecv : RecvOut → String
  | .data d => toHex d
  | .eof => "eof"
  | .again => "again"
  | .err => "err"

def showSend : SendOut → String
  | .acc k => toString k
  | .again => "again"
  | .fatal => "fatal"

def parseRecv (t : String) : Option RecvOut :=
  if t == "eof" then some .eof else if t == "again" then some .again else if t == "err" then some .err
  else (fromHex t).map .data

def parseSend (t : String) : Option SendOut :=
  if t == "again" then some .again else if t == "fatal" then some .fatal else t.toNat?.map .acc

def showRow (r : Poller.Obj × Nat) : String := s!"{r.1}={r.2}"

def showObs : Obs → String
  | .connect o => s!"c:{o}"
  | .read o d => s!"r:{o}:{toHex d}"
  | .disconnect o => s!"d:{o}"
  | .error o => s!"e:{o}"
  | .recvd o r => s!"R:{o}:{showRecv r}"
  | .sent o n r => s!"S:{o}:{n}:{showSend r}"
  | .sclosed o => s!"X:{o}"
  | .tab rows => "T:" ++ ",".intercalate (rows.map showRow)

def showObsList (l : List Obs) : String := if l.isEmpty then "-" else " ".intercalate (l.map showObs)

def parseRow (t : String) : Option (Poller.Obj × Nat) :=
  match t.splitOn "=" with
  | [o, fl] => do pure ((← o.toNat?), (← fl.toNat?))
  | _ => none

def parseObs (t : String) : Option Obs :=
  match t.splitOn ":" with
  | ["c", o] => do pure (.connect (← o.toNat?))
  | ["r", o, d] => do pure (.read (← o.toNat?) (← fromHex d))
  | ["d", o] => do pure (.disconnect (← o.toNat?))
  | ["e", o] => do pure (.error (← o.toNat?))
  | ["R", o, r] => do pure (.recvd (← o.toNat?) (← parseRecv r))
  | ["S", o, n, r] => do pure (.sent (← o.toNat?) (← n.toNat?) (← parseSend r))
  | ["X", o] => do pure (.sclosed (← o.toNat?))
  | ["T", rows] =>
    if rows == "" then some (.tab []) else do pure (.tab (← (rows.splitOn ",").mapM parseRow))
  | _ => none

/-- `r:o:R` / `s:o:S` tokens of a poll line -/
def parseTapes (ts : List String) : Option (List (Nat × RecvOut) × List (Nat × SendOut)) :=
  ts.foldr (fun t acc =>
    match acc, t.splitOn ":" with
    | some (rs, ss), ["r", o, r] =>
      match o.toNat?, parseRecv r with
      | some o, some r => some ((o, r) :: rs, ss)
      | _, _ => none
    | some (rs, ss), ["s", o, r] =>
      match o.toNat?, parseSend r with
      | some o, some r => some (rs, (o, r) :: ss)
      | _, _ => none
    | _, _ => none) (some ([], []))

def parseOp : List String → Option Op
  | ["acc", o, f, g] => do
    let g ← g.toNat?
    if g > 1 then none else pure (.accept (← o.toNat?) (← f.toNat?) (g == 1))
  | ["wr", o, n] => do pure (.write (← o.toNat?) (← n.toNat?))
  | ["cl", o] => do pure (.close (← o.toNat?))
  | ["hu", o] => do pure (.hangup (← o.toNat?))
  | "po" :: ts => do
    let (a, b) := splitBar' ts
    let (fs, rd) ← parseReady a
    let (rs, ss) ← parseTapes (b.filter (· ≠ "|"))
    pure (.poll fs (readyFn rd) (fun o => (rs.lookup o).getD .again) (fun o => (ss.lookup o).getD .again))
  | _ => none

def showCliEv : Client.Ev → String
  | .connected => "C"
  | .disconnected => "D"
  | .read d => s!"r:{toHex d}"
  | .error => "E"
  | .unreachable => "U"

def parseCliOp : List String → Option Client.Op
  | ["co", "ok"] => some (.connect .ok)
  | ["co", "refused"] => some (.connect .refused)
  | ["co", "timeout"] => some (.connect .timeout)
  | ["co", "failed"] => some (.connect .failed)
  | ["un"] => some .unregister
  | ["st"] => some .stopped
  | ["cl"] => some .close
  | ["wr", n] => n.toNat?.map .write
  | ["rd", r] => (parseRecv r).map .readable
  | ["wt", "again"] => some (.writable .again)
  | ["wt", "pipe"] => some (.writable .pipe)
  | ["wt", "other"] => some (.writable .other)
  | ["wt", k] => k.toNat?.map (fun k => .writable (.acc k))
  | ["hu"] => some .hangup
  | _ => none

def parseCliEv : String → Option Client.Ev
  | "C" => some .connected
  | "D" => some .disconnected
  | "E" => some .error
  | "U" => some .unreachable
  | t => match t.splitOn ":" with
    | ["r", d] => (fromHex d).map .read
    | _ => none

/-- evaluate one op's observations; the observer advances over all of them, the first failure is kept -/
def specGo (σ : Conn.Spec) (l : List Obs) (bad : Option String) : Conn.Spec × Option String :=
  match l with
  | [] => (σ, bad)
  | x :: rest => specGo (σ.advance x) rest (bad.orElse (fun _ => obsFail σ x))

def connStep (s : St) : List String → St × String
  | ["kind", k] =>
    match kindOf k with
    | some k => ({ s with m := Conn.State.init k, σ := {} }, "ok")
    | none => (s, "bad-op")
  | "spec" :: ts =>
    match ts.mapM parseObs with
    | some obs =>
      let (σ', bad) := specGo s.σ obs none
      ({ s with σ := σ' }, match bad with
                           | none => "ok"
                           | some c => s!"fail {c}")
    | none => (s, "bad-op")
  | ["cli", "reset"] => ({ s with c := {} }, "ok")
  | ["cli", "reset", "pipe"] => ({ s with c := Client.pipeInit }, "ok")
  | ["ca"] => let r := Conn.xstep s.m .closeAll; ({ s with m := r.1 }, showObsList r.2)
  | ["st"] => let r := Conn.xstep s.m .stop; ({ s with m := r.1 }, showObsList r.2)
  | "cli" :: ts =>
    match parseCliOp ts with
    | some op =>
      let r := Client.step s.c op
      ({ s with c := r.1 }, if r.2.isEmpty then "-" else " ".intercalate (r.2.map showCliEv))
    | none => (s, "bad-op")
  | "clispec" :: "pipe" :: ts =>
    match ts.mapM parseCliEv with
    | some evs => (s, if Client.alternates true evs then "ok" else "fail connected-disconnected-not-paired")
    | none => (s, "bad-op")
  | "clispec" :: ts =>
    match ts.mapM parseCliEv with
    | some evs => (s, if Client.alternates false evs then "ok" else "fail connected-disconnected-not-paired")
    | none => (s, "bad-op")
  | ts =>
    match parseOp ts with
    | some op =>
      if Conn.valid s.m op then
        let r := Conn.step s.m op
        ({ s with m := r.1 }, showObsList r.2)
      else (s, "bad-op")
    | none => (s, "bad-op")

def connMachine : Machine := ⟨St, {}, connStep⟩

end C12
end CV.Drv

import Std.Data.HashMap
import CV.Drv.Util
import CV.Model.NodeSpec
/-
Line protocol for the node model (C19).

JSON trees travel as prefix-notation tokens:
  N | T | F | #<hex of repr>:<nat or ->:<1 if == 0 else 0> | S<hex> | A<n> v1 … vn | O<n> S<k1> v1 … S<kn> vn
Events travel as the object {name,args,kwargs,success,failure,notify,channels,attrs}.
-/
namespace CV.Drv
open CV.Node

/-! tokens → J (fuel = number of tokens, so total) -/
mutual
def parseJ : Nat → List String → Option (J × List String)
  | 0, _ => none
  | _, [] => none
  | fuel + 1, t :: ts =>
    if t == "N" then some (.null, ts)
    else if t == "T" then some (.bool true, ts)
    else if t == "F" then some (.bool false, ts)
    else
      let body := (t.drop 1).toString
      match t.front with
      | 'S' => (strFromHex body).map (fun s => (.str s, ts))
      | '#' =>
        match body.splitOn ":" with
        | [r, n, z] =>
          match strFromHex r with
          | some r =>
            if n == "-" then some (.num r none (z == "1"), ts)
            else match n.toNat? with
              | some k => some (.num r (some k) (z == "1"), ts)
              | none => none
          | none => none
        | _ => none
      | 'A' =>
        match body.toNat? with
        | some n => (parseArr fuel n ts).map (fun r => (.arr r.1, r.2))
        | none => none
      | 'O' =>
        match body.toNat? with
        | some n => (parseObj fuel n ts).map (fun r => (.obj r.1, r.2))
        | none => none
      | _ => none
def parseArr : Nat → Nat → List String → Option (List J × List String)
  | 0, _, _ => none
  | _, 0, ts => some ([], ts)
  | fuel + 1, n + 1, ts =>
    match parseJ fuel ts with
    | some (x, ts') => (parseArr fuel n ts').map (fun r => (x :: r.1, r.2))
    | none => none
def parseObj : Nat → Nat → List String → Option (List (String × J) × List String)
  | 0, _, _ => none
  | _, 0, ts => some ([], ts)
  | fuel + 1, n + 1, ts =>
    match parseJ fuel ts with
    | some (.str k, ts') =>
      match parseJ fuel ts' with
      | some (v, ts'') => (parseObj fuel n ts'').map (fun r => ((k, v) :: r.1, r.2))
      | none => none
    | _ => none
end

def parseJAll (ts : List String) : Option J :=
  match parseJ (2 * ts.length + 2) ts with
  | some (j, []) => some j
  | _ => none

mutual
def showJ : J → String
  | .null => "N"
  | .bool true => "T"
  | .bool false => "F"
  | .num r n z => s!"#{strToHex r}:{match n with | some k => toString k | none => "-"}:{if z then "1" else "0"}"
  | .str s => "S" ++ strToHex s
  | .arr xs => s!"A{xs.length}" ++ showArr xs
  | .obj kvs => s!"O{kvs.length}" ++ showObj kvs
def showArr : List J → String
  | [] => ""
  | x :: xs => " " ++ showJ x ++ showArr xs
def showObj : List (String × J) → String
  | [] => ""
  | (k, v) :: r => " S" ++ strToHex k ++ " " ++ showJ v ++ showObj r
end

def evToJ (e : Ev) : J :=
  .obj [("name", .str e.name), ("args", .arr e.args), ("kwargs", .obj e.kwargs),
        ("success", .bool e.success), ("failure", .bool e.failure), ("notify", .bool e.notify),
        ("channels", .arr e.channels), ("attrs", .obj e.attrs)]

def evOfJ : J → Option Ev
  | .obj f =>
    match J.lookup "name" f, J.lookup "args" f, J.lookup "kwargs" f, J.lookup "success" f,
          J.lookup "failure" f, J.lookup "notify" f, J.lookup "channels" f, J.lookup "attrs" f with
    | some (.str n), some (.arr a), some (.obj k), some (.bool s), some (.bool fl), some (.bool no),
      some (.arr c), some (.obj ats) => some ⟨n, a, k, s, fl, no, c, ats⟩
    | _, _, _, _, _, _, _, _ => none
  | _ => none

/-- where a firewall rule looks: positional argument, keyword argument, instance attribute -/
inductive Sel where
  | arg (i : Nat)
  | kw (k : String)
  | attr (k : String)

def Sel.get (s : Sel) (e : Ev) : Option J :=
  match s with
  | .arg i => e.args[i]?
  | .kw k => J.lookup k e.kwargs
  | .attr k => J.lookup k e.attrs

/-- verdicts that depend on more than name and channels (every rule must allow) -/
inductive Rule where
  | le (s : Sel) (n : Nat)            -- allowed iff the value is a natural number ≤ n
  | eq (s : Sel) (v : String)         -- allowed iff the value is the string v
  | notIn (s : Sel) (ns : List Nat)   -- rejected iff the value is a natural number in ns

def Rule.ok (r : Rule) (e : Ev) : Bool :=
  match r with
  | .le s n => match s.get e with | some (.num _ (some k) _) => decide (k ≤ n) | _ => false
  | .eq s v => match s.get e with | some (.str x) => x == v | _ => false
  | .notIn s ns => match s.get e with | some (.num _ (some k) _) => !ns.contains k | _ => true

/-- firewall family used by the harness: blocked names, blocked channel strings, rules on
    args / kwargs / attributes -/
structure Fw where
  names : List String := []
  chans : List String := []
  rules : List Rule := []

def Fw.ok (f : Fw) (e : Ev) : Bool :=
  !f.names.contains e.name &&
  !e.channels.any (fun c => match c with | .str s => f.chans.contains s | _ => false) &&
  f.rules.all (·.ok e)

/-- `a<i>` | `k<hex key>` | `t<hex attribute name>` -/
def parseSel (t : String) : Option Sel :=
  let body := (t.drop 1).toString
  match t.front with
  | 'a' => body.toNat?.map Sel.arg
  | 'k' => (strFromHex body).map Sel.kw
  | 't' => (strFromHex body).map Sel.attr
  | _ => none

/-- `le:<sel>:<n>` | `eq:<sel>:<hex>` | `ni:<sel>:<n,n,…>` (`-` = empty list) -/
def parseRule (t : String) : Option Rule :=
  match t.splitOn ":" with
  | ["le", s, n] =>
    match parseSel s, n.toNat? with
    | some s, some n => some (.le s n)
    | _, _ => none
  | ["eq", s, v] =>
    match parseSel s, strFromHex v with
    | some s, some v => some (.eq s v)
    | _, _ => none
  | ["ni", s, ns] =>
    match parseSel s, (if ns == "-" then some [] else natList (ns.splitOn ",")) with
    | some s, some ns => some (.notIn s ns)
    | _, _ => none
  | _ => none

structure NodeSt where
  excl : List String := []
  table : Std.HashMap Bytes PRes := {}
  protos : List (Nat × Proto × Fw × Fw) := []     -- id, state, send firewall, receive firewall

def NodeSt.parse (s : NodeSt) (p : Bytes) : PRes :=
  match s.table[p]? with
  | some r => r
  | none => .valueError

def NodeSt.get (s : NodeSt) (p : Nat) : Option (Proto × Fw × Fw) := s.protos.lookup p

def NodeSt.set (s : NodeSt) (p : Nat) (v : Proto × Fw × Fw) : NodeSt :=
  { s with protos := (p, v) :: s.protos.filter (·.1 ≠ p) }

def cfgOf (s : NodeSt) (fs fr : Fw) : Cfg := ⟨s.excl, fs.ok, fr.ok⟩

def showEff : Eff → String
  | .fire e id => s!"fire {showJ id} {showJ (evToJ e)}"
  | .write p => s!"write {showJ p}"
  | .resolve n v er => s!"resolve {n} {showJ v} {showJ er}"

def showEffs (es : List Eff) : String :=
  if es.isEmpty then "nothing" else " ; ".intercalate (es.map showEff)

def hexStrs (ts : List String) : Option (List String) := ts.mapM strFromHex

def splitBar2 (ts : List String) : List String × List String :=
  (ts.takeWhile (· ≠ "|"), (ts.dropWhile (· ≠ "|")).drop 1)

def nodeStep (s : NodeSt) : List String → NodeSt × String
  | "excl" :: names =>
    match hexStrs names with
    | some ns => ({ s with excl := ns }, "ok")
    | none => (s, "bad-op")
  | "critical" :: names =>
    match hexStrs names with
    | some ns =>
      let missing := ns.filter (fun n => !s.excl.contains n)
      (s, if criticalOk s.excl ns then "ok" else "fail " ++ " ".intercalate (missing.map strToHex))
    | none => (s, "bad-op")
  | ["know", piece, "V"] =>
    match fromHex piece with
    | some p => ({ s with table := s.table.insert p .valueError }, "ok")
    | none => (s, "bad-op")
  | ["know", piece, "R"] =>
    match fromHex piece with
    | some p => ({ s with table := s.table.insert p .raised }, "ok")
    | none => (s, "bad-op")
  | "know" :: piece :: "J" :: js =>
    match fromHex piece, parseJAll js with
    | some p, some j => ({ s with table := s.table.insert p (.parsed j) }, "ok")
    | _, _ => (s, "bad-op")
  | "new" :: p :: rest =>
    -- new <p> <send names…> | <send chans…> | <recv names…> | <recv chans…> [| <send rules…> | <recv rules…>]
    let (sn, r1) := splitBar2 rest
    let (sc, r2) := splitBar2 r1
    let (rn, r3) := splitBar2 r2
    let (rc, r4) := splitBar2 r3
    let (sr, rr) := splitBar2 r4
    match p.toNat?, hexStrs sn, hexStrs sc, hexStrs rn, hexStrs rc, sr.mapM parseRule, rr.mapM parseRule with
    | some p, some sn, some sc, some rn, some rc, some sr, some rr =>
      (s.set p ({}, ⟨sn, sc, sr⟩, ⟨rn, rc, rr⟩), "ok")
    | _, _, _, _, _, _, _ => (s, "bad-op")
  | "send" :: p :: nores :: js =>
    match p.toNat?, (parseJAll js).bind evOfJ with
    | some p, some e =>
      match s.get p with
      | some (st, fs, fr) =>
        let (st', effs) := send (cfgOf s fs fr) st e (nores == "1")
        (s.set p (st', fs, fr), showEffs effs)
      | none => (s, "bad-op")
    | _, _ => (s, "bad-op")
  | ["read", p, d] =>
    match p.toNat?, fromHex d with
    | some p, some d =>
      match s.get p with
      | some (st, fs, fr) =>
        let sp := splitD (st.buf ++ d)
        match (sp.1 ++ [sp.2]).find? (fun x => !s.table.contains x) with
        | some x => (s, "need " ++ toHex x)
        | none =>
          let (st', effs, ab) := recv (cfgOf s fs fr) s.parse st d
          (s.set p (st', fs, fr), showEffs effs ++ (if ab then " ; aborted" else ""))
      | none => (s, "bad-op")
    | _, _ => (s, "bad-op")
  | ["poll", p, id] =>
    match p.toNat?, id.toNat? with
    | some p, some id =>
      match s.get p with
      | some (st, _, _) =>
        match poll st id with
        | none => (s, "none")
        | some pe =>
          if pe.finished then
            (s, s!"done {showJ (.arr pe.values)} {showJ pe.errors} {showJ (.obj pe.metas)}")
          else (s, "waiting")
      | none => (s, "bad-op")
    | _, _ => (s, "bad-op")
  | ["finish", p, id] =>
    match p.toNat?, id.toNat? with
    | some p, some id =>
      match s.get p with
      | some (st, fs, fr) => (s.set p (finish st id, fs, fr), "ok")
      | none => (s, "bad-op")
    | _, _ => (s, "bad-op")
  | "result" :: js =>
    -- result <id J> <value J> <attrs obj J>   (as one array of three)
    match parseJAll js with
    | some (.arr [id, v, .obj ats]) =>
      (s, showEff (sendResult ⟨s.excl, fun _ => true, fun _ => true⟩ id v ats))
    | _ => (s, "bad-op")
  | "loadevent" :: js =>
    match parseJAll js with
    | some j =>
      match loadEvent s.excl j with
      | .drop => (s, "drop")
      | .raised => (s, "raised")
      | .ok (e, id) => (s, s!"ok {showJ id} {showJ (evToJ e)}")
    | none => (s, "bad-op")
  | "dumpevent" :: js =>
    match parseJAll js with
    | some (.arr [ev, id]) =>
      match evOfJ ev with
      | some e => (s, showJ (dumpEvent s.excl e id))
      | none => (s, "bad-op")
    | _ => (s, "bad-op")
  | ["esc", d] =>
    match fromHex d with
    | some d => (s, toHex (escTilde d))
    | none => (s, "bad-op")
  | ["split", d] =>
    match fromHex d with
    | some d => let r := splitD d; (s, " ".intercalate ((r.1 ++ [r.2]).map toHex))
    | none => (s, "bad-op")
  -- spec predicates on implementation observations
  | ["spec-wire", d] =>
    match fromHex d with
    | some d => (s, if wireOk d then "ok" else "fail delimiter-in-packet")
    | none => (s, "bad-op")
  | "spec-once" :: rest =>
    let (a, b) := splitBar2 rest
    match natList a, natList b with
    | some sent, some got => (s, if onceOk sent got then "ok" else "fail not-exactly-once")
    | _, _ => (s, "bad-op")
  | "spec-same" :: js =>
    match parseJAll js with
    | some (.arr [a, b]) =>
      match evOfJ a, evOfJ b with
      | some a, some b =>
        match sameEvent a b with
        | none => (s, "ok")
        | some fld => (s, "fail " ++ fld)
      | _, _ => (s, "bad-op")
    | _ => (s, "bad-op")
  | _ => (s, "bad-op")

def nodeMachine : Machine := ⟨NodeSt, {}, nodeStep⟩

end CV.Drv

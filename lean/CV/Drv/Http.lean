import CV.Drv.Util
import CV.Model.HttpSpec
/-
Line-protocol glue for the HTTP parser / read-path models (C13; reused by C14).
The lexers are tables filled by the harness from the implementation's own leaf functions
(`lex1`, `lexh`, `lexc`, `lexp` lines); a string that is not in a table lexes as invalid /
not-ok, which shows up as a disagreement, never as a silent default.
-/
namespace CV.Drv.H13
open CV.Http CV.Drv

structure HttpSt where
  l1 : List ((Nat × Bytes) × Option FirstLine) := []
  lh : List (Bytes × Option HdrInfo) := []
  lc : List (Bytes × Option Nat) := []
  lp : List ((Bytes × Option Bytes) × Bool) := []
  p : PState := init .request
  t : Tables := {}
  cp : PState := init .response

def kindNum : Kind → Nat
  | .request => 0
  | .response => 1

def kindOf : String → Option Kind
  | "0" => some .request
  | "1" => some .response
  | _ => none

def lexOf (s : HttpSt) : Lex where
  first k line := (s.l1.lookup (kindNum k, line)).join
  hdrs block := (s.lh.lookup block).join
  chunk line := (s.lc.lookup line).join
  pathOk fl hb := (s.lp.lookup (fl, hb)).getD false

def optHex : String → Option (Option Bytes)
  | "~" => some none
  | t => (fromHex t).map some

def showOptHex : Option Bytes → String
  | none => "~"
  | some b => toHex b

def optNat : String → Option (Option Nat)
  | "-" => some none
  | t => t.toNat?.map some

def showOptNat : Option Nat → String
  | none => "-"
  | some n => toString n

def bit (b : Bool) : String := if b then "1" else "0"

def bitOf : String → Option Bool
  | "0" => some false
  | "1" => some true
  | _ => none

def clenOf : String → Option Clen
  | "absent" => some .absent
  | "bad" => some .bad
  | t => t.toInt?.map .val

def showState (p : PState) : String :=
  let c := p.core
  s!"hc={bit c.hdrDone} mb={bit c.msgBegin} mc={bit c.complete} errno={showOptNat c.errno} exn={bit c.exn} " ++
  s!"chunked={bit c.chunked} clen={match c.clen with | some n => toString n | none => "-"} " ++
  s!"fl={showOptHex c.firstLine} hb={showOptHex c.hdrBlock} body={toHex c.body} over={bit c.over} buf={toHex p.buf}"

def showOut : Out → String
  | .wait => "wait"
  | .closeSsl => "closessl"
  | .err400 => "err400"
  | .err505 => "err505"
  | .err400NoHost => "err400nohost"
  | .redirect301 => "redirect301"
  | .exn500 => "exn500"
  | .request fl hb body => s!"request {toHex fl} {showOptHex hb} {toHex body}"

def showTables (t : Tables) : String := s!"{t.buffers.length} {t.clients.length}"

def httpStep (s : HttpSt) : List String → HttpSt × String
  | "lex1" :: k :: line :: rest =>
    match kindOf k, fromHex line with
    | some k, some line =>
      match rest with
      | ["bad"] => ({ s with l1 := ((kindNum k, line), none) :: s.l1 }, "ok")
      | [ma, mi, st] =>
        match ma.toNat?, mi.toNat?, optNat st with
        | some ma, some mi, some st => ({ s with l1 := ((kindNum k, line), some ⟨ma, mi, st⟩) :: s.l1 }, "ok")
        | _, _, _ => (s, "bad-op")
      | _ => (s, "bad-op")
    | _, _ => (s, "bad-op")
  | "lexh" :: block :: rest =>
    match fromHex block with
    | some block =>
      match rest with
      | ["bad"] => ({ s with lh := (block, none) :: s.lh }, "ok")
      | [cl, te, host, upg] =>
        match clenOf cl, bitOf te, bitOf host, bitOf upg with
        | some cl, some te, some host, some upg => ({ s with lh := (block, some ⟨cl, te, host, upg⟩) :: s.lh }, "ok")
        | _, _, _, _ => (s, "bad-op")
      | _ => (s, "bad-op")
    | none => (s, "bad-op")
  | ["lexc", line, v] =>
    match fromHex line with
    | some line =>
      if v == "bad" then ({ s with lc := (line, none) :: s.lc }, "ok")
      else match v.toNat? with
        | some n => ({ s with lc := (line, some n) :: s.lc }, "ok")
        | none => (s, "bad-op")
    | none => (s, "bad-op")
  | ["lexp", fl, hb, v] =>
    match fromHex fl, optHex hb, bitOf v with
    | some fl, some hb, some v => ({ s with lp := ((fl, hb), v) :: s.lp }, "ok")
    | _, _, _ => (s, "bad-op")
  | ["new", k] =>
    match kindOf k with
    | some k => ({ s with p := init k }, "ok")
    | none => (s, "bad-op")
  | ["exec", d] =>
    match fromHex d with
    | some d => let p := exec (lexOf s) s.p d; ({ s with p := p }, showState p)
    | none => (s, "bad-op")
  | ["sread", sec, sock, d] =>
    match bitOf sec, sock.toNat?, fromHex d with
    | some sec, some sock, some d =>
      let (t, o) := onRead (lexOf s) sec s.t sock d
      ({ s with t := t }, s!"{showOut o} | {showTables t}")
    | _, _, _ => (s, "bad-op")
  | ["responded", sock] =>
    match sock.toNat? with
    | some sock => let t := responded s.t sock; ({ s with t := t }, showTables t)
    | none => (s, "bad-op")
  | ["cnew"] => ({ s with cp := init .response }, "ok")
  | ["cread", d] =>
    match fromHex d with
    | some d =>
      let (p, o) := clientRead (lexOf s) s.cp d
      ({ s with cp := p }, match o with
        | none => "none"
        | some r => s!"resp {showOptHex r.firstLine} {showOptHex r.hdrBlock} {toHex r.body}")
    | none => (s, "bad-op")
  -- spec predicate on an observed reading: reading <kind> <msg> <fl> <hb|~> <body>
  | ["reading", k, msg, fl, hb, body] =>
    match kindOf k, fromHex msg, fromHex fl, optHex hb, fromHex body with
    | some k, some msg, some fl, some hb, some body =>
      (s, if isReading (lexOf s) k msg fl hb body then "ok" else "fail not-a-reading")
    | _, _, _, _, _ => (s, "bad-op")
  -- hypothesis of the theorems for this message: the one-piece run is clean, and its reading is a reading
  | ["clean", k, msg] =>
    match kindOf k, fromHex msg with
    | some k, some msg =>
      let p := exec (lexOf s) (init k) msg
      let c := p.core
      let why := if c.over then "over" else if c.errno.isSome then "errno" else if c.exn then "exn" else "ok"
      let rd := match c.firstLine with
        | some fl => isReading (lexOf s) k msg fl c.hdrBlock c.body
        | none => false
      (s, s!"{why} complete={bit c.complete} reading={bit rd}")
    | _, _ => (s, "bad-op")
  | ["rfcchunk", line] =>
    match fromHex line with
    | some line => (s, match rfcChunkSize line with | some n => toString n | none => "bad")
    | none => (s, "bad-op")
  | ["ssl", d] =>
    match fromHex d with
    | some d => (s, bit (sslHandshake d))
    | none => (s, "bad-op")
  | _ => (s, "bad-op")

end CV.Drv.H13

namespace CV.Drv

def httpMachine : Machine := ⟨H13.HttpSt, {}, H13.httpStep⟩

end CV.Drv

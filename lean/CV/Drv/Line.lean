import CV.Drv.Util
import CV.Model.LineSpec
namespace CV.Drv
open CV.Line

structure LineSt where
  buf : Bytes := []
  bufs : Bufs := []

def showLines (ls : List Bytes) : String := " ".intercalate (ls.map toHex)

/-- split token list at "|" -/
def splitBar (ts : List String) : List String × List String :=
  (ts.takeWhile (· ≠ "|"), (ts.dropWhile (· ≠ "|")).drop 1)

def lineStep (s : LineSt) : List String → LineSt × String
  | ["feed", d] =>
    match fromHex d with
    | some d =>
      let (b, ls) := feed s.buf d
      ({ s with buf := b }, s!"{toHex b} | {showLines ls}")
    | none => (s, "bad-op")
  | ["sfeed", k, d] =>
    match k.toNat?, fromHex d with
    | some k, some d =>
      let (bs, ls) := serverFeed s.bufs k d
      ({ s with bufs := bs }, s!"{toHex (getBuf bs k)} | {showLines (ls.map (·.2))}")
    | _, _ => (s, "bad-op")
  | ["split", d, b] =>
    match fromHex d, fromHex b with
    | some d, some b =>
      let (ls, r) := splitLines d b
      (s, s!"{toHex r} | {showLines ls}")
    | _, _ => (s, "bad-op")
  -- spec on implementation output: spec <stream> <tail> | <lines…>
  | "spec" :: st :: tl :: rest =>
    let (_, ls) := splitBar (st :: tl :: rest)
    match fromHex st, fromHex tl, ls.mapM fromHex with
    | some st, some tl, some ls => (s, if untaggedOk st ls tl then "ok" else "fail lines-exact")
    | _, _, _ => (s, "bad-op")
  | _ => (s, "bad-op")

def lineMachine : Machine := ⟨LineSt, {}, lineStep⟩

end CV.Drv

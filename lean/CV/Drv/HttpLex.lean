import CV.Drv.Util
import CV.Model.HttpLex
/-
Line-protocol glue for the concrete HTTP lexers (C13 / C14): machine `httplex`, stateless.

  clex1 <0|1> <line hex>  -> unsupported | invalid | req <method> <target> <maj> <min>
                                                   | resp <maj> <min> <code> <reason>
  clexh <block hex>       -> unsupported | invalid | ok <clen: absent|bad|int> <te> <host> <upgrade> <k> (<name> <value>){k}
  clexc <line hex>        -> unsupported | invalid | ok <n>
  ccls <n>                -> seven bits: isUSpace isASpace isIntSpace isDigit isWord isMethodCh hdrSpecial, then upperA lowerA
-/
namespace CV.Drv.HLex
open CV.Http CV.Drv

def bit (b : Bool) : String := if b then "1" else "0"

def showClen : Clen → String
  | .absent => "absent"
  | .bad => "bad"
  | .val n => toString n

def showFields (fs : List Field) : String :=
  " ".intercalate (toString fs.length :: fs.flatMap fun f => [toHex f.1, toHex f.2])

def step (s : Unit) : List String → Unit × String
  | ["clex1", k, line] =>
    match fromHex line with
    | some line =>
      if k == "0" then
        (s, match lexRequestLine line with
          | .unsupported => "unsupported"
          | .invalid => "invalid"
          | .ok r => s!"req {toHex r.method} {toHex r.target} {r.vmajor} {r.vminor}")
      else if k == "1" then
        (s, match lexStatusLine line with
          | .unsupported => "unsupported"
          | .invalid => "invalid"
          | .ok r => s!"resp {r.vmajor} {r.vminor} {r.code} {toHex r.reason}")
      else (s, "bad-op")
    | none => (s, "bad-op")
  | ["clexh", block] =>
    match fromHex block with
    | some block =>
      (s, match lexFieldList block with
        | .unsupported => "unsupported"
        | .invalid => "invalid"
        | .ok fs =>
          match infoOfFields fs with
          | .ok h => s!"ok {showClen h.clen} {bit h.te} {bit h.host} {bit h.upgrade} {showFields fs}"
          | _ => "unsupported")
    | none => (s, "bad-op")
  | ["clexc", line] =>
    match fromHex line with
    | some line =>
      (s, match lexChunk line with
        | .unsupported => "unsupported"
        | .invalid => "invalid"
        | .ok n => s!"ok {n}")
    | none => (s, "bad-op")
  | ["ccls", n] =>
    match n.toNat? with
    | some n =>
      if n < 256 then
        let b := UInt8.ofNat n
        (s, s!"{bit (isUSpace b)}{bit (isASpace b)}{bit (isIntSpace b)}{bit (isDigit b)}{bit (isWord b)}" ++
            s!"{bit (isMethodCh b)}{bit (hdrSpecial b)} {(upperA b).toNat} {(lowerA b).toNat}")
      else (s, "bad-op")
    | none => (s, "bad-op")
  | _ => (s, "bad-op")

end CV.Drv.HLex

namespace CV.Drv

def httplexMachine : Machine := ⟨Unit, (), HLex.step⟩

end CV.Drv

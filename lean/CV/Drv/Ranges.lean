import CV.Drv.Util
import CV.Drv.StaticPath
import CV.Model.Ranges
import CV.Model.RangesMultipart
import CV.Model.MultipartSpec
/- Driver glue for the `ranges` machine (C16): `file` sets the current entity, then `serve`
   (model answer) and `spec` (spec predicate on the implementation's observed answer). -/
namespace CV.Drv.RG
open CV.Drv
open CV.Drv.SP (spOpt spStr spShow)
open CV.Ranges
open CV.StaticPath (Str)

structure RgSt where
  file : Bytes := []
  md : Nat := 4300

def showPart (p : Part) : String := s!"{p.first} {p.last} {p.total} {toHex p.body}"

def showResp : Resp → String
  | .full c b => s!"full {c} {toHex b}"
  | .e416 none => "e416 ~"
  | .e416 (some n) => s!"e416 {n}"
  | .single c p => s!"single {c} {showPart p}"
  | .multi ps => "multi " ++ " ; ".intercalate (ps.map showPart)

def readPart : List String → Option Part
  | [a, b, t, body] =>
    match a.toNat?, b.toNat?, t.toNat?, fromHex body with
    | some a, some b, some t, some body => some ⟨a, b, t, body⟩
    | _, _, _, _ => none
  | _ => none

def splitSemi : List String → List (List String)
  | [] => [[]]
  | t :: r =>
    if t == ";" then [] :: splitSemi r
    else match splitSemi r with
      | [] => [[t]]
      | h :: tl => (t :: h) :: tl

def readResp : List String → Option Resp
  | ["full", c, b] =>
    match c.toNat?, fromHex b with
    | some c, some b => some (.full c b)
    | _, _ => none
  | ["e416", "~"] => some (.e416 none)
  | ["e416", n] => n.toNat?.map (fun n => .e416 (some n))
  | "single" :: c :: rest =>
    match c.toNat?, readPart rest with
    | some c, some p => some (.single c p)
    | _, _ => none
  | "multi" :: rest => ((splitSemi rest).mapM readPart).map .multi
  | _ => none

def showRR : RR → String
  | .none => "none"
  | .unsat => "unsat"
  | .ranges rs => "ranges " ++ " ".intercalate (rs.map (fun r => s!"{r.1}:{r.2}"))

def rgProto : String → Option Bool
  | "11" => some true
  | "10" => some false
  | _ => none

def readRange (t : String) : Option (Nat × Nat) :=
  match t.splitOn ":" with
  | [a, b] =>
    match a.toNat?, b.toNat? with
    | some a, some b => some (a, b)
    | _, _ => none
  | _ => none

def showChunks (cs : List Bytes) : String := "chunks " ++ " ".intercalate (cs.map toHex)

def showOptNat : Option Nat → String
  | none => "~"
  | some n => toString n

def showOptBytes : Option Bytes → String
  | none => "~"
  | some b => toHex b

def showMulti (w : MultiResp) : String :=
  s!"multi {w.status} {toHex w.contentType} {showOptNat w.contentLength} {showOptBytes w.contentRange} {toHex w.acceptRanges} | {showChunks w.chunks}"

def showRead (p : Option Bytes × Part) : String := s!"{showOptBytes p.1} {showPart p.2}"

def rangesStep (s : RgSt) : List String → RgSt × String
  | ["file", f] =>
    match fromHex f with
    | some f => ({ s with file := f }, "ok")
    | none => (s, "bad-op")
  | ["maxdigits", n] =>
    match n.toNat? with
    | some n => ({ s with md := n }, "ok")
    | none => (s, "bad-op")
  | ["getranges", hv, len] =>
    match spOpt hv, len.toNat? with
    | some hv, some len => (s, showRR (getRanges s.md hv len))
    | _, _ => (s, "bad-op")
  | ["serve", pr, hv] =>
    match rgProto pr, spOpt hv with
    | some pr, some hv => (s, showResp (serveRange s.md pr hv s.file))
    | _, _ => (s, "bad-op")
  | "spec" :: pr :: hv :: "|" :: obs =>
    match rgProto pr, spOpt hv, readResp obs with
    | some pr, some hv, some r => (s, if respOk s.md pr hv s.file r then "ok" else "fail range-exact")
    | _, _, _ => (s, "bad-op")
  | ["strip", x] =>
    match spStr x with
    | some x => (s, spShow (strip x))
    | none => (s, "bad-op")
  | ["rangeint", x] =>
    match spStr x with
    | some x => (s, match rangeInt s.md x with | some n => toString n | none => "none")
    | none => (s, "bad-op")
  | "mpchunks" :: ct :: bnd :: rs =>
    -- the chunks `file_ranges()` yields for an explicit list of ranges `a:b`
    match fromHex ct, fromHex bnd, rs.mapM readRange with
    | some ct, some bnd, some rs => (s, showChunks (multipartChunks s.file ct bnd rs))
    | _, _, _ => (s, "bad-op")
  | ["mpserve", pr, hv, ct, bnd] =>
    match rgProto pr, spOpt hv, fromHex ct, fromHex bnd with
    | some pr, some hv, some ct, some bnd =>
      (s, match serveMultipart s.md pr hv s.file ct bnd with
          | none => "notmulti"
          | some w => showMulti w)
    | _, _, _, _ => (s, "bad-op")
  | ["mpread", bnd, body] =>
    -- the RFC reader on a body the implementation sent
    match fromHex bnd, fromHex body with
    | some bnd, some body =>
      (s, match CV.Multipart.readByteranges bnd body with
          | none => "unreadable"
          | some ps => "parts " ++ " ; ".intercalate (ps.map showRead))
    | _, _ => (s, "bad-op")
  | ["mpspec", pr, hv, cth, body] =>
    -- spec on the wire: boundary from the Content-Type header, RFC reading of the body, `respOk`
    match rgProto pr, spOpt hv, fromHex cth, fromHex body with
    | some pr, some hv, some cth, some body =>
      (s, match CV.Multipart.boundaryOf cth with
          | none => "fail no-boundary"
          | some bnd =>
            match CV.Multipart.readByteranges bnd body with
            | none => "fail unreadable"
            | some ps => if respOk s.md pr hv s.file (.multi (ps.map (·.2))) then "ok" else "fail range-exact")
    | _, _, _, _ => (s, "bad-op")
  | ["cond", pr, goh, lastmod, ius, ims, hv] =>
    match rgProto pr, rgProto goh, spStr lastmod, spOpt ius, spOpt ims, spOpt hv with
    | some pr, some goh, some lm, some ius, some ims, some hv =>
      (s, match serveCond s.md pr goh lm ius ims hv s.file with
          | .s304 => "s304"
          | .s412 => "s412"
          | .ranged r => "ranged " ++ showResp r)
    | _, _, _, _, _, _ => (s, "bad-op")
  | ["bndok", b] =>
    -- decidable hypothesis of `C16.code_boundary_no_cr` on a boundary the live code made
    match fromHex b with
    | some b => (s, if b.all (fun c => c = 61 || CV.Multipart.isDigitB c) then "yes" else "no")
    | none => (s, "bad-op")
  | ["natdec", n] =>
    match n.toNat? with
    | some n => (s, toHex (natDec n))
    | none => (s, "bad-op")
  | _ => (s, "bad-op")

end CV.Drv.RG

namespace CV.Drv
def rangesMachine : Machine := ⟨RG.RgSt, {}, RG.rangesStep⟩
end CV.Drv

import CV.Drv.Util
import CV.Model.Session
import CV.Model.SessionCookie
/-
Line protocol of the C20 session model (`cvdriver session`).

  step <ip> <agent> <cookie|~> <uuid> <W(ip+agent)|~> get | put <k> <v> | expire
        -> <sid> | <k,v>*            (the model's step; W is the recorded sha1 of this request)
  rec  <ip> <agent> <cookie|~> <sid> get|put <k> <v>|expire | <k,v>*
        -> ok                        (an observed request of the implementation)
  spec  -> ok | fail <clause>        (the statement on the recorded implementation trace)
  stepj <name> <ip> <agent> <jar> <uuid> <W(ip+agent)|~> get | put <k> <v> | expire
        -> <sid> | <k,v>* | <jar>    (`stepJ`: Sessions(name) on a request whose parsed cookie jar is <jar> = n,v;n,v… | =;
                                      the last part is response.cookie afterwards, one Set-Cookie line per entry)
-/
namespace CV.Drv.C20
open CV.Drv CV.Session

structure SessSt where
  store : Store := []
  recs : List Rec := []

def sstr? (t : String) : Option Str := (strFromHex t).map String.toList
def soptStr? (t : String) : Option (Option Str) :=
  if t == "~" then some none else (sstr? t).map some
def sshow (s : Str) : String := strToHex (String.ofList s)

def spair? (t : String) : Option (Str × Str) :=
  match t.splitOn "," with
  | [a, b] => do
    let a ← sstr? a
    let b ← sstr? b
    pure (a, b)
  | _ => none

def sjar? (t : String) : Option Jar :=
  if t == "=" then some [] else (t.splitOn ";").mapM spair?

def sshowJar (j : Jar) : String :=
  if j.isEmpty then "=" else ";".intercalate (j.map (fun e => s!"{sshow e.1},{sshow e.2}"))

def act? : List String → Option Act
  | ["get"] => some .get
  | ["put", k, v] => do
    let k ← sstr? k
    let v ← sstr? v
    pure (.put k v)
  | ["expire"] => some .expire
  | _ => none

def splitBar' (ts : List String) : List String × List String :=
  (ts.takeWhile (· ≠ "|"), (ts.dropWhile (· ≠ "|")).drop 1)

def sessStep (s : SessSt) : List String → SessSt × String
  | "step" :: ip :: agent :: cookie :: u :: w :: act =>
    match sstr? ip, sstr? agent, soptStr? cookie, sstr? u, soptStr? w, act? act with
    | some ip, some agent, some cookie, some u, some w, some act =>
      match w with
      | none => (s, "w-miss")
      | some w =>
        -- W is only ever applied to this request's ip ++ agent
        let W : Str → Str := fun x => if x = ip ++ agent then w else '?' :: x
        let (st', o) := step W s.store ⟨⟨ip, agent, cookie⟩, u, act⟩
        ({ s with store := st' },
         s!"{sshow o.sid} | {" ".intercalate (o.contents.map (fun e => s!"{sshow e.key},{sshow e.val}"))}")
    | _, _, _, _, _, _ => (s, "bad-op")
  | "rec" :: ip :: agent :: cookie :: sid :: rest =>
    let (act, seen) := splitBar' rest
    match sstr? ip, sstr? agent, soptStr? cookie, sstr? sid, act? act, seen.mapM spair? with
    | some ip, some agent, some cookie, some sid, some act, some seen =>
      ({ s with recs := s.recs ++ [⟨ip, agent, cookie, sid, seen, act⟩] }, "ok")
    | _, _, _, _, _, _ => (s, "bad-op")
  | "stepj" :: name :: ip :: agent :: jar :: u :: w :: act =>
    match sstr? name, sstr? ip, sstr? agent, sjar? jar, sstr? u, soptStr? w, act? act with
    | some name, some ip, some agent, some jar, some u, some w, some act =>
      match w with
      | none => (s, "w-miss")
      | some w =>
        let W : Str → Str := fun x => if x = ip ++ agent then w else '?' :: x
        let (st', o) := stepJ W name s.store ⟨⟨ip, agent, jar⟩, u, act⟩
        ({ s with store := st' },
         s!"{sshow o.sid} | {" ".intercalate (o.contents.map (fun e => s!"{sshow e.key},{sshow e.val}"))} | {sshowJar o.setCookie}")
    | _, _, _, _, _, _, _ => (s, "bad-op")
  | ["spec"] =>
    match traceOk [] s.recs with
    | none => (s, "ok")
    | some e => (s, s!"fail {e}")
  | _ => (s, "bad-op")

def sessionMachine : Machine := ⟨SessSt, {}, sessStep⟩

end CV.Drv.C20

import CV.Drv.Util
import CV.Model.ValueTree
/-
Driver glue for the nested-Value layer of C04 (machine `valuetree`).  Ops (every answer ends with the full state):
  new <ntf> <ntf> <0|1>        Value(event with notify=<2nd>, manager or None), own notify=<1st>
  set <c> <arg>                c.value = arg          arg: N | l<n> | r<cell>
  errors <c> <0|1>   promise <c> <0|1>   notify <c> <ntf>      attribute writes      ntf: off | on | n<k>
  inform <c> <0|1>             c.inform(force)
  get <c> <0|1>                c.getValue(recursive) -> `val <stored>` | `loop`
Answer of the state ops: `ok <state>` | `crash` (RecursionError in update; the session ends there).
State: cells `value/result/errors/promise/parent` joined by `;`, then ` | ` and the notifications oldest first.
-/
namespace CV.Drv
open CV.VT

def vtArgStr : Arg → String
  | .none => "N"
  | .lit n => s!"l{n}"
  | .ref c => s!"r{c}"

def vtArgOf (t : String) : Option Arg :=
  if t == "N" then some .none
  else if t.startsWith "l" then (t.drop 1).toNat?.map .lit
  else if t.startsWith "r" then (t.drop 1).toNat?.map .ref
  else none

def vtNtfOf (t : String) : Option Ntf :=
  if t == "off" then some .off
  else if t == "on" then some .on
  else if t.startsWith "n" then (t.drop 1).toNat?.map .named
  else none

def vtStoredStr : Stored → String
  | .one a => "o:" ++ vtArgStr a
  | .many l => "m:" ++ ",".intercalate (l.map vtArgStr)

def vtB (b : Bool) : String := if b then "1" else "0"

def vtCellStr (x : Cell) : String :=
  s!"{vtStoredStr x.value}/{vtB x.result}/{vtB x.errors}/{vtB x.promise}/{x.parent}"

def vtNoteStr : Note → String
  | .changed c => s!"vc{c}"
  | .named k c => s!"n{k}:{c}"

def vtState (s : St) : String :=
  ";".intercalate ((List.range s.n).map (fun i => vtCellStr (s.cells i))) ++ " | " ++
  " ".intercalate (s.log.reverse.map vtNoteStr)

def vtAns (s : St) : St × String := if s.crashed then (s, "crash") else (s, "ok " ++ vtState s)

def vtBool : String → Option Bool | "1" => some true | "0" => some false | _ => none

def vtCellOk (s : St) (c : Nat) : Bool := c < s.n

def vtArgOk (s : St) : Arg → Bool
  | .ref d => d < s.n
  | _ => true

def vtStep (s : St) (ts : List String) : St × String :=
  if s.crashed then (s, "bad-op") else
  match ts with
  | ["new", a, b, m] =>
    match vtNtfOf a, vtNtfOf b, vtBool m with
    | some a, some b, some m => vtAns (newCell s a b m)
    | _, _, _ => (s, "bad-op")
  | ["set", c, a] =>
    match c.toNat?, vtArgOf a with
    | some c, some a => if vtCellOk s c && vtArgOk s a then vtAns (setValue s c a) else (s, "bad-op")
    | _, _ => (s, "bad-op")
  | ["errors", c, b] =>
    match c.toNat?, vtBool b with
    | some c, some b => if vtCellOk s c then vtAns (setErrors s c b) else (s, "bad-op")
    | _, _ => (s, "bad-op")
  | ["promise", c, b] =>
    match c.toNat?, vtBool b with
    | some c, some b => if vtCellOk s c then vtAns (setPromise s c b) else (s, "bad-op")
    | _, _ => (s, "bad-op")
  | ["notify", c, t] =>
    match c.toNat?, vtNtfOf t with
    | some c, some t => if vtCellOk s c then vtAns (setNotify s c t) else (s, "bad-op")
    | _, _ => (s, "bad-op")
  | ["inform", c, f] =>
    match c.toNat?, vtBool f with
    | some c, some f => if vtCellOk s c then vtAns (inform s c f) else (s, "bad-op")
    | _, _ => (s, "bad-op")
  | ["get", c, r] =>
    match c.toNat?, vtBool r with
    | some c, some r =>
      if vtCellOk s c then
        match getValue s c r with
        | some v => (s, "val " ++ vtStoredStr v)
        | none => (s, "loop")
      else (s, "bad-op")
    | _, _ => (s, "bad-op")
  | _ => (s, "bad-op")

def valuetreeMachine : Machine := { σ := St, init := {}, step := vtStep }

end CV.Drv

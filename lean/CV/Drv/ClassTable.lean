import CV.Drv.Util
import CV.Model.ClassTable
/-
cvdriver classtable : class statements -> MRO / effective handler table / delivered set.

  class <name> <base,base…> <chan|-> <member>…     ok <mro,…> | refused      (refused: statement not executed)
      member = <name>:p | <name>:n | <name>:d | <name>:h:<names '+'-joined|->:<prio>:<chan|->:<0|1 override>
  eff <cls>            ok <cls>.<meth>:<names|->:<prio>:<chan|->:<G|A|N> …     (G `_globals`, A `_handlers['*']`, N by name)
  chan <cls>           ok <channel of a fresh instance>
  tree <cls> <cls>@<parent index> …                ok      (instances 0,1,…; instance 0 is the root; `bad-op` also when
                                                           the tables of `newComponent` differ from `St.addHandler` calls)
  fire <event name> <*|=chan|@i>                   ok <i>:<cls>.<meth> …     (`collect` on the class-derived state)

Identifiers are tokens over [A-Za-z0-9_*]; anything else is `bad-op`.
-/
namespace CV.Drv.CT
open CV.ClassTable CV.Core

structure DSt where
  cs : Classes := []
  st : St := {}
  owners : List (Nat × HandlerRecord) := []   -- handler id -> (instance, record), ids in order

def okChar (c : Char) : Bool := c.isAlphanum || c == '_' || c == '*'

def ident (s : String) : Option Str :=
  if s.isEmpty || !s.toList.all okChar then none else some s.toList

def optIdent (s : String) : Option (Option Str) :=
  if s == "-" then some none else (ident s).map some

def identList (sep : Char) (s : String) : Option (List Str) :=
  if s == "-" then some [] else (s.split (· == sep)).toList.mapM (fun t => ident t.toString)

def parseMember (t : String) : Option Member :=
  match (t.split (· == ':')).toList.map (·.toString) with
  | [n, "p"] => (ident n).map (⟨·, .plain⟩)
  | [n, "n"] => (ident n).map (⟨·, .noHandler⟩)
  | [n, "d"] => (ident n).map (⟨·, .data⟩)
  | [n, "h", names, prio, chan, ov] =>
    match ident n, identList '+' names, prio.toInt?, optIdent chan, ov with
    | some n, some names, some p, some ch, "0" => some ⟨n, .handler { names := names, prio := p, chan := ch, override := false }⟩
    | some n, some names, some p, some ch, "1" => some ⟨n, .handler { names := names, prio := p, chan := ch, override := true }⟩
    | _, _, _, _, _ => none
  | _ => none

def str (s : Str) : String := String.ofList s

def showOpt (s : Option Str) : String := match s with | none => "-" | some s => str s

def showNames (ns : List Str) : String := if ns.isEmpty then "-" else "+".intercalate (ns.map str)

def showBucket (r : HandlerRecord) : String :=
  match buckets r with
  | [.globals] => "G"
  | [.catchAll] => "A"
  | _ => "N"

def showRec (r : HandlerRecord) : String :=
  s!"{str r.cls}.{str r.meth}:{showNames r.names}:{r.prio}:{showOpt r.chan}:{showBucket r}"

/-- injective coding of strings as naturals -/
def encStr (s : Str) : Nat := s.foldl (fun a ch => a * 1114112 + ch.toNat + 1) 0

def enc : Enc := { name := fun s => ⟨encStr s, []⟩, chan := encStr }

def parseInst (t : String) : Option (Str × Option Nat) :=
  match (t.split (· == '@')).toList.map (·.toString) with
  | [c] => (ident c).map (·, none)
  | [c, p] => match ident c, p.toNat? with
    | some c, some p => some (c, some p)
    | _, _ => none
  | _ => none

/-- `__init__` as the core machine does it: a new empty component, then `St.addHandler` (the model of
    `Manager.addHandler`) for every effective record -/
def viaAddHandler (cs : Classes) (c : Str) (s : St) : St :=
  let x := s.comps.length
  let recs := effectiveHandlers cs c
  let s1 : St := { s with hs := s.hs ++ recs.map (toHandler enc x),
                          comps := s.comps ++ [{ parent := x, root := x, chan := enc.toChan (instChannel cs c) }] }
  (List.range recs.length).foldl (fun st i => st.addHandler (s.hs.length + i)) s1

def sameSet {α} [BEq α] (a b : List α) : Bool := a.all b.contains && b.all a.contains

/-- `newComponent` (the tables the theorems speak about) and `viaAddHandler` agree on the new component -/
def tablesAgree (cs : Classes) (c : Str) (s : St) : Bool :=
  let a := (newComponent enc cs c s).comp s.comps.length
  let b := (viaAddHandler cs c s).comp s.comps.length
  sameSet a.htab b.htab && sameSet a.globals b.globals && a.chan == b.chan && (b.dirty || (effectiveHandlers cs c).isEmpty)
    && (newComponent enc cs c s).hs == (viaAddHandler cs c s).hs

def buildTree (cs : Classes) : List (Str × Option Nat) → DSt → Option DSt
  | [], d => some d
  | (c, p) :: rest, d =>
    let x := d.st.comps.length
    let base := d.st.hs.length
    let recs := effectiveHandlers cs c
    if (mro cs c).isEmpty || !tablesAgree cs c d.st then none else
    let st1 := newComponent enc cs c d.st
    let own := recs.map (x, ·)
    let _ := base
    match p with
    | none => if x == 0 then buildTree cs rest { d with st := st1, owners := d.owners ++ own } else none
    | some p => if p < x then buildTree cs rest { d with st := attach st1 x p, owners := d.owners ++ own } else none

def parseTarget (t : String) : Option Chan :=
  if t == "*" then some .star
  else if t.startsWith "=" then (ident (t.drop 1).toString).map enc.toChan
  else if t.startsWith "@" then (t.drop 1).toString.toNat?.map .inst
  else none

def ctStep (d : DSt) : List String → DSt × String
  | "class" :: name :: bases :: chan :: members =>
    match ident name, identList ',' bases, optIdent chan, members.mapM parseMember with
    | some n, some bs, some ch, some ms =>
      if !(ms.map (·.name)).Nodup then (d, "bad-op") else
      let decl : ClassDecl := { name := n, bases := bs, chan := ch, members := ms }
      match linearize d.cs with
      | none => (d, "bad-op")
      | some acc =>
        match mroFor acc decl with
        | none => (d, "refused")
        | some l => ({ d with cs := d.cs ++ [decl] }, "ok " ++ ",".intercalate (l.map str))
    | _, _, _, _ => (d, "bad-op")
  | ["eff", c] =>
    match ident c with
    | some c =>
      if (mro d.cs c).isEmpty then (d, "bad-op")
      else (d, " ".intercalate ("ok" :: (effectiveHandlers d.cs c).map showRec))
    | none => (d, "bad-op")
  | ["mro", c] =>
    match ident c with
    | some c => if (mro d.cs c).isEmpty then (d, "bad-op") else (d, "ok " ++ ",".intercalate ((mro d.cs c).map str))
    | none => (d, "bad-op")
  | ["chan", c] =>
    match ident c with
    | some c => if (mro d.cs c).isEmpty then (d, "bad-op") else (d, "ok " ++ str (instChannel d.cs c))
    | none => (d, "bad-op")
  | "tree" :: insts =>
    match insts.mapM parseInst with
    | some (i :: is) =>
      match buildTree d.cs (i :: is) { d with st := {}, owners := [] } with
      | some d' => (d', "ok")
      | none => (d, "bad-op")
    | _ => (d, "bad-op")
  | ["fire", name, target] =>
    match ident name, parseTarget target with
    | some n, some t =>
      if d.st.comps.isEmpty then (d, "bad-op") else
      let hs := collect d.st (d.st.comps.length + 1) 0 (enc.name n) t
      let shown := hs.map fun h => match d.owners[h]? with
        | some (x, r) => s!"{x}:{str r.cls}.{str r.meth}"
        | none => "?"
      (d, " ".intercalate ("ok" :: shown))
    | _, _ => (d, "bad-op")
  | _ => (d, "bad-op")

def classTableMachine : Machine := ⟨DSt, {}, ctStep⟩

end CV.Drv.CT

import CV.Drv.Util
import CV.Model.StreamSpec
/-
Line protocol of the stream model (C11; reused by C12).

  kind server|client|file          select the endpoint kind, reset the state           -> ok
  acts <dflt> <errno>:<rec> ...    errno table measured on the live code; rec = three
                                   0/1 digits requeue,error,close                     -> ok
  goodacts                         evaluate the theorems' hypothesis on the table     -> ok | fail
  w <hex>                          write event                                         -> events
  wp <len> <seed>                  write event with a generated payload                -> events
  c                                close event                                         -> events
  p a <k> | p r <errno>            _write event; send would accept k bytes / raise     -> events
  spec <ev> ...                    spec on implementation observations                 -> ok | fail <clause> | osbad

events (answers and `spec` arguments): w:<hex> | wp:<len>:<seed> | cr | a:<hex> (in answers
a:<len>:<adler32>) | r:<errno> | x | e | d | ! | b:0 | b:1
-/
namespace CV.Drv
open CV.Stream

/-- tail-recursive hex decoder (payloads may be megabytes long) -/
def fromHexTRGo : List Char → List UInt8 → Option Bytes
  | [], acc => some acc.reverse
  | [_], _ => none
  | a :: b :: rest, acc =>
    match hexVal a, hexVal b with
    | some x, some y => fromHexTRGo rest (UInt8.ofNat (x * 16 + y) :: acc)
    | _, _ => none

def fromHexTR (s : String) : Option Bytes :=
  if s == "-" then some [] else fromHexTRGo s.toList []

def adler32 (bs : Bytes) : Nat :=
  let (a, b) := bs.foldl (fun (ab : Nat × Nat) x =>
    let a := (ab.1 + x.toNat) % 65521
    (a, (ab.2 + a) % 65521)) (1, 0)
  b * 65536 + a

/-- generated payload: byte i is (seed + 31 i + i / 251) mod 256 -/
def patGo (seed : Nat) : Nat → List UInt8 → Bytes
  | 0, acc => acc
  | i + 1, acc => patGo seed i (UInt8.ofNat ((seed + 31 * i + i / 251) % 256) :: acc)

def pattern (len seed : Nat) : Bytes := patGo seed len []

structure StreamSt where
  st : State := init .server
  tbl : List (Nat × ErrAct) := []
  dflt : ErrAct := ⟨false, true, true⟩

def showEv : Ev → String
  | .wr _ => "w"
  | .closeReq => "cr"
  | .acc b => s!"a:{b.length}:{adler32 b}"
  | .refuse e => s!"r:{e}"
  | .sockClose => "x"
  | .evErr => "e"
  | .evDisc => "d"
  | .raised => "!"
  | .bd i => if i then "b:1" else "b:0"

def showEvs (evs : List Ev) : String := " ".intercalate (evs.map showEv)

def parseAct (s : String) : Option ErrAct :=
  match s.toList with
  | [a, b, c] =>
    let bit (ch : Char) : Option Bool := if ch == '1' then some true else if ch == '0' then some false else none
    do
      let a ← bit a
      let b ← bit b
      let c ← bit c
      pure ⟨a, b, c⟩
  | _ => none

def parseEntry (s : String) : Option (Nat × ErrAct) :=
  match s.splitOn ":" with
  | [e, r] => do
    let e ← e.toNat?
    let r ← parseAct r
    pure (e, r)
  | _ => none

def parseEv (s : String) : Option Ev :=
  match s.splitOn ":" with
  | ["w", h] => (fromHexTR h).map Ev.wr
  | ["wp", l, sd] => do
    let l ← l.toNat?
    let sd ← sd.toNat?
    pure (Ev.wr (pattern l sd))
  | ["cr"] => some .closeReq
  | ["a", h] => (fromHexTR h).map Ev.acc
  | ["r", e] => e.toNat?.map Ev.refuse
  | ["x"] => some .sockClose
  | ["e"] => some .evErr
  | ["d"] => some .evDisc
  | ["!"] => some .raised
  | ["b", "0"] => some (.bd false)
  | ["b", "1"] => some (.bd true)
  | _ => none

def doOp (s : StreamSt) (op : Op) : StreamSt × String :=
  let (st, evs) := step (tableAct s.tbl s.dflt) s.st op
  ({ s with st := st }, showEvs evs)

def streamStep (s : StreamSt) : List String → StreamSt × String
  | ["kind", k] =>
    match k with
    | "server" => ({ s with st := init .server }, "ok")
    | "client" => ({ s with st := init .client }, "ok")
    | "file" => ({ s with st := init .file }, "ok")
    | _ => (s, "bad-op")
  | "acts" :: d :: rest =>
    match parseAct d, rest.mapM parseEntry with
    | some d, some tbl => ({ s with tbl := tbl, dflt := d }, "ok")
    | _, _ => (s, "bad-op")
  | ["goodacts"] => (s, if goodTable s.tbl s.dflt then "ok" else "fail")
  | ["w", h] =>
    match fromHexTR h with
    | some p => doOp s (.write p)
    | none => (s, "bad-op")
  | ["wp", l, sd] =>
    match l.toNat?, sd.toNat? with
    | some l, some sd => doOp s (.write (pattern l sd))
    | _, _ => (s, "bad-op")
  | ["c"] => doOp s .close
  | ["p", "a", k] =>
    match k.toNat? with
    | some k => doOp s (.writable (.accept k))
    | none => (s, "bad-op")
  | ["p", "r", e] =>
    match e.toNat? with
    | some e => doOp s (.writable (.refuse e))
    | none => (s, "bad-op")
  | "spec" :: evs =>
    match evs.mapM parseEv with
    | some evs =>
      let σ := specRun {} evs
      (s, match σ.bad with
          | some c => s!"fail {c.name}"
          | none => if σ.osBad then "osbad" else "ok")
    | none => (s, "bad-op")
  | _ => (s, "bad-op")

def streamMachine : Machine := ⟨StreamSt, {}, streamStep⟩

end CV.Drv

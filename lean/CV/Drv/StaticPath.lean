import CV.Drv.Util
import CV.Model.StaticPath
import CV.Model.StaticListing
/- Driver glue for the `staticpath` machine (C16): configuration + file-system table, then
   one `serve` / `spec` line per request path; leaf ops validate the stdlib re-implementations. -/
namespace CV.Drv.SP
open CV.Drv
open CV.StaticPath
open CV.StaticListing

structure SPSt where
  cfg : Option Cfg := none
  tbl : List (Str × Kind) := []

def spShow (s : Str) : String := strToHex (String.ofList s)

def spStr (t : String) : Option Str := (strFromHex t).map (·.toList)

def spOpt (t : String) : Option (Option Str) :=
  if t == "~" then some none else (spStr t).map some

/-- the kernel ignores one extra leading slash: `//x` is `/x` -/
def canonLead : Str → Str
  | '/' :: '/' :: r => '/' :: r
  | p => p

def fsOf (tbl : List (Str × Kind)) : FS := fun p => tbl.lookup (canonLead p)

def showOutcome : Outcome → String
  | .pass => "pass"
  | .notfound => "notfound"
  | .file l => s!"file {spShow l}"
  | .listing l => s!"listing {spShow l}"

def readOutcome : List String → Option Outcome
  | ["pass"] => some .pass
  | ["notfound"] => some .notfound
  | ["file", l] => (spStr l).map .file
  | ["listing", l] => (spStr l).map .listing
  | _ => none

def spSplitBar (ts : List String) : List String × List String :=
  (ts.takeWhile (· ≠ "|"), (ts.dropWhile (· ≠ "|")).drop 1)

def staticPathStep (s : SPSt) : List String → SPSt × String
  | "cfg" :: d :: p :: l :: dfl =>
    match spStr d, spOpt p, dfl.mapM spStr with
    | some d, some p, some dfl =>
      if l == "0" ∨ l == "1" then ({ s with cfg := some ⟨d, p, dfl, l == "1"⟩ }, "ok") else (s, "bad-op")
    | _, _, _ => (s, "bad-op")
  | ["fs", p, k] =>
    match spStr p, (match k with | "f" => some Kind.file | "d" => some Kind.dir | "o" => some Kind.other | _ => none) with
    | some p, some k => ({ s with tbl := (p, k) :: s.tbl }, "ok")
    | _, _ => (s, "bad-op")
  | ["serve", rp] =>
    match s.cfg, spStr rp with
    | some cfg, some rp => (s, showOutcome (serve unquote (fsOf s.tbl) cfg rp))
    | _, _ => (s, "bad-op")
  | "spec" :: rp :: rest =>
    let (_, obs) := spSplitBar (rp :: rest)
    match s.cfg, spStr rp, readOutcome obs with
    | some cfg, some rp, some o =>
      if specOk unquote cfg rp o then (s, "ok")
      else match o with
        | .file l | .listing l => (s, if inRoot cfg.docroot l then "fail denotes" else "fail inroot")
        | _ => (s, "fail")
    | _, _, _ => (s, "bad-op")
  -- what the unrepaired containment test would have let through (used by the classifier only)
  | ["legacy", l] =>
    match s.cfg, spStr l with
    | some cfg, some l => (s, if allowedLegacy cfg.docroot l then "allowed" else "refused")
    | _, _ => (s, "bad-op")
  | ["cleanseg", x] =>
    match spStr x with
    | some x => (s, if cleanSeg x then "yes" else "no")
    | none => (s, "bad-op")
  | ["unquote", x] =>
    match spStr x with
    | some x => (s, spShow (unquote x))
    | none => (s, "bad-op")
  | ["normpath", x] =>
    match spStr x with
    | some x => (s, spShow (normpath x))
    | none => (s, "bad-op")
  | ["dirname", x] =>
    match spStr x with
    | some x => (s, spShow (dirname x))
    | none => (s, "bad-op")
  | ["strip", x] =>
    match spStr x with
    | some x => (s, spShow (stripSlash x))
    | none => (s, "bad-op")
  | ["join", a, b] =>
    match spStr a, spStr b with
    | some a, some b => (s, spShow (join a b))
    | _, _ => (s, "bad-op")
  -- directory listing (C16 extension): `listing <reqpath> <name>*` - the names are what os.listdir gave for
  -- the listed directory; answer: `none <outcome>` or `listing <loc> <up|~> (<name> <href> <d|f> <li line> <y|n leads back>)*`
  | "listing" :: rp :: names =>
    match s.cfg, spStr rp, names.mapM spStr with
    | some cfg, some rp, some names =>
      let fs := fsOf s.tbl
      match serveListing unquote fs (fun _ => names) cfg rp with
      | none => (s, "none " ++ showOutcome (serve unquote fs cfg rp))
      | some l =>
        let ent (e : Entry) : String :=
          s!" {spShow e.name} {spShow e.href} {if e.isDir then "d" else "f"} {spShow (liLine e)} {if leadsTo unquote fs cfg l.loc e then "y" else "n"}"
        let up := match l.up with | none => "~" | some h => spShow h ++ "," ++ spShow (upLine h)
        (s, s!"listing {spShow l.loc} {up}" ++ String.join (l.items.map ent))
    | _, _, _ => (s, "bad-op")
  | ["quote", x] =>
    match spStr x with
    | some x => (s, spShow (quote x))
    | none => (s, "bad-op")
  | ["escape", x] =>
    match spStr x with
    | some x => (s, spShow (escape x))
    | none => (s, "bad-op")
  | _ => (s, "bad-op")

end CV.Drv.SP

namespace CV.Drv
def staticPathMachine : Machine := ⟨SP.SPSt, {}, SP.staticPathStep⟩
end CV.Drv

import CV.Drv.Util
import CV.Model.HttpResp
import CV.Model.HttpRespSpec
import CV.Model.HttpRespPath
/-
Line protocol of the C15 model (`httpresp`).

  serve <head01> <v11 01> <keep01> <status> <reason-hex> <force01> <sized|iter|stream> <hdr>* | <part-hex>*
        hdr = <name-hex>=<value-hex>
        -> `<act>* | stale=<01> closed=<01>`      act = w:<hex> | c
        (the connection state persists until `reset`)
  spec <closed01> <afterclose01> <bytes-hex> | <expect>*
        expect = <head01>:<status>:<body-hex>:<hdr>,<hdr>…   (`-` for no headers)
        -> ok | fail <clause> <index>
  split <bytes-hex> <head01> <eof01>  -> status, headers, body, rest of the RFC reader (for diagnosis)
  pathstep <ev>*          the decision code (`step`, from handled = False) on the observed events of one request
        ev = success:<seen> | changed:ready|promise|other | failure:<exc> | exception:own|foreign|nested:<exc>
        seen = none|flag|errorevent:<code>|response|plain|triple:<exc>|valready|valerror:<exc>|valpending
        exc = redirect:<code> | http:<code> | other
        -> `<fired>*` (`-` for none)        fired = respond | error:<code> | redirect:<code>
  pathtrace <path> <kind> <stage>   the events the model expects for the handler shape, and the expected answer
        path = plain|plain-gen|plain-call|plain-fire|plain-value|nobody|expose|expose-gen|expose-call|expose-wait|
               expose-fire|expose-fire-late;  kind = value|response|errorevent:<code>;
        stage = ok | handler:<exc> | after-yield:<exc> | callee:<exc>
        -> `<ev>* | <fired>` or `none` (no such combination)
-/
namespace CV.Drv
open CV.HttpResp

def splitAtBar (ts : List String) : List String × List String :=
  (ts.takeWhile (· ≠ "|"), (ts.dropWhile (· ≠ "|")).drop 1)

def bool01 : String → Option Bool
  | "0" => some false
  | "1" => some true
  | _ => none

def parseHdr (t : String) : Option (Bytes × Bytes) :=
  match t.splitOn "=" with
  | [a, b] => do
    let n ← fromHex a
    let v ← fromHex b
    pure (n, v)
  | _ => none

def showAct : Act → String
  | .write b => "w:" ++ toHex b
  | .close => "c"

def framingNames : List Bytes := [hContentLength, hTransferEncoding, hConnection]

def b01 (b : Bool) : String := if b then "1" else "0"

def parseExpect (t : String) : Option CV.HttpSpec.Expect :=
  match t.splitOn ":" with
  | [h, st, body, hs] => do
    let h ← bool01 h
    let st ← st.toNat?
    let body ← fromHex body
    let hs ← if hs == "-" then some [] else (hs.splitOn ",").mapM parseHdr
    pure { isHead := h, status := st, body := body, hdrs := hs }
  | _ => none

def showVerdict : CV.HttpSpec.Verdict → String
  | .ok => "ok"
  | .fail c i => s!"fail {c} {i}"


/-! ### handler-return paths -/

def hpParseExc : List String → Option Exc
  | ["redirect", c] => c.toNat?.map Exc.redirect
  | ["http", c] => c.toNat?.map Exc.http
  | ["other"] => some .other
  | _ => none

def hpShowExc : Exc → String
  | .redirect c => s!"redirect:{c}"
  | .http c => s!"http:{c}"
  | .other => "other"

def hpParseEv (t : String) : Option HttpEv :=
  match t.splitOn ":" with
  | ["success", "none"] => some (.success .none)
  | ["success", "flag"] => some (.success .flag)
  | ["success", "errorevent", c] => c.toNat?.map (fun c => .success (.errorEvent c))
  | ["success", "response"] => some (.success .response)
  | ["success", "plain"] => some (.success .plain)
  | ["success", "valready"] => some (.success .valReady)
  | ["success", "valpending"] => some (.success .valPending)
  | "success" :: "triple" :: e => (hpParseExc e).map (fun e => .success (.triple e))
  | "success" :: "valerror" :: e => (hpParseExc e).map (fun e => .success (.valError e))
  | ["changed", "ready"] => some (.changed .ready)
  | ["changed", "promise"] => some (.changed .promise)
  | ["changed", "other"] => some (.changed .other)
  | "failure" :: e => (hpParseExc e).map HttpEv.failure
  | ["exception", "own"] => some (.exception .own)
  | ["exception", "foreign"] => some (.exception .foreign)
  | "exception" :: "nested" :: e => (hpParseExc e).map (fun e => .exception (.nested e))
  | _ => none

def hpShowEv : HttpEv → String
  | .success .none => "success:none"
  | .success .flag => "success:flag"
  | .success (.errorEvent c) => s!"success:errorevent:{c}"
  | .success .response => "success:response"
  | .success .plain => "success:plain"
  | .success (.triple e) => "success:triple:" ++ hpShowExc e
  | .success .valReady => "success:valready"
  | .success (.valError e) => "success:valerror:" ++ hpShowExc e
  | .success .valPending => "success:valpending"
  | .changed .ready => "changed:ready"
  | .changed .promise => "changed:promise"
  | .changed .other => "changed:other"
  | .failure e => "failure:" ++ hpShowExc e
  | .exception .own => "exception:own"
  | .exception (.nested e) => "exception:nested:" ++ hpShowExc e
  | .exception .foreign => "exception:foreign"

def hpShowFired : Fired → String
  | .respond => "respond"
  | .error c => s!"error:{c}"
  | .redirect c => s!"redirect:{c}"

def hpParsePath : String → Option Path
  | "plain" => some .plain
  | "plain-gen" => some .plainGen
  | "plain-call" => some .plainCall
  | "plain-fire" => some .plainFire
  | "plain-value" => some .plainValue
  | "nobody" => some .nobody
  | "expose" => some .expose
  | "expose-gen" => some .exposeGen
  | "expose-call" => some .exposeCall
  | "expose-wait" => some .exposeWait
  | "expose-fire" => some .exposeFire
  | "expose-fire-late" => some .exposeFireLate
  | _ => none

def hpParseKind (t : String) : Option Kind :=
  match t.splitOn ":" with
  | ["value"] => some .value
  | ["response"] => some .responseObj
  | ["errorevent", c] => c.toNat?.map Kind.errorEvent
  | _ => none

def hpParseStage (t : String) : Option Stage :=
  match t.splitOn ":" with
  | ["ok"] => some .ok
  | "handler" :: e => (hpParseExc e).map Stage.handler
  | "after-yield" :: e => (hpParseExc e).map Stage.afterYield
  | "callee" :: e => (hpParseExc e).map Stage.callee
  | _ => none

def hpJoinOrDash (ts : List String) : String := if ts.isEmpty then "-" else " ".intercalate ts

def pathStep : List String → Option String
  | "pathstep" :: evs =>
    match evs.mapM hpParseEv with
    | some evs => some (hpJoinOrDash ((fired evs).map hpShowFired))
    | none => some "bad-op"
  | ["pathtrace", p, k, s] =>
    match hpParsePath p, hpParseKind k, hpParseStage s with
    | some p, some k, some s =>
      match trace p k s with
      | some evs => some (hpJoinOrDash (evs.map hpShowEv) ++ " | " ++ hpShowFired (expected p s))
      | none => some "none"
    | _, _, _ => some "bad-op"
  | _ => none

def httprespStep (c : Conn) : List String → Conn × String
  | "serve" :: h :: v :: k :: st :: rs :: fc :: kind :: rest =>
    let (hts, pts) := splitAtBar rest
    match bool01 h, bool01 v, bool01 k, st.toNat?, fromHex rs, bool01 fc, hts.mapM parseHdr, pts.mapM fromHex with
    | some h, some v, some k, some st, some rs, some fc, some hs, some ps =>
      let body? : Option Body := match kind with
        | "sized" => some (.sized ps)
        | "iter" => some (.iter ps)
        | "stream" => some (.stream ps)
        | _ => none
      match body? with
      | none => (c, "bad-op")
      | some body =>
        -- the model assumes the application leaves the framing headers alone
        if hs.any (fun x => framingNames.contains x.1) then (c, "bad-op")
        else
          let rq : Req := { isHead := h, v11 := v, keep := k }
          let r : Resp := { status := st, reason := rs, hdrs := hs, body := body, forceClose := fc }
          let (c', as) := serve c (rq, r)
          (c', " ".intercalate (as.map showAct) ++ s!" | stale={b01 c'.stale.isSome} closed={b01 c'.closed}")
    | _, _, _, _, _, _, _, _ => (c, "bad-op")
  | "spec" :: cl :: ac :: bs :: rest =>
    let (_, ets) := splitAtBar (bs :: rest)
    match bool01 cl, bool01 ac, fromHex bs, ets.mapM parseExpect with
    | some cl, some ac, some bs, some es =>
      (c, showVerdict (CV.HttpSpec.checkWire { bytes := bs, closed := cl, afterClose := ac } es))
    | _, _, _, _ => (c, "bad-op")
  | ["split", bs, h, e] =>
    match fromHex bs, bool01 h, bool01 e with
    | some bs, some h, some e =>
      match CV.HttpSpec.rfcDecode h bs e with
      | .ok (m, rest) =>
        (c, s!"{m.head.status} {b01 m.head.v11} {b01 m.willClose} {toHex m.body} {toHex rest}")
      | .error .head => (c, "error head")
      | .error .framing => (c, "error framing")
      | .error .body => (c, "error body")
    | _, _, _ => (c, "bad-op")
  | ts => (c, (pathStep ts).getD "bad-op")

def httprespMachine : Machine := ⟨Conn, Conn.fresh, httprespStep⟩

end CV.Drv

import CV.Drv.Util
import CV.Model.HttpResp
import CV.Model.HttpRespSpec
/-
Line protocol of the C15 model (`httpresp`).

  serve <head01> <v11 01> <keep01> <status> <reason-hex> <force01> <sized|iter|stream> <hdr>* | <part-hex>*
        hdr = <name-hex>=<value-hex>
        -> `<act>* | stale=<01> closed=<01>`      act = w:<hex> | c
        (the connection state persists until `reset`)
  spec <closed01> <afterclose01> <bytes-hex> | <expect>*
        expect = <head01>:<status>:<body-hex>:<hdr>,<hdr>…   (`-` for no headers)
        -> ok | fail <clause> <index>
  split <bytes-hex> <head01> <eof01>  -> status, headers, body, rest of the RFC reader (for diagnosis)
-/
namespace CV.Drv
open CV.HttpResp

def splitAtBar (ts : List String) : List String × List String :=
  (ts.takeWhile (· ≠ "|"), (ts.dropWhile (· ≠ "|")).drop 1)

def bool01 : String → Option Bool
  | "0" => some false
  | "1" => some true
  | _ => none

def parseHdr (t : String) : Option (Bytes × Bytes) :=
  match t.splitOn "=" with
  | [a, b] => do
    let n ← fromHex a
    let v ← fromHex b
    pure (n, v)
  | _ => none

def showAct : Act → String
  | .write b => "w:" ++ toHex b
  | .close => "c"

def framingNames : List Bytes := [hContentLength, hTransferEncoding, hConnection]

def b01 (b : Bool) : String := if b then "1" else "0"

def parseExpect (t : String) : Option CV.HttpSpec.Expect :=
  match t.splitOn ":" with
  | [h, st, body, hs] => do
    let h ← bool01 h
    let st ← st.toNat?
    let body ← fromHex body
    let hs ← if hs == "-" then some [] else (hs.splitOn ",").mapM parseHdr
    pure { isHead := h, status := st, body := body, hdrs := hs }
  | _ => none

def showVerdict : CV.HttpSpec.Verdict → String
  | .ok => "ok"
  | .fail c i => s!"fail {c} {i}"

def httprespStep (c : Conn) : List String → Conn × String
  | "serve" :: h :: v :: k :: st :: rs :: fc :: kind :: rest =>
    let (hts, pts) := splitAtBar rest
    match bool01 h, bool01 v, bool01 k, st.toNat?, fromHex rs, bool01 fc, hts.mapM parseHdr, pts.mapM fromHex with
    | some h, some v, some k, some st, some rs, some fc, some hs, some ps =>
      let body? : Option Body := match kind with
        | "sized" => some (.sized ps)
        | "iter" => some (.iter ps)
        | "stream" => some (.stream ps)
        | _ => none
      match body? with
      | none => (c, "bad-op")
      | some body =>
        -- the model assumes the application leaves the framing headers alone
        if hs.any (fun x => framingNames.contains x.1) then (c, "bad-op")
        else
          let rq : Req := { isHead := h, v11 := v, keep := k }
          let r : Resp := { status := st, reason := rs, hdrs := hs, body := body, forceClose := fc }
          let (c', as) := serve c (rq, r)
          (c', " ".intercalate (as.map showAct) ++ s!" | stale={b01 c'.stale.isSome} closed={b01 c'.closed}")
    | _, _, _, _, _, _, _, _ => (c, "bad-op")
  | "spec" :: cl :: ac :: bs :: rest =>
    let (_, ets) := splitAtBar (bs :: rest)
    match bool01 cl, bool01 ac, fromHex bs, ets.mapM parseExpect with
    | some cl, some ac, some bs, some es =>
      (c, showVerdict (CV.HttpSpec.checkWire { bytes := bs, closed := cl, afterClose := ac } es))
    | _, _, _, _ => (c, "bad-op")
  | ["split", bs, h, e] =>
    match fromHex bs, bool01 h, bool01 e with
    | some bs, some h, some e =>
      match CV.HttpSpec.rfcDecode h bs e with
      | .ok (m, rest) =>
        (c, s!"{m.head.status} {b01 m.head.v11} {b01 m.willClose} {toHex m.body} {toHex rest}")
      | .error .head => (c, "error head")
      | .error .framing => (c, "error framing")
      | .error .body => (c, "error body")
    | _, _, _ => (c, "bad-op")
  | _ => (c, "bad-op")

def httprespMachine : Machine := ⟨Conn, Conn.fresh, httprespStep⟩

end CV.Drv

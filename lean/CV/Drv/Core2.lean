import CV.Drv.Core
import CV.Model.Core.Step
/-
Line protocol for the SMALL-STEP core machine (model name `core2`).

Identical to `core` (see CV/Drv/Core.lean for the protocol): the setup / query lines are
handled by `CM.coreStep` itself; only the ops that run the machine (`do`, `tick`, `flush`,
`run`) are executed with `runN` on `CV.Model.Core.Step` instead of the big-step interpreter.

`fuel <n>`: the big-step model counts recursion depth, the small-step model counts steps,
so `n` is multiplied by `stepsPerFuel`; running out of steps answers `exn fuel`.
-/
namespace CV.Drv.CM2
open CV.Drv
open CV.Drv.CM
open CV.Core

def stepsPerFuel : Nat := 64

/-- run a configuration to completion and report the new log entries (cf. `CM.runM`) -/
def runCfg (cs : CoreSt) (c0 : Cfg) : CoreSt × String :=
  let c := runN (cs.fuel * stepsPerFuel) c0
  let st' := c.st
  let newEntries := (st'.log.take (st'.log.length - cs.shown)).reverse
  let txt := " | ".intercalate (newEntries.map showEntry)
  let head :=
    if !done c then s!"exn {showExn .fuel}"
    else match c.exn with
      | none => "ok"
      | some ex => s!"exn {showExn ex}"
  ({ cs with st := st', shown := st'.log.length }, s!"{head} | {txt}")

def core2Step (cs : CoreSt) : List String → CoreSt × String
  | "do" :: c :: rest =>
    match c.toNat?, parseAct rest with
    | some c, some a => runCfg cs (startDo cs.st c a)
    | _, _ => (cs, "bad-op")
  | ["tick", c] =>
    match c.toNat? with
    | some c => runCfg cs (startTick cs.st c)
    | none => (cs, "bad-op")
  | ["flush", c] =>
    match c.toNat? with
    | some c => runCfg cs (startFlush cs.st c)
    | none => (cs, "bad-op")
  | ["run", c] =>
    match c.toNat? with
    | some c => runCfg cs (startRun cs.st c)
    | none => (cs, "bad-op")
  | toks => coreStep cs toks

def core2Machine : Machine := ⟨CoreSt, {}, core2Step⟩

end CV.Drv.CM2

import CV.Drv.Util
import CV.Model.HttpClient
/-
Line-protocol glue for the HTTP client component (C13): machine `httpclient`.
The lexers are the concrete ones (`concreteLex`; the path guard is not used on the client side).

  curl <url hex>       -> ok <host hex> <port> <path hex> <0|1> | err absolute|scheme|port | unsupported
  cnew                 -> ok                       (fresh, unconnected client)
  creq <method hex> <url hex> <body hex | ~> <k> (<name hex> <value hex>){k}
                       -> events                   (`Client.request` up to the wait for the response)
  cread <data hex>     -> events                   (`read` from the transport)
  cstate               -> <connected 0|1>
  cback <bytes hex>    -> the server-side parser model + concrete lexers on the bytes the client wrote:
                          incomplete | bad | ok <method> <target> <maj> <min> <body hex> <k> (<NAME> <value>){k}
  ctitle <name hex>    -> <hex>                    (`str.title()`)
  events: `none` or blank-separated  C:<host>:<port>:<0|1>  W:<hex>  R:<fl|~>:<hb|~>:<body>  X  E:<kind>  U
-/
namespace CV.Drv.HClient
open CV.Http CV.Http.Client CV.Drv

def lexC : Lex := concreteLex (fun _ _ => true)

def bit (b : Bool) : String := if b then "1" else "0"
def optHex : Option Bytes → String
  | none => "~"
  | some b => toHex b

def showErr : UrlRes → String
  | .notAbsolute => "absolute"
  | .badScheme => "scheme"
  | .badPort => "port"
  | _ => "?"

def showEv : Ev → String
  | .connect h p s => s!"C:{toHex h}:{p}:{bit s}"
  | .write d => s!"W:{toHex d}"
  | .response r => s!"R:{optHex r.firstLine}:{optHex r.hdrBlock}:{toHex r.body}"
  | .close => "X"
  | .error e => s!"E:{showErr e}"
  | .unsupported => "U"

def showEvs (es : List Ev) : String := if es.isEmpty then "none" else " ".intercalate (es.map showEv)

def parseFields : Nat → List String → Option (List Field)
  | 0, [] => some []
  | n + 1, a :: b :: r => do
    let x ← fromHex a
    let y ← fromHex b
    let fs ← parseFields n r
    pure ((x, y) :: fs)
  | _, _ => none

def showFields (fs : List Field) : String :=
  " ".intercalate (toString fs.length :: fs.flatMap fun f => [toHex f.1, toHex f.2])

def step (s : State) : List String → State × String
  | ["curl", u] =>
    match fromHex u with
    | some u =>
      (s, match parseUrl u with
        | .ok r => s!"ok {toHex r.host} {r.port} {toHex r.path} {bit r.secure}"
        | .unsupported => "unsupported"
        | e => s!"err {showErr e}")
    | none => (s, "bad-op")
  | ["cnew"] => ({}, "ok")
  | "creq" :: m :: u :: b :: k :: rest =>
    match fromHex m, fromHex u, (if b == "~" then some none else (fromHex b).map some), k.toNat? with
    | some m, some u, some b, some k =>
      match parseFields k rest with
      | some fs =>
        let (s', es) := onRequest s ⟨m, u, b, fs⟩
        (s', showEvs es)
      | none => (s, "bad-op")
    | _, _, _, _ => (s, "bad-op")
  | ["cread", d] =>
    match fromHex d with
    | some d =>
      let (s', es) := onRead lexC s d
      (s', showEvs es)
    | none => (s, "bad-op")
  | ["cstate"] => (s, bit s.connected)
  | ["cback", d] =>
    match fromHex d with
    | some d =>
      let p := exec lexC (init .request) d
      if p.core.bad then (s, "bad")
      else if !p.core.complete then (s, "incomplete")
      else
        match p.core.firstLine with
        | none => (s, "bad")
        | some fl =>
          match lexRequestLine fl, (match p.core.hdrBlock with | none => Lx.ok [] | some hb => lexFieldList hb) with
          | .ok r, .ok fs =>
            (s, s!"ok {toHex r.method} {toHex r.target} {r.vmajor} {r.vminor} {toHex p.core.body} {showFields fs}")
          | _, _ => (s, "bad")
    | none => (s, "bad-op")
  | ["ctitle", n] =>
    match fromHex n with
    | some n => (s, toHex (titleA n))
    | none => (s, "bad-op")
  | _ => (s, "bad-op")

end CV.Drv.HClient

namespace CV.Drv

def httpclientMachine : Machine := ⟨CV.Http.Client.State, {}, HClient.step⟩

end CV.Drv

import CV.Drv.Util
import CV.Model.Wake
import CV.Model.WakeSpec
/-
Driver glue for C03.  Ops:
  mode fallback|poller          -> (re)initialise the acceptor
  <label> [args]                -> one effect of the implementation; answer
                                   `ok <abstract state>` or `reject <abstract state>`
  state                         -> abstract state
  spec-once <t:s ...> | <t:s ...>     spec-prefix ... | ...     spec-stuck <0|1> <n> <0|1>

The acceptor is `CV.Wake.step` alone: every effect label of the implementation (the Timer handler's
`hsetWnoResume`, `lAcq`, `tlwOther`, `lRel` included) is parsed into a `CV.Wake.Lab` and offered to the model;
this file holds no protocol logic of its own (parsing, printing, the spec ops).
-/
namespace CV.Drv
open CV.Wake

def tlStr : TL → String | .neg => "neg" | .zero => "zero" | .pos => "pos"
def tlOf : String → Option TL | "neg" => some .neg | "zero" => some .zero | "pos" => some .pos | _ => none
def hkStr : HK → String | .none => "none" | .other => "other" | .ge => "ge"
def hkOf : String → Option HK | "none" => some .none | "other" => some .other | "ge" => some .ge | _ => none
def boolOf : String → Option Bool | "1" => some true | "0" => some false | _ => none

def lpcStr (p : LPc) : String := (reprStr p).replace "CV.Wake.LPc." ""
def fpcStr (p : FPc) : String := (reprStr p).replace "CV.Wake.FPc." ""

def lockStr (s : St) : String :=
  if s.lockL then "L" else match s.cs with | some f => s!"F{f.tid}" | none => "-"

def absState (s : St) : String :=
  let tlc := match s.cs with
    | some f => s!" fpc={fpcStr f.pc}"
    | none => ""
  s!"pend={s.q.pending.length} hk={hkStr s.handling} tl={tlStr s.tl} sig={s.sig} lock={lockStr s} " ++
  s!"blocked={if s.blocked then 1 else 0} lpc={lpcStr s.lpc}{tlc}"

def parseLab : List String → Option Lab
  | ["lIncr"] => some .lIncr
  | ["lAppGe", n, t] => do some (.lAppGe (← n.toNat?) (← tlOf t))
  | ["snap", n] => do some (.snap (← n.toNat?))
  | ["pop", t, n] => do some (.pop (← t.toNat?) (← n.toNat?))
  | ["hwOther"] => some .hwOther
  | ["hwNone"] => some .hwNone
  | ["hwGe"] => some .hwGe
  | ["lAcq"] => some .lAcq
  | ["lRel"] => some .lRel
  | ["tlwZero"] => some .tlwZero
  | ["lHsetR", b] => do some (.lHsetR (← boolOf b))
  | ["hsetW"] => some .hsetW
  | ["hsetWnoResume"] => some .hsetWnoResume
  | ["tlwOther"] => some .tlwOther
  | ["clr"] => some .clr
  | ["tlr", t] => do some (.tlr (← tlOf t))
  | ["wake"] => some .wake
  | ["timeout"] => some .timeout
  | ["wait0"] => some .wait0
  | ["sigSetL"] => some .sigSetL
  | ["selRet", b] => do some (.selRet (← boolOf b))
  | ["selTimeout", b] => do some (.selTimeout (← boolOf b))
  | ["pipeRd"] => some .pipeRd
  | ["fAcq", t] => do some (.fAcq (← t.toNat?))
  | ["fHr", t, v] => do some (.fHr (← t.toNat?) (← hkOf v))
  | ["fIncr", t] => do some (.fIncr (← t.toNat?))
  | ["fApp", t, n] => do some (.fApp (← t.toNat?) (← n.toNat?))
  | ["fTlwZero", t] => do some (.fTlwZero (← t.toNat?))
  | ["fHsetR", t, b] => do some (.fHsetR (← t.toNat?) (← boolOf b))
  | ["fSig", t] => do some (.fSig (← t.toNat?))
  | ["fRel", t] => do some (.fRel (← t.toNat?))
  | _ => none

def parseKey (s : String) : Option (Nat × Nat) :=
  match s.splitOn ":" with
  | [a, b] => do some ((← a.toNat?), (← b.toNat?))
  | _ => none

def splitBarWk (ts : List String) : List String × List String :=
  (ts.takeWhile (· ≠ "|"), (ts.dropWhile (· ≠ "|")).drop 1)

def wakeStep (s : St) : List String → St × String
  | ["mode", "fallback"] => (init .fallback, "ok " ++ absState (init .fallback))
  | ["mode", "poller"] => (init .poller, "ok " ++ absState (init .poller))
  | ["state"] => (s, absState s)
  | "spec-once" :: rest =>
    let (a, b) := splitBarWk rest
    match a.mapM parseKey, b.mapM parseKey with
    | some f, some g => (s, if WakeSpec.onceFifo f g then "ok" else "fail once-fifo")
    | _, _ => (s, "bad-op")
  | "spec-prefix" :: rest =>
    let (a, b) := splitBarWk rest
    match a.mapM parseKey, b.mapM parseKey with
    | some f, some g => (s, if WakeSpec.prefixFifo f g then "ok" else "fail prefix-fifo")
    | _, _ => (s, "bad-op")
  | ["spec-stuck", b, q, e] =>
    match boolOf b, q.toNat?, boolOf e with
    | some b, some q, some e => (s, if WakeSpec.notStuck b q e then "ok" else "fail stuck")
    | _, _, _ => (s, "bad-op")
  | ts =>
    match parseLab ts with
    | some l =>
      match step s l with
      | some s' => (s', "ok " ++ absState s')
      | none => (s, "reject " ++ absState s)
    | none => (s, "bad-op")

def wakeMachine : Machine := ⟨St, init .fallback, wakeStep⟩

end CV.Drv

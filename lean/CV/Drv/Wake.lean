import CV.Drv.Util
import CV.Model.Wake
import CV.Model.WakeSpec
/-
Driver glue for C03.  Ops:
  mode fallback|poller          -> (re)initialise the acceptor
  <label> [args]                -> one effect of the implementation; answer
                                   `ok <abstract state>` or `reject <abstract state>`
  state                         -> abstract state
  spec-once <t:s ...> | <t:s ...>     spec-prefix ... | ...     spec-stuck <0|1> <n> <0|1>

Glue-level extension (NOT part of CV.Model.Wake, not covered by the theorems of CV.Props.C03; it is
replay-validated against the implementation like the model, and it only ever touches `lockL`, `tl`,
`hset` of the model state while the model's loop pc rests at `setH`):
a generate_events handler WITHOUT `resume` that runs in the loop thread before the waiter and lowers the
time left to a positive value (circuits.core.timers.Timer._on_generate_events, any handler of higher
priority than the waiter's):
    event.handler = event_handler                 hsetWnoResume     (model pc `setH`, stays there)
    event.reduce_time_left(T)   with T > 0
        with self._lock:                          lAcq              (enabled only when the lock is free)
            if ... self._time_left < 0 or self._time_left > T:
                self._time_left = T               tlwOther          (only from a non-zero time left: reduce only)
                                                  lRel
After the `lRel` the model continues at `setH` (next handler: another such handler or the waiter, `hsetW`),
now with `tl = pos`, i.e. into the positive-time-out branch of the waiter (`posArg`, `waitPos`, `pSel`
with `tmo = pos`) which IS part of the model.
-/
namespace CV.Drv
open CV.Wake

def tlStr : TL → String | .neg => "neg" | .zero => "zero" | .pos => "pos"
def tlOf : String → Option TL | "neg" => some .neg | "zero" => some .zero | "pos" => some .pos | _ => none
def hkStr : HK → String | .none => "none" | .other => "other" | .ge => "ge"
def hkOf : String → Option HK | "none" => some .none | "other" => some .other | "ge" => some .ge | _ => none
def boolOf : String → Option Bool | "1" => some true | "0" => some false | _ => none

/-- program counter of the glue-level "timer" handler (see the header) -/
inductive TPc | idle | acq | chk | rel deriving DecidableEq, Repr

structure DSt where
  s : St
  tpc : TPc

def tpcStr : TPc → String | .idle => "idle" | .acq => "acq" | .chk => "chk" | .rel => "rel"

def lpcStr (p : LPc) : String := (reprStr p).replace "CV.Wake.LPc." ""
def fpcStr (p : FPc) : String := (reprStr p).replace "CV.Wake.FPc." ""

def lockStr (s : St) : String :=
  if s.lockL then "L" else match s.cs with | some f => s!"F{f.tid}" | none => "-"

def absState (s : St) : String :=
  let tlc := match s.cs with
    | some f => s!" fpc={fpcStr f.pc}"
    | none => ""
  s!"pend={s.q.pending.length} hk={hkStr s.handling} tl={tlStr s.tl} sig={s.sig} lock={lockStr s} " ++
  s!"blocked={if s.blocked then 1 else 0} lpc={lpcStr s.lpc}{tlc}"

def parseLab : List String → Option Lab
  | ["lIncr"] => some .lIncr
  | ["lAppGe", n, t] => do some (.lAppGe (← n.toNat?) (← tlOf t))
  | ["snap", n] => do some (.snap (← n.toNat?))
  | ["pop", t, n] => do some (.pop (← t.toNat?) (← n.toNat?))
  | ["hwOther"] => some .hwOther
  | ["hwNone"] => some .hwNone
  | ["hwGe"] => some .hwGe
  | ["lAcq"] => some .lAcq
  | ["lRel"] => some .lRel
  | ["tlwZero"] => some .tlwZero
  | ["lHsetR", b] => do some (.lHsetR (← boolOf b))
  | ["hsetW"] => some .hsetW
  | ["clr"] => some .clr
  | ["tlr", t] => do some (.tlr (← tlOf t))
  | ["wake"] => some .wake
  | ["timeout"] => some .timeout
  | ["wait0"] => some .wait0
  | ["sigSetL"] => some .sigSetL
  | ["selRet", b] => do some (.selRet (← boolOf b))
  | ["selTimeout", b] => do some (.selTimeout (← boolOf b))
  | ["pipeRd"] => some .pipeRd
  | ["fAcq", t] => do some (.fAcq (← t.toNat?))
  | ["fHr", t, v] => do some (.fHr (← t.toNat?) (← hkOf v))
  | ["fIncr", t] => do some (.fIncr (← t.toNat?))
  | ["fApp", t, n] => do some (.fApp (← t.toNat?) (← n.toNat?))
  | ["fTlwZero", t] => do some (.fTlwZero (← t.toNat?))
  | ["fHsetR", t, b] => do some (.fHsetR (← t.toNat?) (← boolOf b))
  | ["fSig", t] => do some (.fSig (← t.toNat?))
  | ["fRel", t] => do some (.fRel (← t.toNat?))
  | _ => none

def parseKey (s : String) : Option (Nat × Nat) :=
  match s.splitOn ":" with
  | [a, b] => do some ((← a.toNat?), (← b.toNat?))
  | _ => none

def splitBarWk (ts : List String) : List String × List String :=
  (ts.takeWhile (· ≠ "|"), (ts.dropWhile (· ≠ "|")).drop 1)

def dAbs (d : DSt) : String :=
  absState d.s ++ (if d.tpc = .idle then "" else s!" tpc={tpcStr d.tpc}")

/-- the glue-level timer handler: `some (some d')` performed, `some none` rejected, `none` not a timer step -/
def timerStep (d : DSt) : List String → Option (Option DSt)
  | ["hsetWnoResume"] =>
    if d.s.lpc = .setH ∧ d.tpc = .idle then some (some { s := { d.s with hset := false }, tpc := .acq })
    else some none
  | ["tlwOther"] =>
    if d.tpc = .chk ∧ d.s.lockL = true ∧ d.s.tl ≠ .zero then
      some (some { s := { d.s with tl := .pos }, tpc := .rel })
    else some none
  | ["lAcq"] =>
    if d.tpc = .acq then
      if d.s.lockL = false ∧ d.s.cs = none then some (some { s := { d.s with lockL := true }, tpc := .chk })
      else some none
    else if d.tpc = .idle then none else some none
  | ["lRel"] =>
    if d.tpc = .rel ∨ (d.tpc = .chk ∧ d.s.tl ≠ .neg) then
      if d.s.lockL = true then some (some { s := { d.s with lockL := false }, tpc := .idle }) else some none
    else if d.tpc = .idle then none else some none
  | ts =>
    if d.tpc = .idle then none
    else match parseLab ts with
      | some l => if l.isFirer then none else some none   -- the loop thread is inside the timer handler
      | none => none

def wakeStep (d : DSt) : List String → DSt × String
  | ["mode", "fallback"] => (⟨init .fallback, .idle⟩, "ok " ++ absState (init .fallback))
  | ["mode", "poller"] => (⟨init .poller, .idle⟩, "ok " ++ absState (init .poller))
  | ["state"] => (d, dAbs d)
  | "spec-once" :: rest =>
    let (a, b) := splitBarWk rest
    match a.mapM parseKey, b.mapM parseKey with
    | some f, some g => (d, if WakeSpec.onceFifo f g then "ok" else "fail once-fifo")
    | _, _ => (d, "bad-op")
  | "spec-prefix" :: rest =>
    let (a, b) := splitBarWk rest
    match a.mapM parseKey, b.mapM parseKey with
    | some f, some g => (d, if WakeSpec.prefixFifo f g then "ok" else "fail prefix-fifo")
    | _, _ => (d, "bad-op")
  | ["spec-stuck", b, q, e] =>
    match boolOf b, q.toNat?, boolOf e with
    | some b, some q, some e => (d, if WakeSpec.notStuck b q e then "ok" else "fail stuck")
    | _, _, _ => (d, "bad-op")
  | ts =>
    match timerStep d ts with
    | some (some d') => (d', "ok " ++ dAbs d')
    | some none => (d, "reject " ++ dAbs d)
    | none =>
      match parseLab ts with
      | some l =>
        match step d.s l with
        | some s' => ({ d with s := s' }, "ok " ++ dAbs { d with s := s' })
        | none => (d, "reject " ++ dAbs d)
      | none => (d, "bad-op")

def wakeMachine : Machine := ⟨DSt, ⟨init .fallback, .idle⟩, wakeStep⟩

end CV.Drv

import CV.Drv.Util
import CV.Model.VHost
/-
Line protocol of the C20 virtual-host model (`cvdriver vhost`).

  route <legacy|current> <gateways> <ip> <host|~> <xfh|~> <domain,prefix>*   -> <prefix> | ~
      <gateways> = ~ (None) | = (empty list) | ip,ip,…
-/
namespace CV.Drv.C20
open CV.Drv CV.VHost

def vstr? (t : String) : Option Str := (strFromHex t).map String.toList
def voptStr? (t : String) : Option (Option Str) :=
  if t == "~" then some none else (vstr? t).map some

def vpair? (t : String) : Option (Str × Str) :=
  match t.splitOn "," with
  | [a, b] => do
    let a ← vstr? a
    let b ← vstr? b
    pure (a, b)
  | _ => none

def gateways? (t : String) : Option (Option (List Str)) :=
  if t == "~" then some none
  else if t == "=" then some (some [])
  else ((t.splitOn ",").mapM vstr?).map some

def vpol? : String → Option Policy
  | "legacy" => some Policy.legacy
  | "current" => some Policy.current
  | _ => none

def vhostStep (s : Unit) : List String → Unit × String
  | "route" :: pol :: tg :: ip :: host :: xfh :: doms =>
    match vpol? pol, gateways? tg, vstr? ip, voptStr? host, voptStr? xfh, doms.mapM vpair? with
    | some pol, some tg, some ip, some host, some xfh, some doms =>
      match handle pol tg doms ip host xfh with
      | some p => (s, strToHex (String.ofList p))
      | none => (s, "~")
    | _, _, _, _, _, _ => (s, "bad-op")
  | _ => (s, "bad-op")

def vhostMachine : Machine := ⟨Unit, (), vhostStep⟩

end CV.Drv.C20

import CV.Drv.Util
import CV.Model.PollerSpec
/-
Line protocol of the poller model (machine `poller`).

  kind select|poll|epoll          start a fresh model + a fresh spec observer        -> ok
  ar o c | aw o c | rr o | rw o | di o | op o f | cl o        model operation        -> ok | raised | bad-op
  po f:b f:b …                    one zero-timeout round; b = IN 1 | OUT 2 | HUP 4 | ERR 8 of the
                                  open file with number f, b = x for a number nobody holds
                                                                                     -> events r:o:c w:o:c d:o:c (c = p: parent) | -
  q o                             isReading isWriting getTarget                       -> 0|1 0|1 c|p
  spec <op line> [| events]       feed the *implementation's* observation to the spec observer
                                                                                     -> ok | ok clean|unclean blind|seeing | fail <clause> | bad-op
  params IN OUT ERR HUP NVAL pollflag EIN EOUT EERR EHUP epollflag   parameter obligation -> ok | fail <what>
-/
namespace CV.Drv
open CV.Poller

structure PollerSt where
  m : State := State.init .select
  σ : Spec := Spec.init
  c : CleanSt := CleanSt.init
  cleanSoFar : Bool := true

def kindOf : String → Option Kind
  | "select" => some .select
  | "poll" => some .poll
  | "epoll" => some .epoll
  | _ => none

def bitsOfNat (n : Nat) : Bits := ⟨n % 2 == 1, (n / 2) % 2 == 1, (n / 4) % 2 == 1, (n / 8) % 2 == 1⟩

/-- `f:b` tokens -> (numbers asked, readiness of open ones) -/
def parseReady (ts : List String) : Option (List Nat × List (Nat × Bits)) :=
  ts.foldr (fun t acc =>
    match acc, t.splitOn ":" with
    | some (fs, rd), [f, b] =>
      match f.toNat? with
      | some f =>
        if b == "x" then some (f :: fs, rd)
        else match b.toNat? with
          | some b => some (f :: fs, (f, bitsOfNat b) :: rd)
          | none => none
      | none => none
    | _, _ => none) (some ([], []))

def readyFn (rd : List (Nat × Bits)) : Nat → Bits :=
  fun f => (rd.lookup f).getD ⟨false, false, false, false⟩

def showChan : Option Chan → String
  | none => "p"
  | some c => toString c

def showEvent (e : Event) : String :=
  let k := match e.kind with
    | .read => "r"
    | .write => "w"
    | .disconnect => "d"
  s!"{k}:{e.obj}:{showChan e.chan}"

def showEvents (es : List Event) : String :=
  if es.isEmpty then "-" else " ".intercalate (es.map showEvent)

def parseEvent (t : String) : Option Event :=
  match t.splitOn ":" with
  | [k, o, c] =>
    let kind : Option EvKind := match k with
      | "r" => some .read
      | "w" => some .write
      | "d" => some .disconnect
      | _ => none
    let chan : Option (Option Chan) := if c == "p" then some none else c.toNat?.map some
    match kind, o.toNat?, chan with
    | some kind, some o, some chan => some ⟨kind, o, chan⟩
    | _, _, _ => none
  | _ => none

def parseOp : List String → Option Op
  | ["ar", o, c] => do pure (.addReader (← o.toNat?) (← c.toNat?))
  | ["aw", o, c] => do pure (.addWriter (← o.toNat?) (← c.toNat?))
  | ["rr", o] => do pure (.removeReader (← o.toNat?))
  | ["rw", o] => do pure (.removeWriter (← o.toNat?))
  | ["di", o] => do pure (.discard (← o.toNat?))
  | ["op", o, f] => do pure (.opn (← o.toNat?) (← f.toNat?))
  | ["cl", o] => do pure (.close (← o.toNat?))
  | "po" :: ts => do
    let (fs, rd) ← parseReady ts
    pure (.poll fs (readyFn rd))
  | _ => none

def showOut : Out → String
  | .ok => "ok"
  | .raised => "raised"
  | .bad => "bad-op"
  | .events es => showEvents es

def pow2 (n : Nat) : Bool := n == 1 || n == 2 || n == 4 || n == 8 || n == 16 || n == 32 || n == 64

/-- the flag constants the model's `Rev` decoding and `disconnectedFlag` assume -/
def paramsOk : List Nat → Option String
  | [i, o, e, h, n, pf, ei, eo, ee, eh, ef] =>
    if !([i, o, e, h, n].all pow2 && [i, o, e, h, n].eraseDups.length == 5) then some "poll-bits-not-distinct"
    else if pf != h + e + n then some "poll-disconnected-flag"
    else if !([ei, eo, ee, eh].all pow2 && [ei, eo, ee, eh].eraseDups.length == 4) then some "epoll-bits-not-distinct"
    else if ef != eh + ee then some "epoll-disconnected-flag"
    else if ei != i then some "EPOLLIN-differs-from-POLLIN"      -- EPoll._process tests select.POLLIN
    else none
  | _ => some "arity"

def splitBar' (ts : List String) : List String × List String :=
  (ts.takeWhile (· ≠ "|"), (ts.dropWhile (· ≠ "|")).drop 1)

def pollerStep (s : PollerSt) : List String → PollerSt × String
  | ["kind", k] =>
    match kindOf k with
    | some k => ({ m := State.init k }, "ok")
    | none => (s, "bad-op")
  | ["q", o] =>
    match o.toNat? with
    | some o => (s, s!"{if s.m.isReading o then 1 else 0} {if s.m.isWriting o then 1 else 0} {showChan (s.m.targets o)}")
    | none => (s, "bad-op")
  | "params" :: ts =>
    match natList ts with
    | some ns => (s, match paramsOk ns with
                     | none => "ok"
                     | some w => s!"fail {w}")
    | none => (s, "bad-op")
  | "spec" :: ts =>
    let (opts, evts) := splitBar' ts
    match parseOp opts, evts.mapM parseEvent with
    | some op, some es =>
      if !s.σ.valid op then (s, "bad-op") else
      let out : Out := match op with
        | .poll _ _ => .events es
        | _ => .ok
      let cl := s.cleanSoFar && cleanOp s.c op
      let c' : CleanSt := ⟨s.c.σ.advance op (.events []),
                          match op with
                          | .opn o _ => o :: s.c.objs
                          | _ => s.c.objs⟩
      let s' := { s with σ := s.σ.advance op out, c := c', cleanSoFar := cl }
      match op with
      | .poll fs rd =>
        match roundFail s.σ fs rd es with
        | none => (s', (if cl then "ok clean" else "ok unclean") ++ (if s.σ.blind then " blind" else " seeing"))
        | some c => (s', s!"fail {c}")
      | _ => (s', "ok")
    | _, _ => (s, "bad-op")
  | ts =>
    match parseOp ts with
    | some op =>
      let (m', out) := step s.m op
      ({ s with m := m' }, showOut out)
    | none => (s, "bad-op")

def pollerMachine : Machine := ⟨PollerSt, {}, pollerStep⟩

end CV.Drv

import CV.Drv.Util
import CV.Model.WebSocketEndpoint
/-
Line protocol of the `wse` machine (C17, endpoints: CV.WSE).

  hs-split <c|s> <hex>+          the raw reads of one connection from its start
        -> upgraded <k> <head> <left> <initial>   k = reads consumed by the HTTP parser, head = the HTTP
                                                  head, left = bytes behind it in read k, initial = the
                                                  `data=` the codec is created with (client: left, server: empty)
        -> pending                                 the head is not complete in these reads
        -> unsupported-headerless                  first line directly followed by an empty line (not modelled)
  up <sock> | rd <sock> <hex> | dc <sock>          CV.WSE.step on the dispatcher's table
        -> <out>* (or `-`)        out = <sock>:mt:<hex> | <sock>:mb:<hex> | <sock>:pong:<hex> | <sock>:c
  tab <sock>                     -> present | absent
-/
namespace CV.Drv
open CV.WS CV.WSE

structure WseSt where
  table : Table := emptyTable

def showTagged : Nat × Out → String
  | (s, Out.message true p) => s!"{s}:mt:{toHex p}"
  | (s, Out.message false p) => s!"{s}:mb:{toHex p}"
  | (s, Out.pong p) => s!"{s}:pong:{toHex p}"
  | (s, Out.closeEvt) => s!"{s}:c"

def showOuts (l : List (Nat × Out)) : String :=
  if l.isEmpty then "-" else " ".intercalate (l.map showTagged)

def sideOf : String → Option Side
  | "c" => some Side.client
  | "s" => some Side.server
  | _ => none

def wseStep (s : WseSt) : List String → WseSt × String
  | "hs-split" :: m :: hs =>
    match sideOf m, hs.mapM fromHex with
    | some side, some segs =>
      if segs.isEmpty then (s, "bad-op")
      else if headerless segs.flatten then (s, "unsupported-headerless")
      else
        match hsFeed [] segs with
        | some (h, left, later) =>
          (s, s!"upgraded {segs.length - later.length} {toHex h} {toHex left} {toHex (initialData side left)}")
        | none => (s, "pending")
    | _, _ => (s, "bad-op")
  | ["up", k] =>
    match k.toNat? with
    | some k => let r := step s.table (Ev.upgrade k); ({ s with table := r.1 }, showOuts r.2)
    | none => (s, "bad-op")
  | ["rd", k, h] =>
    match k.toNat?, fromHex h with
    | some k, some d => let r := step s.table (Ev.read k d); ({ s with table := r.1 }, showOuts r.2)
    | _, _ => (s, "bad-op")
  | ["dc", k] =>
    match k.toNat? with
    | some k => let r := step s.table (Ev.disconnect k); ({ s with table := r.1 }, showOuts r.2)
    | none => (s, "bad-op")
  | ["tab", k] =>
    match k.toNat? with
    | some k => (s, if (s.table k).isSome then "present" else "absent")
    | none => (s, "bad-op")
  | _ => (s, "bad-op")

def wseMachine : Machine := ⟨WseSt, {}, wseStep⟩

end CV.Drv

import CV.Drv.Http
import CV.Model.HttpServerPipe
/-
Line-protocol glue for the pipelined-delivery model (C13, CV/Model/HttpServerPipe.lean).
Lexer tables as in machine `http` (`lex1` / `lexh` / `lexc` / `lexp` lines are handed to `H13.httpStep`).

  pipe <secure 0|1> <read hex> ...   -> `<out> ; <out> ; ... | buffered=<hex> parser=<0|1> client=<0|1> interim=<n>`
                                        a whole connection from fresh tables: every read, answered at once
  specsame <n> <a1> .. <an> <b1> .. <bn'>  (spec predicate on IMPLEMENTATION observations; each item `fl,hb,body` hex)
                                     -> ok | fail <clause>: the dispatched list of a cut delivery equals the list
                                        of one-piece-per-request delivery
-/
namespace CV.Drv.HPipe
open CV.Http CV.Drv

def hexList : List String → Option (List Bytes)
  | [] => some []
  | t :: r =>
    match fromHex t, hexList r with
    | some b, some bs => some (b :: bs)
    | _, _ => none

/-- the spec predicate: same requests, same order, nothing extra -/
def sameDispatch : List String → List String → String
  | [], [] => "ok"
  | [], _ :: _ => "fail extra-request"
  | _ :: _, [] => "fail lost-request"
  | a :: as, b :: bs => if a == b then sameDispatch as bs else "fail request-differs"

def pipeStep (s : H13.HttpSt) : List String → H13.HttpSt × String
  | "pipe" :: sec :: reads =>
    match H13.bitOf sec, hexList reads with
    | some sec, some reads =>
      let r := pipeAll (H13.lexOf s) sec {} reads
      let outs := " ; ".intercalate (r.2.map H13.showOut)
      (s, s!"{outs} | buffered={toHex r.1.buffered} parser={H13.bit r.1.parser.isSome} client={H13.bit r.1.client.isSome} interim={interimWrites r.2}")
    | _, _ => (s, "bad-op")
  | "specsame" :: n :: items =>
    match n.toNat? with
    | some n => if n ≤ items.length then (s, sameDispatch (items.take n) (items.drop n)) else (s, "bad-op")
    | none => (s, "bad-op")
  | other => H13.httpStep s other

end CV.Drv.HPipe

namespace CV.Drv

def httppipeMachine : Machine := ⟨H13.HttpSt, {}, HPipe.pipeStep⟩

end CV.Drv

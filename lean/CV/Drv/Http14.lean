import CV.Drv.Http
import CV.Drv.HttpResp
import CV.Model.HttpServerErr
/-
Line protocol of the C14 model (`http14`).

  lex1 / lexh / lexc / lexp ...          the lexer tables of C13 (delegated to CV.Drv.H13.httpStep)
  exn1 <line>                            first-line leaf raises (not InvalidRequestLine)
  exnh <block>                           header leaf raises (not InvalidHeader)
  exn4 <line>                            Request(..) of the 400 answer raises
  exnr <line> <block|~>                  Request(.., headers=..) raises
  head <line>                            the method of this first line is HEAD
  sread <secure01> <sock> <data> <beh>   beh = ok0 | ok1 | raise:<code>
        -> <out> | <#buffers> <#clients> <in-buffers01> <in-clients01> <closing01>
           out = wait | late | closeonly | reject <exit> <code> <head01> <v11 01> <fl|~> <hb|~>
               | dispatch <fl> <hb|~> <body> <head01> <v11 01> app0|app1|err:<code>
  disc <sock>                            -> gone | <#buffers> <#clients> <in-buffers01> <in-clients01> <closing01>
  wire <head01> <v11 01> <code> <reason> <page> <hdr>*     hdr = <name-hex>=<value-hex>
        -> the model's write/close events of an error response:  w:<hex> ... c
  one <head01> <code> <closed01> <after01> <bytes>        spec predicate `oneResponse` on observed bytes
        -> ok | fail <clause>
-/
namespace CV.Drv.H14
open CV.Http CV.Http14 CV.Drv

structure St where
  h : H13.HttpSt := {}
  fe : List Bytes := []
  he : List Bytes := []
  r4 : List Bytes := []
  re : List (Bytes × Option Bytes) := []
  hd : List Bytes := []
  w : World := {}

def lexE (s : St) : LexE where
  lex := H13.lexOf s.h
  firstExn l := s.fe.contains l
  hdrsExn b := s.he.contains b
  req400Exn l := s.r4.contains l
  reqExn l b := s.re.contains (l, b)
  isHead l := s.hd.contains l

def behOf (t : String) : Option Beh :=
  if t == "ok0" then some (.ok false)
  else if t == "ok1" then some (.ok true)
  else match t.splitOn ":" with
    | ["raise", c] => c.toNat?.map .raise
    | _ => none

def showExit : Exit → String
  | .badFirst => "badfirst"
  | .badHeader => "badheader"
  | .version => "version"
  | .noHost => "nohost"
  | .redirect => "redirect"
  | .exn => "exn"

def showAnswer : Answer → String
  | .app false => "app0"
  | .app true => "app1"
  | .error c => s!"err:{c}"

def showOut : Http14.Out → String
  | .wait => "wait"
  | .late => "late"
  | .closeOnly => "closeonly"
  | .reject e rq fl hb =>
    s!"reject {showExit e} {e.code} {H13.bit rq.isHead} {H13.bit rq.v11} {H13.showOptHex fl} {H13.showOptHex hb}"
  | .dispatch fl hb body rq a =>
    s!"dispatch {toHex fl} {H13.showOptHex hb} {toHex body} {H13.bit rq.isHead} {H13.bit rq.v11} {showAnswer a}"

def showWorld (w : World) (sock : Nat) : String :=
  s!"{w.t.buffers.length} {w.t.clients.length} {H13.bit (w.t.buffers.lookup sock).isSome} " ++
  s!"{H13.bit (w.t.clients.lookup sock).isSome} {H13.bit (w.closing.contains sock)}"

def showOne : OneVerdict → String
  | .ok => "ok"
  | .fail c => s!"fail {c}"

def step14 (s : St) : List String → St × String
  | ["exn1", l] =>
    match fromHex l with
    | some l => ({ s with fe := l :: s.fe }, "ok")
    | none => (s, "bad-op")
  | ["exnh", b] =>
    match fromHex b with
    | some b => ({ s with he := b :: s.he }, "ok")
    | none => (s, "bad-op")
  | ["exn4", l] =>
    match fromHex l with
    | some l => ({ s with r4 := l :: s.r4 }, "ok")
    | none => (s, "bad-op")
  | ["exnr", l, b] =>
    match fromHex l, H13.optHex b with
    | some l, some b => ({ s with re := (l, b) :: s.re }, "ok")
    | _, _ => (s, "bad-op")
  | ["head", l] =>
    match fromHex l with
    | some l => ({ s with hd := l :: s.hd }, "ok")
    | none => (s, "bad-op")
  | ["sread", sec, sock, d, beh] =>
    match H13.bitOf sec, sock.toNat?, fromHex d, behOf beh with
    | some sec, some sock, some d, some beh =>
      if d.isEmpty then (s, "bad-op")
      else
        let (w, o) := step (lexE s) sec s.w (.read sock d beh)
        ({ s with w := w }, s!"{match o with | some o => showOut o | none => "gone"} | {showWorld w sock}")
    | _, _, _, _ => (s, "bad-op")
  | ["disc", sock] =>
    match sock.toNat? with
    | some sock =>
      let (w, _) := step (lexE s) false s.w (.disconnect sock)
      ({ s with w := w }, s!"gone | {showWorld w sock}")
    | none => (s, "bad-op")
  | "wire" :: h :: v :: code :: reason :: page :: hdrs =>
    match H13.bitOf h, H13.bitOf v, code.toNat?, fromHex reason, fromHex page, hdrs.mapM parseHdr with
    | some h, some v, some code, some reason, some page, some hs =>
      if hs.any (fun x => framingNames.contains x.1) then (s, "bad-op")
      else
        let env : Env := { reason := fun _ => reason, hdrs := fun _ _ _ => hs, page := fun _ _ _ => page }
        let as := HttpResp.respond ⟨h, v, true⟩ (errResp env code none none)
        (s, " ".intercalate (as.map showAct))
    | _, _, _, _, _, _ => (s, "bad-op")
  | ["one", h, code, cl, af, bs] =>
    match H13.bitOf h, code.toNat?, H13.bitOf cl, H13.bitOf af, fromHex bs with
    | some h, some code, some cl, some af, some bs => (s, showOne (oneResponse h code bs cl af))
    | _, _, _, _, _ => (s, "bad-op")
  | ts =>
    match ts with
    | op :: _ =>
      if op == "lex1" || op == "lexh" || op == "lexc" || op == "lexp" then
        let (h, a) := H13.httpStep s.h ts
        ({ s with h := h }, a)
      else (s, "bad-op")
    | [] => (s, "bad-op")

end CV.Drv.H14

namespace CV.Drv

def http14Machine : Machine := ⟨H14.St, {}, H14.step14⟩

end CV.Drv

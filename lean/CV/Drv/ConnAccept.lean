import CV.Drv.Conn
import CV.Model.ConnAccept
/-
Line protocol of the connection model with the listening socket (machine `connaccept`).

  kind select|poll|epoll        fresh extended server model + fresh spec observer                     -> ok
  start                         the server is registered with the poller (`addReader(listening socket)`)
  lr sock o f 0|1               `_read(listening socket)`; accept() returned object o with number f; 1 = peer already reset
  lr errno NAME                 `_read(listening socket)`; accept() raised NAME (EAGAIN EWOULDBLOCK EPERM EMFILE ENOBUFS
                                ENFILE ENOMEM ECONNABORTED, anything else = OTHER)
  lc                            `_close(listening socket)` (`close(sock)` / `_disconnect(sock)` event naming it)
  ca | st                       server-wide `close()` / `stopped`
  rd o R                        `_read(o)` for a pool socket whose recv answers R (hex | eof | again | err)
  acc/wr/cl/hu/po …             as in machine `conn`
        each answered by the observations of the op as in `conn`, followed by the listening socket's view
        `L=<row>,<disconnect events for it so far>,<re-raised accept errors so far>`             (or `bad-op`)
  spec <observations>           as in machine `conn`                                              -> ok | fail <clause>
-/
namespace CV.Drv
namespace C12A
open CV.Conn

structure St where
  a : Conn.AState := Conn.AState.init .select
  σ : Conn.Spec := {}

def parseErrno : String → Errno
  | "EAGAIN" => .eagain
  | "EWOULDBLOCK" => .ewouldblock
  | "EPERM" => .eperm
  | "EMFILE" => .emfile
  | "ENOBUFS" => .enobufs
  | "ENFILE" => .enfile
  | "ENOMEM" => .enomem
  | "ECONNABORTED" => .econnaborted
  | _ => .other

/-- only number `f` has input -/
def rdOnly (f : Nat) : Nat → Poller.Bits := fun g => if g == f then ⟨true, false, false, false⟩ else ⟨false, false, false, false⟩

def parseAOp (a : AState) : List String → Option AOp
  | ["start"] => some .start
  | ["lr", "sock", o, f, g] => do
    let g ← g.toNat?
    if g > 1 then none else pure (.lready (.sock (← o.toNat?) (← f.toNat?) (g == 1)))
  | ["lr", "errno", e] => some (.lready (.errno (parseErrno e)))
  | ["lc"] => some .lclose
  | ["ca"] => some (.x .closeAll)
  | ["st"] => some (.x .stop)
  | ["rd", o, r] => do
    let o ← o.toNat?
    let r ← C12.parseRecv r
    match a.c.p.w.fno o with
      | some f => pure (.x (.op (.poll [f] (rdOnly f) (fun _ => r) (fun _ => .again))))
      | none => pure (.x (.op (.poll [] (fun _ => ⟨false, false, false, false⟩) (fun _ => r) (fun _ => .again))))
  | ts => (C12.parseOp ts).map (fun op => .x (.op op))

def showL (a : AState) : String := s!"L={lrow a},{a.ldisc},{a.raised}"

def step (s : St) : List String → St × String
  | ["kind", k] =>
    match kindOf k with
    | some k => ({ a := Conn.AState.init k, σ := {} }, "ok")
    | none => (s, "bad-op")
  | "spec" :: ts =>
    match ts.mapM C12.parseObs with
    | some obs =>
      let (σ', bad) := C12.specGo s.σ obs none
      ({ s with σ := σ' }, match bad with
                           | none => "ok"
                           | some c => s!"fail {c}")
    | none => (s, "bad-op")
  | ts =>
    match parseAOp s.a ts with
    | some op =>
      if Conn.avalid s.a op then
        let r := Conn.astep s.a op
        ({ s with a := r.1 }, C12.showObsList r.2 ++ " " ++ showL r.1)
      else (s, "bad-op")
    | none => (s, "bad-op")

def connAcceptMachine : Machine := ⟨St, {}, step⟩

end C12A
end CV.Drv

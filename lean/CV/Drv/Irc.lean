import CV.Drv.Util
import CV.Model.Irc
import CV.Drv.Line
namespace CV.Drv
open CV.Irc

def optStr (t : String) : Option (Option Str) :=
  if t == "~" then some none else (strFromHex t).map (fun s => some s.toList)

def showStr (s : Str) : String := strToHex (String.ofList s)

def showOpt : Option Str → String
  | none => "~"
  | some s => showStr s

def policyOf : String → Option Policy
  | "legacy" => some Policy.legacy
  | "current" => some Policy.current
  | _ => none

def ircStep (s : Unit) : List String → Unit × String
  | "render" :: pol :: pfx :: cmd :: args =>
    match policyOf pol, optStr pfx, optStr cmd, args.mapM strFromHex with
    | some pol, some pfx, some cmd, some args =>
      match render pol ⟨pfx, cmd, args.map (·.toList)⟩ with
      | some w => (s, showStr w)
      | none => (s, "error")
    | _, _, _, _ => (s, "bad-op")
  | ["parse", l] =>
    match strFromHex l with
    | some l =>
      match parsemsg pyIsSpace l.toList with
      | some (p, c, args) => (s, s!"{showStr p} {showOpt c} | {" ".intercalate (args.map showStr)}")
      | none => (s, "error")
    | none => (s, "bad-op")
  -- constructor table: construct <NAME> <arg|~>*  ->  the message it must build
  | "construct" :: name :: args =>
    match strFromHex name, args.mapM optStr with
    | some name, some args =>
      let m := construct name.toList args
      (s, s!"{showOpt m.pfx} {showOpt m.command} | {" ".intercalate (m.args.map showStr)}")
    | _, _ => (s, "bad-op")
  -- crender <policy> <NAME> <arg|~>* : render (construct …)
  | "crender" :: pol :: name :: args =>
    match policyOf pol, strFromHex name, args.mapM optStr with
    | some pol, some name, some args =>
      match render pol (construct name.toList args) with
      | some w => (s, showStr w)
      | none => (s, "error")
    | _, _, _ => (s, "bad-op")
  -- round-trip spec on implementation output:
  --   rtspec <pfx|~> <cmd|~> <arg>* | <parsed raw prefix> <parsed cmd|~> <parsed arg>*
  | "rtspec" :: pfx :: cmd :: rest =>
    let (args, parsed) := splitBar rest
    match optStr pfx, optStr cmd, args.mapM strFromHex, parsed with
    | some pfx, some cmd, some args, pp :: pc :: pargs =>
      match strFromHex pp, optStr pc, pargs.mapM strFromHex with
      | some pp, some pc, some pargs =>
        let m : Msg := ⟨pfx, cmd, args.map (·.toList)⟩
        if !wellFormed pyIsSpace m then (s, "ok not-well-formed")
        else if expectedParse m == (pp.toList, pc, pargs.map (·.toList)) then (s, "ok")
        else (s, "fail roundtrip")
      | _, _, _ => (s, "bad-op")
    | _, _, _, _ => (s, "bad-op")
  -- spec on implementation output
  | ["oneline", w] =>
    match strFromHex w with
    | some w => (s, if oneLine w.toList then "ok" else "fail one-line")
    | none => (s, "bad-op")
  | _ => (s, "bad-op")

def ircMachine : Machine := ⟨Unit, (), ircStep⟩

end CV.Drv

import CV.Drv.Util
import CV.Model.Irc
import CV.Model.IrcComp
import CV.Drv.Line
namespace CV.Drv
open CV.Irc

def optStr (t : String) : Option (Option Str) :=
  if t == "~" then some none else (strFromHex t).map (fun s => some s.toList)

def showStr (s : Str) : String := strToHex (String.ofList s)

def showOpt : Option Str → String
  | none => "~"
  | some s => showStr s

def policyOf : String → Option Policy
  | "legacy" => some Policy.legacy
  | "current" => some Policy.current
  | _ => none

def ircStep (s : Unit) : List String → Unit × String
  | "render" :: pol :: pfx :: cmd :: args =>
    match policyOf pol, optStr pfx, optStr cmd, args.mapM strFromHex with
    | some pol, some pfx, some cmd, some args =>
      match render pol ⟨pfx, cmd, args.map (·.toList)⟩ with
      | some w => (s, showStr w)
      | none => (s, "error")
    | _, _, _, _ => (s, "bad-op")
  | ["parse", l] =>
    match strFromHex l with
    | some l =>
      match parsemsg pyIsSpace l.toList with
      | some (p, c, args) => (s, s!"{showStr p} {showOpt c} | {" ".intercalate (args.map showStr)}")
      | none => (s, "error")
    | none => (s, "bad-op")
  -- constructor table: construct <NAME> <arg|~>*  ->  the message it must build
  | "construct" :: name :: args =>
    match strFromHex name, args.mapM optStr with
    | some name, some args =>
      let m := construct name.toList args
      (s, s!"{showOpt m.pfx} {showOpt m.command} | {" ".intercalate (m.args.map showStr)}")
    | _, _ => (s, "bad-op")
  -- crender <policy> <NAME> <arg|~>* : render (construct …)
  | "crender" :: pol :: name :: args =>
    match policyOf pol, strFromHex name, args.mapM optStr with
    | some pol, some name, some args =>
      match render pol (construct name.toList args) with
      | some w => (s, showStr w)
      | none => (s, "error")
    | _, _, _ => (s, "bad-op")
  -- round-trip spec on implementation output:
  --   rtspec <pfx|~> <cmd|~> <arg>* | <parsed raw prefix> <parsed cmd|~> <parsed arg>*
  | "rtspec" :: pfx :: cmd :: rest =>
    let (args, parsed) := splitBar rest
    match optStr pfx, optStr cmd, args.mapM strFromHex, parsed with
    | some pfx, some cmd, some args, pp :: pc :: pargs =>
      match strFromHex pp, optStr pc, pargs.mapM strFromHex with
      | some pp, some pc, some pargs =>
        let m : Msg := ⟨pfx, cmd, args.map (·.toList)⟩
        if !wellFormed pyIsSpace m then (s, "ok not-well-formed")
        else if expectedParse m == (pp.toList, pc, pargs.map (·.toList)) then (s, "ok")
        else (s, "fail roundtrip")
      | _, _, _ => (s, "bad-op")
    | _, _, _, _ => (s, "bad-op")
  -- spec on implementation output
  | ["oneline", w] =>
    match strFromHex w with
    | some w => (s, if oneLine w.toList then "ok" else "fail one-line")
    | none => (s, "bad-op")
  | _ => (s, "bad-op")

/-! ### the component (IRC stacked on Line), `strip`, `parseprefix`, `from_string` -/

structure IrcSt where
  buf : Bytes := []
  bufs : CV.Line.Bufs := []

def showP3 (p : Prefix3) : String := s!"{showOpt p.1} {showOpt p.2.1} {showOpt p.2.2}"

def showNatOpt : Option Nat → String
  | none => "~"
  | some n => toString n

def showResp : Option Resp → String
  | none => "err"
  | some r =>
    s!"resp {showStr r.name} {showNatOpt r.sock} {showP3 r.pfx} {showNatOpt r.num} | {" ".intercalate (r.args.map showStr)}"

def showComp (b : Bytes) (outs : List (Option Resp)) (ws : List Bytes) : String :=
  " ; ".intercalate (toHex b :: outs.map showResp ++ ws.map (fun w => s!"write {toHex w}"))

def natOpt (t : String) : Option (Option Nat) :=
  if t == "~" then some none else t.toNat?.map some

def parseP3 : List String → Option Prefix3
  | [a, b, c] =>
    match optStr a, optStr b, optStr c with
    | some a, some b, some c => some (a, b, c)
    | _, _, _ => none
  | _ => none

def ircStep2 (s : IrcSt) : List String → IrcSt × String
  -- cread <sock|~> <hex bytes> : one read event through Line + IRC
  | ["cread", k, d] =>
    match natOpt k, fromHex d with
    | some none, some d =>
      let (b, outs, ws) := compRead s.buf d
      ({ s with buf := b }, showComp b outs ws)
    | some (some k), some d =>
      let (bs, outs, ws) := compServerRead s.bufs k d
      ({ s with bufs := bs }, showComp (CV.Line.getBuf bs k) outs ws)
    | _, _ => (s, "bad-op")
  -- creq <pfx|~> <cmd|~> <arg>* : IRC.request(Message)
  | "creq" :: pfx :: cmd :: args =>
    match optStr pfx, optStr cmd, args.mapM strFromHex with
    | some pfx, some cmd, some args =>
      match requestBytes ⟨pfx, cmd, args.map (·.toList)⟩ with
      | some w => (s, s!"write {toHex w}")
      | none => (s, "error")
    | _, _, _ => (s, "bad-op")
  | ["fromstr", b] =>
    match fromHex b with
    | some b =>
      match fromString b with
      | some m => (s, s!"{showOpt m.pfx} {showOpt m.command} | {" ".intercalate (m.args.map showStr)}")
      | none => (s, "error")
    | none => (s, "bad-op")
  | ["strip", col, t] =>
    match col, strFromHex t with
    | "0", some t => (s, showStr (strip pyIsDigit false t.toList))
    | "1", some t => (s, showStr (strip pyIsDigit true t.toList))
    | _, _ => (s, "bad-op")
  | ["pprefix", t] =>
    match strFromHex t with
    | some t => (s, showP3 (parsePrefix t.toList))
    | none => (s, "bad-op")
  | ["decode", b] =>
    match fromHex b with
    | some b => (s, showStr (decodeUtf8 b))
    | none => (s, "bad-op")
  | ["pyint", t] =>
    match strFromHex t with
    | some t => (s, showNatOpt (pyInt t.toList))
    | none => (s, "bad-op")
  -- parameter tables
  | ["ndtable"] => (s, showNats ndStarts)
  | ["isspace", n] =>
    match n.toNat? with
    | some n => (s, if pyIsSpace (Char.ofNat n) then "1" else "0")
    | none => (s, "bad-op")
  -- spec on implementation output (component round trip):
  --   comprt <sock|~> <pfx|~> <cmd|~> <arg>* | <name> <n|~> <u|~> <h|~> <num|~> <parg>*     (observed response)
  --   comprt <sock|~> <pfx|~> <cmd|~> <arg>* | none                                          (nothing / failure observed)
  | "comprt" :: k :: pfx :: cmd :: rest =>
    let (args, obs) := splitBar rest
    match natOpt k, optStr pfx, optStr cmd, args.mapM strFromHex with
    | some k, some pfx, some cmd, some args =>
      let m : Msg := ⟨pfx, cmd, args.map (·.toList)⟩
      if !wellFormed pyIsSpace m then (s, "ok not-well-formed")
      else match expectedResp k m with
        | none => (s, "ok no-event-expected")
        | some e =>
          match obs with
          | ["none"] => (s, "fail no-response")
          | name :: a :: b :: c :: num :: pargs =>
            match strFromHex name, parseP3 [a, b, c], natOpt num, pargs.mapM strFromHex with
            | some name, some p3, some num, some pargs =>
              let o : Resp := ⟨name.toList, k, p3, num, pargs.map (·.toList)⟩
              if o = e then (s, "ok")
              else if o.name != e.name || o.num != e.num then (s, "fail command")
              else if o.pfx != e.pfx then (s, "fail prefix")
              else (s, "fail args")
            | _, _, _, _ => (s, "bad-op")
          | _ => (s, "bad-op")
    | _, _, _, _ => (s, "bad-op")
  | op => (s, (ircStep () op).2)

def ircMachine : Machine := ⟨IrcSt, {}, ircStep2⟩

end CV.Drv

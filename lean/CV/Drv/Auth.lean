import CV.Drv.Util
import CV.Model.Md5
import CV.Model.AuthSpec
/-
Line protocol of the C20 authentication model (`cvdriver auth`).  All strings are hex of
their UTF-8 text, `-` = empty, `~` = None / not applicable, `!` = the leaf raised.

  auth <legacy|current> <enc> <realm> <method> <hdr|~> <b64> <kv> <user,pw>*
        -> check=<out> basic=<front> digest=<front>
  spec <enc> <realm> <method> <hdr|~> <b64> <kv> <granted 0|1> <login|~> <user,pw>*
        -> ok | fail bypass | fail valid-credentials-refused      (spec on impl observations)
  md5 <hex bytes>            -> hexdigest (validates the H instantiation)
  required <field>*          -> ok | fail   (the code's required-field list = the model's)

  <b64> = hex of base64.decodebytes(params) | ! | ~        <kv> = k,v;k,v… | = (empty) | ! | ~
-/
namespace CV.Drv.C20
open CV.Drv CV.Auth

def str? (t : String) : Option Str := (strFromHex t).map String.toList

def optStr? (t : String) : Option (Option Str) :=
  if t == "~" then some none else (str? t).map some

def showStr (s : Str) : String := strToHex (String.ofList s)

def pair? (t : String) : Option (Str × Str) :=
  match t.splitOn "," with
  | [a, b] => do
    let a ← str? a
    let b ← str? b
    pure (a, b)
  | _ => none

/-- outcome of a leaf: outer none = malformed token -/
def b64? (t : String) : Option (Option Bytes) :=
  if t == "!" || t == "~" then some none else (fromHex t).map some

def kv? (t : String) : Option (Option KV) :=
  if t == "!" || t == "~" then some none
  else if t == "=" then some (some [])
  else ((t.splitOn ";").mapM pair?).map some

def enc? : String → Option Enc
  | "dflt" => some .dflt
  | "ident" => some .ident
  | "hash1" => some .hash1
  | "hash2" => some .hash2
  | _ => none

def pol? : String → Option Policy
  | "legacy" => some Policy.legacy
  | "current" => some Policy.current
  | _ => none

def utf8dec (bs : Bytes) : Option Str :=
  (String.fromUTF8? (ByteArray.mk bs.toArray)).map String.toList

def leaves (b : Option Bytes) (k : Option KV) : Leaves :=
  { H := CV.Md5.hexOfStr, b64 := fun _ => b, utf8 := utf8dec, kv := fun _ => k }

def showOut : Out → String
  | .ok u => s!"ok:{showStr u}"
  | .refused => "refused"
  | .noHeader => "noheader"
  | .errObj => "errobj"
  | .raised => "raised"

def showFront : Front → String
  | .letThrough => "let"
  | .unauthorized => "unauth"
  | .raised => "raised"

def authStep (s : Unit) : List String → Unit × String
  | "auth" :: pol :: enc :: realm :: method :: hdr :: b :: k :: users =>
    match pol? pol, enc? enc, str? realm, str? method, optStr? hdr, b64? b, kv? k, users.mapM pair? with
    | some pol, some enc, some realm, some method, some hdr, some b, some k, some users =>
      let L := leaves b k
      let c := checkAuth pol L enc realm method users hdr
      let ba := basicAuth pol L enc realm method users hdr
      let da := digestAuth pol L realm method users hdr
      (s, s!"check={showOut c} basic={showFront ba} digest={showFront da}")
    | _, _, _, _, _, _, _, _ => (s, "bad-op")
  | "spec" :: enc :: realm :: method :: hdr :: b :: k :: granted :: login :: users =>
    match enc? enc, str? realm, str? method, optStr? hdr, b64? b, kv? k, optStr? login, users.mapM pair? with
    | some enc, some realm, some method, some hdr, some b, some k, some login, some users =>
      if granted != "0" && granted != "1" then (s, "bad-op")
      else
        let L := leaves b k
        if !(soundOn L enc realm method users hdr (granted == "1")) then (s, "fail bypass")
        else if !(completeOn L enc realm method users hdr login) then (s, "fail valid-credentials-refused")
        else (s, "ok")
    | _, _, _, _, _, _, _, _ => (s, "bad-op")
  | ["md5", d] =>
    match fromHex d with
    | some d => (s, String.ofList (CV.Md5.hexdigest d))
    | none => (s, "bad-op")
  | "required" :: fields =>
    match fields.mapM strFromHex with
    | some fs => (s, if fs == required then "ok" else "fail")
    | none => (s, "bad-op")
  | _ => (s, "bad-op")

def authMachine : Machine := ⟨Unit, (), authStep⟩

end CV.Drv.C20

import CV.Drv.Util
import CV.Model.Md5
import CV.Model.AuthSpec
import CV.Model.AuthLeaves
import CV.Model.AuthTable
/-
Line protocol of the C20 authentication model (`cvdriver auth`).  All strings are hex of
their UTF-8 text, `-` = empty, `~` = None / not applicable, `!` = the leaf raised.

  auth <legacy|current> <enc> <realm> <method> <hdr|~> <b64> <kv> <user,pw>*
        -> check=<out> basic=<front> digest=<front>
  spec <enc> <realm> <method> <hdr|~> <b64> <kv> <granted 0|1> <login|~> <user,pw>*
        -> ok | fail bypass | fail valid-credentials-refused      (spec on impl observations)
  md5 <hex bytes>            -> hexdigest (validates the H instantiation)
  required <field>*          -> ok | fail   (the code's required-field list = the model's)

  <b64> = hex of base64.decodebytes(params) | ! | ~        <kv> = k,v;k,v… | = (empty) | ! | ~

The leaves inside the model (CV/Model/AuthLeaves.lean), each compared with the real stdlib function:
  a2b <hex bytes>            -> hex | !          binascii.a2b_base64 / base64.decodebytes
  leafb64 <str>              -> hex | !          base64.decodebytes(params.encode('utf-8'))
  b64enc <hex bytes>         -> hex              base64.b64encode
  utf8dec <hex bytes>        -> cp <n>* | !      bytes.decode('utf-8'), as code points
  utf8enc <n>*               -> hex              ''.join(map(chr, ns)).encode('utf-8')
  strip <str>                -> str              str.strip()
  httplist <str>             -> part,part… | =   parse_http_list
  kv <str>                   -> <kv>             parse_keqv_list(parse_http_list(s))
  spaces <n>*                -> ok | fail <n>    {n | chr(n).isspace()} == the model's isSpace (all code points)
  authc <legacy|current> <enc> <realm> <method> <hdr|~> <user,pw>*       as `auth`, under concreteLeaves
  specc <enc> <realm> <method> <hdr|~> <granted 0|1> <login|~> <user,pw>*  as `spec`, under concreteLeaves
  basichdr <user> <pass>     -> str              the Basic client's header
  clienthdr <user> <realm> <nonce> <uri> <~|0|1> <~|nc,cnonce> <password> <method> -> str | notok
                                                 the RFC 2617 Digest client's header
Every shape of user table, per call (CV/Model/AuthTable.lean).  <ans> = what the table yields during one call:
  dict <user,pw>* | byname <~|!> <user,pw|user,~|user,!>* (first token: answer for unlisted names) | nondict | raises
  seqt <leaf|conc> <method> <hdr|~> <b64> <kv> <login0: unset|no|hex> ( / <check|basic|digest> <enc> <realm> <ans> )*
        -> one `<check=<out>|front=<front>>:<unset|no|user=hex>` per call: `runCalls` on ONE request; the table of every
           call is `callAny` of the listed answers, so call i sees the i-th answer
  spect <leaf|conc> <enc> <realm> <method> <hdr|~> <b64> <kv> <granted 0|1> <login|~> <ans>
        -> ok | fail bypass | fail valid-credentials-refused     (`soundOnA` / `completeOnA` on an observed call)
-/
namespace CV.Drv.C20
open CV.Drv CV.Auth

def str? (t : String) : Option Str := (strFromHex t).map String.toList

def optStr? (t : String) : Option (Option Str) :=
  if t == "~" then some none else (str? t).map some

def showStr (s : Str) : String := strToHex (String.ofList s)

def pair? (t : String) : Option (Str × Str) :=
  match t.splitOn "," with
  | [a, b] => do
    let a ← str? a
    let b ← str? b
    pure (a, b)
  | _ => none

/-- outcome of a leaf: outer none = malformed token -/
def b64? (t : String) : Option (Option Bytes) :=
  if t == "!" || t == "~" then some none else (fromHex t).map some

def kv? (t : String) : Option (Option KV) :=
  if t == "!" || t == "~" then some none
  else if t == "=" then some (some [])
  else ((t.splitOn ";").mapM pair?).map some

def enc? : String → Option Enc
  | "dflt" => some .dflt
  | "ident" => some .ident
  | "hash1" => some .hash1
  | "hash2" => some .hash2
  | _ => none

def pol? : String → Option Policy
  | "legacy" => some Policy.legacy
  | "current" => some Policy.current
  | _ => none

def utf8dec (bs : Bytes) : Option Str :=
  (String.fromUTF8? (ByteArray.mk bs.toArray)).map String.toList

def leaves (b : Option Bytes) (k : Option KV) : Leaves :=
  { H := CV.Md5.hexOfStr, b64 := fun _ => b, utf8 := utf8dec, kv := fun _ => k }

def showOut : Out → String
  | .ok u => s!"ok:{showStr u}"
  | .refused => "refused"
  | .noHeader => "noheader"
  | .errObj => "errobj"
  | .raised => "raised"

def showFront : Front → String
  | .letThrough => "let"
  | .unauthorized => "unauth"
  | .raised => "raised"

def showOptBytes : Option Bytes → String
  | some b => toHex b
  | none => "!"

def showOptKV : Option KV → String
  | none => "!"
  | some [] => "="
  | some kv => ";".intercalate (kv.map (fun e => s!"{showStr e.1},{showStr e.2}"))

def alg? : String → Option (Option Bool)
  | "~" => some none
  | "0" => some (some false)
  | "1" => some (some true)
  | _ => none

def qop? (t : String) : Option (Option (Str × Str)) :=
  if t == "~" then some none else (pair? t).map some

def nameAns? (t : String) : Option (Str × NameAns) :=
  match t.splitOn "," with
  | [a, b] => do
    let a ← str? a
    if b == "~" then pure (a, .absent)
    else if b == "!" then pure (a, .raises)
    else do
      let b ← str? b
      pure (a, .pw b)
  | _ => none

def ans? : List String → Option Ans
  | "dict" :: users => (users.mapM pair?).map Ans.dict
  | "byname" :: dflt :: entries =>
    match (if dflt == "~" then some NameAns.absent else if dflt == "!" then some NameAns.raises else none),
          entries.mapM nameAns? with
    | some d, some es => some (.byName fun u => (es.lookup u).getD d)
    | _, _ => none
  | ["nondict"] => some .nonDict
  | ["raises"] => some .raises
  | _ => none

def front? : String → Option FrontEnd
  | "check" => some .check
  | "basic" => some .basic
  | "digest" => some .digest
  | _ => none

def login? (t : String) : Option Login :=
  if t == "unset" then some .unset else if t == "no" then some .no else (str? t).map Login.user

def showLogin : Login → String
  | .unset => "unset"
  | .no => "no"
  | .user u => s!"user={showStr u}"

def showObs : CallObs → String
  | .check o => s!"check={showOut o}"
  | .front f => s!"front={showFront f}"

/-- split a token list at the "/" tokens -/
def splitSlash : List String → List (List String)
  | [] => [[]]
  | t :: ts =>
    match splitSlash ts with
    | [] => [[t]]
    | g :: gs => if t == "/" then [] :: g :: gs else (t :: g) :: gs

def call? : List String → Option (FrontEnd × Enc × Str × Ans)
  | f :: e :: r :: a => do
    let f ← front? f
    let e ← enc? e
    let r ← str? r
    let a ← ans? a
    pure (f, e, r, a)
  | _ => none

def leavesSel? (t : String) (b : Option Bytes) (k : Option KV) : Option Leaves :=
  if t == "leaf" then some (leaves b k) else if t == "conc" then some concreteLeaves else none

def tableStep : List String → Option String
  | "seqt" :: sel :: method :: hdr :: b :: k :: lg :: rest =>
    match str? method, optStr? hdr, b64? b, kv? k, login? lg with
    | some method, some hdr, some b, some k, some lg =>
      match leavesSel? sel b k, ((splitSlash rest).drop 1).mapM call? with
      | some L, some cs =>
        if (splitSlash rest).head? != some [] then some "bad-op"
        else
          let answers := cs.map (fun c => c.2.2.2)
          let tbl : Table := .callAny fun i => (answers[i]?).getD .raises
          let calls : List Call := cs.map fun c => ⟨c.1, c.2.1, c.2.2.1, tbl⟩
          let out := runCalls Policy.current L method hdr lg 0 calls
          some (" ".intercalate (out.map fun o => s!"{showObs o.1}:{showLogin o.2}"))
      | _, _ => some "bad-op"
    | _, _, _, _, _ => some "bad-op"
  | "spect" :: sel :: enc :: realm :: method :: hdr :: b :: k :: granted :: login :: a =>
    match enc? enc, str? realm, str? method, optStr? hdr, b64? b, kv? k, optStr? login, ans? a with
    | some enc, some realm, some method, some hdr, some b, some k, some login, some a =>
      match leavesSel? sel b k with
      | some L =>
        if granted != "0" && granted != "1" then some "bad-op"
        else if !(soundOnA L enc realm method a hdr (granted == "1")) then some "fail bypass"
        else if !(completeOnA L enc realm method a hdr login) then some "fail valid-credentials-refused"
        else some "ok"
      | none => some "bad-op"
    | _, _, _, _, _, _, _, _ => some "bad-op"
  | _ => none

def authStep (s : Unit) : List String → Unit × String
  | "auth" :: pol :: enc :: realm :: method :: hdr :: b :: k :: users =>
    match pol? pol, enc? enc, str? realm, str? method, optStr? hdr, b64? b, kv? k, users.mapM pair? with
    | some pol, some enc, some realm, some method, some hdr, some b, some k, some users =>
      let L := leaves b k
      let c := checkAuth pol L enc realm method users hdr
      let ba := basicAuth pol L enc realm method users hdr
      let da := digestAuth pol L realm method users hdr
      (s, s!"check={showOut c} basic={showFront ba} digest={showFront da}")
    | _, _, _, _, _, _, _, _ => (s, "bad-op")
  | "spec" :: enc :: realm :: method :: hdr :: b :: k :: granted :: login :: users =>
    match enc? enc, str? realm, str? method, optStr? hdr, b64? b, kv? k, optStr? login, users.mapM pair? with
    | some enc, some realm, some method, some hdr, some b, some k, some login, some users =>
      if granted != "0" && granted != "1" then (s, "bad-op")
      else
        let L := leaves b k
        if !(soundOn L enc realm method users hdr (granted == "1")) then (s, "fail bypass")
        else if !(completeOn L enc realm method users hdr login) then (s, "fail valid-credentials-refused")
        else (s, "ok")
    | _, _, _, _, _, _, _, _ => (s, "bad-op")
  | ["md5", d] =>
    match fromHex d with
    | some d => (s, String.ofList (CV.Md5.hexdigest d))
    | none => (s, "bad-op")
  | "required" :: fields =>
    match fields.mapM strFromHex with
    | some fs => (s, if fs == required then "ok" else "fail")
    | none => (s, "bad-op")
  | ["a2b", d] =>
    match fromHex d with
    | some d => (s, showOptBytes (a2bBase64 d))
    | none => (s, "bad-op")
  | ["leafb64", t] =>
    match str? t with
    | some t => (s, showOptBytes (concreteLeaves.b64 t))
    | none => (s, "bad-op")
  | ["b64enc", d] =>
    match fromHex d with
    | some d => (s, toHex (b64Encode d))
    | none => (s, "bad-op")
  | ["utf8dec", d] =>
    match fromHex d with
    | some d =>
      match utf8Decode d with
      | some cs => (s, " ".intercalate ("cp" :: cs.map (fun c => toString c.toNat)))
      | none => (s, "!")
    | none => (s, "bad-op")
  | "utf8enc" :: ns =>
    match natList ns with
    | some ns =>
      if ns.all Nat.isValidChar then (s, toHex (utf8Encode (ns.map Char.ofNat))) else (s, "bad-op")
    | none => (s, "bad-op")
  | ["strip", t] =>
    match str? t with
    | some t => (s, showStr (strip t))
    | none => (s, "bad-op")
  | ["httplist", t] =>
    match str? t with
    | some t =>
      let ps := parseHttpList t
      (s, if ps.isEmpty then "=" else ",".intercalate (ps.map showStr))
    | none => (s, "bad-op")
  | ["kv", t] =>
    match str? t with
    | some t => (s, showOptKV (kvLeaf t))
    | none => (s, "bad-op")
  | "spaces" :: ns =>
    match natList ns with
    | some ns =>
      match (List.range 0x110000).find? (fun n => isSpace (Char.ofNat n) != ns.contains n) with
      | none => (s, "ok")
      | some n => (s, s!"fail {n}")
    | none => (s, "bad-op")
  | "authc" :: pol :: enc :: realm :: method :: hdr :: users =>
    match pol? pol, enc? enc, str? realm, str? method, optStr? hdr, users.mapM pair? with
    | some pol, some enc, some realm, some method, some hdr, some users =>
      let L := concreteLeaves
      let c := checkAuth pol L enc realm method users hdr
      let ba := basicAuth pol L enc realm method users hdr
      let da := digestAuth pol L realm method users hdr
      (s, s!"check={showOut c} basic={showFront ba} digest={showFront da}")
    | _, _, _, _, _, _ => (s, "bad-op")
  | "specc" :: enc :: realm :: method :: hdr :: granted :: login :: users =>
    match enc? enc, str? realm, str? method, optStr? hdr, optStr? login, users.mapM pair? with
    | some enc, some realm, some method, some hdr, some login, some users =>
      if granted != "0" && granted != "1" then (s, "bad-op")
      else
        let L := concreteLeaves
        if !(soundOn L enc realm method users hdr (granted == "1")) then (s, "fail bypass")
        else if !(completeOn L enc realm method users hdr login) then (s, "fail valid-credentials-refused")
        else (s, "ok")
    | _, _, _, _, _, _ => (s, "bad-op")
  | ["basichdr", u, p] =>
    match str? u, str? p with
    | some u, some p => (s, showStr (basicHeader u p))
    | _, _ => (s, "bad-op")
  | ["clienthdr", u, realm, nonce, uri, alg, qop, pw, method] =>
    match str? u, str? realm, str? nonce, str? uri, alg? alg, qop? qop, str? pw, str? method with
    | some u, some realm, some nonce, some uri, some alg, some qop, some pw, some method =>
      let c : Client := ⟨u, realm, nonce, uri, alg, qop⟩
      if c.ok then (s, showStr (c.header md5Hex pw method)) else (s, "notok")
    | _, _, _, _, _, _, _, _ => (s, "bad-op")
  | ts =>
    match tableStep ts with
    | some a => (s, a)
    | none => (s, "bad-op")

def authMachine : Machine := ⟨Unit, (), authStep⟩

end CV.Drv.C20

import CV.Model.Basic
/-
Driver utilities: hex coding of byte strings, token parsing, the generic line loop.
Nothing here is part of a model; it is part of the trusted glue (line protocol).
-/
namespace CV

namespace Drv

def hexDigit (n : Nat) : Char :=
  if n < 10 then Char.ofNat (48 + n) else Char.ofNat (87 + n)

def hexOfByte (b : UInt8) : List Char :=
  [hexDigit (b.toNat / 16), hexDigit (b.toNat % 16)]

/-- bytes → lower-case hex; the empty string is written `-` so that it stays a token -/
def toHex (bs : Bytes) : String :=
  if bs.isEmpty then "-" else String.ofList (bs.flatMap hexOfByte)

def hexVal (c : Char) : Option Nat :=
  if '0' ≤ c ∧ c ≤ '9' then some (c.toNat - 48)
  else if 'a' ≤ c ∧ c ≤ 'f' then some (c.toNat - 87)
  else if 'A' ≤ c ∧ c ≤ 'F' then some (c.toNat - 55)
  else none

def fromHexChars : List Char → Option Bytes
  | [] => some []
  | [_] => none
  | a :: b :: rest => do
    let x ← hexVal a
    let y ← hexVal b
    let r ← fromHexChars rest
    pure (UInt8.ofNat (x * 16 + y) :: r)

def fromHex (s : String) : Option Bytes :=
  if s == "-" then some [] else fromHexChars s.toList

/-- hex of the UTF-8 encoding of a string (strings travel hex-encoded as well) -/
def strToHex (s : String) : String := toHex s.toUTF8.toList

def strFromHex (s : String) : Option String := do
  let bs ← fromHex s
  String.fromUTF8? (ByteArray.mk bs.toArray)

def tokens (line : String) : List String :=
  (line.splitOn " ").filter (· ≠ "")

def natList (ts : List String) : Option (List Nat) := ts.mapM (·.toNat?)

def showNats (ns : List Nat) : String := " ".intercalate (ns.map toString)

/-- A line-protocol model: one answer line per op line. -/
structure Machine where
  σ : Type
  init : σ
  step : σ → List String → σ × String

partial def loop (h : IO.FS.Stream) (out : IO.FS.Stream) (m : Machine) (s : m.σ) : IO Unit := do
  let line ← h.getLine
  if line.isEmpty then return ()
  let l := (line.dropEndWhile (fun c => c == '\n' || c == '\r')).toString
  if l == "reset" then
    out.putStrLn "ok"
    loop h out m m.init
  else
    let (s', o) := m.step s (tokens l)
    out.putStrLn o
    loop h out m s'

end Drv
end CV

import Std.Data.HashMap
import CV.Drv.Node
import CV.Model.NodeTwo
/-
Line protocol for the two-party / k-connection composition of the node model (C19):
`cvdriver node2` executes `CV.Node.n2_stepK` (hence `n2_step`, `n2_absorbA/B`, `n2_takeAnswer`,
`n2_resultHandler`) - the very definitions the `once_and_back…` theorems are about.

  excl <hex name>…                         META_EXCLUDE
  know <hex piece> V | R | J <tokens>      oracle json.loads ∘ decode   (as in `node`)
  dknow <hex bytes> <J tokens>             oracle encode ∘ json.dumps   (before the `~` escape)
  conn <j>                                 a new connection (j = number of connections so far)
  fw <j> sa|ra|sb|rb <names…> | <chans…> | <rules…>     firewall of A / B, send / receive
  call <j> <event J>                       one more call client j is going to make
  beh <j> raise | beh <j> ret <A2 value O.. sets>       behaviour of the next handler run on B_j
  step <j> send | dab <n> | ans <id> | dba <n> | poll <id>
        -> `need <hex>` / `needd <J>` (oracle entry missing; nothing executed), or the observation
           of the step: per connection whose world changed `c<j>` followed by
           fire <k> <id J> <event J> | wab <hex> | wba <hex> | resolve <id> <v> <er> |
           yield <id> <values> <er> | aborted, separated by ` ; ` (`nothing` if empty)
  dump <j>                                 residue: todo, bytes in flight, buffers, pending tables, running

the symmetric composition (`ns_step`: both ends of connection 0 originate calls; firewalls = those of `conn 0`,
`sa`/`ra` for end A, `sb`/`rb` for end B):
  scall a|b <event J>                      one more call end A / end B is going to make
  sbeh a|b raise | sbeh a|b ret <A2 value O.. sets>     behaviour of the next handler run on that end
  sstep a|b send | del <n> | ans <id> | poll <id>       the end that acts (del: reads the next <= n bytes of the peer)
        -> need / needd as above, or items `fire a|b <k> <id> <event>` | `w a|b <hex>` (bytes written by that end) |
           `resolve a|b <id> <v> <er>` | `yield a|b <id> <values> <er>` | `blocked a|b` (send firewall) | `aborted`
  sdump                                    residue of both ends
-/
namespace CV.Drv
open CV.Node

structure Conn2 where
  sa : Fw := {}
  ra : Fw := {}
  sb : Fw := {}
  rb : Fw := {}
  beh : List (Option (J × List (String × J))) := []     -- per dispatch on B: value + attributes set, or raise

structure Node2St where
  excl : List String := []
  table : Std.HashMap Bytes PRes := {}
  dtable : Std.HashMap String Bytes := {}
  conns : List Conn2 := []
  worlds : List n2_World := []
  sym : ns_World := {}
  behA : List (Option (J × List (String × J))) := []
  behB : List (Option (J × List (String × J))) := []

def Node2St.parse (s : Node2St) (p : Bytes) : PRes :=
  match s.table[p]? with
  | some r => r
  | none => .valueError

def Node2St.dumps (s : Node2St) (j : J) : Bytes :=
  match s.dtable[showJ j]? with
  | some b => b
  | none => []

/-- handler number k on B: returns its value and leaves the event's attributes plus what it set -/
def behOf (c : Conn2) (k : Nat) (e : Ev) : Option (J × List (String × J)) :=
  match c.beh[k]? with
  | some (some (v, sets)) => some (v, sets.foldl (fun a kv => setAttr a kv.1 kv.2) e.attrs)
  | some none => none
  | none => some (.null, e.attrs)

def Node2St.env (s : Node2St) (j : Nat) : n2_Env :=
  let c := s.conns[j]?.getD {}
  { excl := s.excl, sendOkA := c.sa.ok, recvOkA := c.ra.ok, sendOkB := c.sb.ok, recvOkB := c.rb.ok,
    parse := s.parse, dumps := s.dumps, beh := behOf c }

def parseStep2 : List String → Option n2_Step
  | ["send"] => some .send
  | ["dab", n] => n.toNat?.map .deliverAB
  | ["ans", n] => n.toNat?.map .answer
  | ["dba", n] => n.toNat?.map .deliverBA
  | ["poll", n] => n.toNat?.map .poll
  | _ => none

def writesOf : List Eff → List J
  | [] => []
  | .write p :: r => p :: writesOf r
  | _ :: r => writesOf r

/-- what the step is going to ask the oracles: pieces to parse, trees to dump -/
def needs2 (s : Node2St) (E : n2_Env) (w : n2_World) : n2_Step → List Bytes × List J
  | .send =>
    match w.todo with
    | [] => ([], [])
    | e :: _ => ([], writesOf (send E.cA w.a e false).2)
  | .deliverAB n =>
    let sp := splitD (w.b.buf ++ w.ab.take n)
    let miss := (sp.1 ++ [sp.2]).filter (fun x => !s.table.contains x)
    if miss.isEmpty then ([], writesOf (recv E.cB E.parse w.b (w.ab.take n)).2.1) else (miss, [])
  | .answer n =>
    match n2_takeAnswer E w n with
    | some (_, id, some va) => ([], writesOf [sendResult E.cB id va.1 va.2])
    | _ => ([], [])
  | .deliverBA n =>
    let sp := splitD (w.a.buf ++ w.ba.take n)
    let miss := (sp.1 ++ [sp.2]).filter (fun x => !s.table.contains x)
    if miss.isEmpty then ([], writesOf (recv E.cA E.parse w.a (w.ba.take n)).2.1) else (miss, [])
  | .poll _ => ([], [])

/-- the bytes appended to a stream from which `taken` bytes were read in the same step -/
def appended (old new : Bytes) (taken : Nat) : Bytes := new.drop (old.length - taken)

def showFired (k : Nat) : List (Ev × J) → List String
  | [] => []
  | (e, id) :: r => s!"fire {k} {showJ id} {showJ (evToJ e)}" :: showFired (k + 1) r

/-- what an observer sees of one world in one step -/
def diff2 (w w' : n2_World) (takenAB takenBA : Nat) : List String :=
  let f := showFired w.fired.length (w'.fired.drop w.fired.length)
  let ab := appended w.ab w'.ab takenAB
  let ba := appended w.ba w'.ba takenBA
  let r := (w'.resolved.drop w.resolved.length).map (fun x => s!"resolve {x.1} {showJ x.2.1} {showJ x.2.2}")
  let y := (w'.yielded.drop w.yielded.length).map
    (fun x => s!"yield {x.1} {showJ (.arr x.2.1)} {showJ x.2.2}")
  f ++ (if ab.isEmpty then [] else ["wab " ++ toHex ab]) ++ (if ba.isEmpty then [] else ["wba " ++ toHex ba]) ++
    r ++ y ++ (if w'.aborted && !w.aborted then ["aborted"] else [])

def diffAll (j : Nat) (st : n2_Step) (i : Nat) : List n2_World → List n2_World → List String
  | w :: ws, w' :: ws' =>
    let tAB := match st with | .deliverAB n => if i = j then min n w.ab.length else 0 | _ => 0
    let tBA := match st with | .deliverBA n => if i = j then min n w.ba.length else 0 | _ => 0
    let d := diff2 w w' tAB tBA
    (if d.isEmpty then [] else [s!"c{i} " ++ " ; ".intercalate d]) ++ diffAll j st (i + 1) ws ws'
  | _, _ => []

def showPending (ps : List Pending) : String :=
  showJ (.arr (ps.map (fun p => .arr [.num (toString p.id) (some p.id) (p.id == 0), .bool p.finished,
                                       .arr p.values, p.errors, .obj p.metas])))

def dump2 (w : n2_World) : String :=
  s!"todo {w.todo.length} ab {w.ab.length} ba {w.ba.length} abuf {toHex w.a.buf} bbuf {toHex w.b.buf} " ++
  s!"anid {w.a.nid} bnid {w.b.nid} apending {showPending w.a.pending} bpending {showPending w.b.pending} " ++
  s!"running {showJ (.arr (w.running.map (fun r => r.2.1)))} fired {w.fired.length}"

def setConn (s : Node2St) (j : Nat) (f : Conn2 → Conn2) : Option Node2St :=
  match s.conns[j]? with
  | some c => some { s with conns := s.conns.set j (f c) }
  | none => none


/-! ### the symmetric composition -/

def Node2St.senv (s : Node2St) : ns_Env :=
  { base := { s.env 0 with beh := behOf { beh := s.behB } }, behA := behOf { beh := s.behA } }

def parseSide : String → Option Bool
  | "a" => some false
  | "b" => some true
  | _ => none

def parseOpS : List String → Option ns_Op
  | ["send"] => some .send
  | ["del", n] => n.toNat?.map .deliver
  | ["ans", n] => n.toNat?.map .answer
  | ["poll", n] => n.toNat?.map .poll
  | _ => none

def needsS (s : Node2St) (E : ns_Env) (w : ns_World) (side : Bool) : ns_Op → List Bytes × List J :=
  let c := if side then E.base.cB else E.base.cA
  let me := if side then w.b else w.a
  let peer := if side then w.a else w.b
  let beh := if side then E.base.beh else E.behA
  fun
  | .send =>
    match me.todo with
    | [] => ([], [])
    | e :: _ => ([], writesOf (send c me.p e false).2)
  | .deliver n =>
    let sp := splitD (me.p.buf ++ peer.out.take n)
    let miss := (sp.1 ++ [sp.2]).filter (fun x => !s.table.contains x)
    if miss.isEmpty then ([], writesOf (recv c E.base.parse me.p (peer.out.take n)).2.1) else (miss, [])
  | .answer n =>
    match me.running.find? (fun r => r.2.1.natKey == some n) with
    | some (e, id, k) =>
      match beh k e with
      | some va => ([], writesOf [sendResult c id va.1 va.2])
      | none => ([], [])
    | none => ([], [])
  | .poll _ => ([], [])

def showFiredS (t : String) (k : Nat) : List (Ev × J) → List String
  | [] => []
  | (e, id) :: r => s!"fire {t} {k} {showJ id} {showJ (evToJ e)}" :: showFiredS t (k + 1) r

/-- what an observer sees of one end in one step (`taken` bytes of its stream were read by the peer) -/
def diffSide (t : String) (x x' : ns_Side) (taken : Nat) : List String :=
  let f := showFiredS t x.fired.length (x'.fired.drop x.fired.length)
  let o := appended x.out x'.out taken
  let r := (x'.resolved.drop x.resolved.length).map (fun y => s!"resolve {t} {y.1} {showJ y.2.1} {showJ y.2.2}")
  let y := (x'.yielded.drop x.yielded.length).map (fun y => s!"yield {t} {y.1} {showJ (.arr y.2.1)} {showJ y.2.2}")
  let b := (x'.blocked.drop x.blocked.length).map (fun _ => s!"blocked {t}")
  f ++ (if o.isEmpty then [] else [s!"w {t} " ++ toHex o]) ++ r ++ y ++ b

def dumpSide (t : String) (x : ns_Side) : String :=
  s!"{t}todo {x.todo.length} {t}out {x.out.length} {t}buf {toHex x.p.buf} {t}nid {x.p.nid} " ++
  s!"{t}fired {x.fired.length} {t}blocked {x.blocked.length} {t}pending {showPending x.p.pending} " ++
  s!"{t}running {showJ (.arr (x.running.map (fun r => r.2.1)))}"

def symStep (s : Node2St) : List String → Node2St × String
  | "scall" :: side :: js =>
    match parseSide side, (parseJAll js).bind evOfJ with
    | some false, some e => ({ s with sym := { s.sym with a := { s.sym.a with todo := s.sym.a.todo ++ [e] } } }, "ok")
    | some true, some e => ({ s with sym := { s.sym with b := { s.sym.b with todo := s.sym.b.todo ++ [e] } } }, "ok")
    | _, _ => (s, "bad-op")
  | ["sbeh", side, "raise"] =>
    match parseSide side with
    | some false => ({ s with behA := s.behA ++ [none] }, "ok")
    | some true => ({ s with behB := s.behB ++ [none] }, "ok")
    | none => (s, "bad-op")
  | "sbeh" :: side :: "ret" :: js =>
    match parseSide side, parseJAll js with
    | some false, some (.arr [v, .obj sets]) => ({ s with behA := s.behA ++ [some (v, sets)] }, "ok")
    | some true, some (.arr [v, .obj sets]) => ({ s with behB := s.behB ++ [some (v, sets)] }, "ok")
    | _, _ => (s, "bad-op")
  | "sstep" :: side :: rest =>
    match parseSide side, parseOpS rest with
    | some side, some op =>
      if s.conns.isEmpty then (s, "bad-op") else
      let E := s.senv
      let w := s.sym
      let nd := needsS s E w side op
      match nd.1, nd.2.filter (fun x => !s.dtable.contains (showJ x)) with
      | p :: _, _ => (s, "need " ++ toHex p)
      | [], x :: _ => (s, "needd " ++ showJ x)
      | [], [] =>
        let w' := ns_step E w (side, op)
        let tA := match op with | .deliver n => if side then min n w.a.out.length else 0 | _ => 0
        let tB := match op with | .deliver n => if side then 0 else min n w.b.out.length | _ => 0
        let d := diffSide "a" w.a w'.a tA ++ diffSide "b" w.b w'.b tB ++
          (if w'.aborted && !w.aborted then ["aborted"] else [])
        ({ s with sym := w' }, if d.isEmpty then "nothing" else " ; ".intercalate d)
    | _, _ => (s, "bad-op")
  | ["sdump"] => (s, dumpSide "a" s.sym.a ++ " " ++ dumpSide "b" s.sym.b)
  | _ => (s, "bad-op")

def node2Step (s : Node2St) : List String → Node2St × String
  | "excl" :: names =>
    match hexStrs names with
    | some ns => ({ s with excl := ns }, "ok")
    | none => (s, "bad-op")
  | ["know", piece, "V"] =>
    match fromHex piece with
    | some p => ({ s with table := s.table.insert p .valueError }, "ok")
    | none => (s, "bad-op")
  | ["know", piece, "R"] =>
    match fromHex piece with
    | some p => ({ s with table := s.table.insert p .raised }, "ok")
    | none => (s, "bad-op")
  | "know" :: piece :: "J" :: js =>
    match fromHex piece, parseJAll js with
    | some p, some j => ({ s with table := s.table.insert p (.parsed j) }, "ok")
    | _, _ => (s, "bad-op")
  | "dknow" :: bytes :: js =>
    match fromHex bytes, parseJAll js with
    | some b, some j => ({ s with dtable := s.dtable.insert (showJ j) b }, "ok")
    | _, _ => (s, "bad-op")
  | ["conn", j] =>
    if j.toNat? == some s.conns.length then
      ({ s with conns := s.conns ++ [{}], worlds := s.worlds ++ [n2_init []] }, "ok")
    else (s, "bad-op")
  | "fw" :: j :: side :: rest =>
    let (ns, r1) := splitBar2 rest
    let (cs, rs) := splitBar2 r1
    match j.toNat?, hexStrs ns, hexStrs cs, rs.mapM parseRule with
    | some j, some ns, some cs, some rs =>
      let fw : Fw := ⟨ns, cs, rs⟩
      let upd : Option (Conn2 → Conn2) :=
        if side == "sa" then some (fun c => { c with sa := fw })
        else if side == "ra" then some (fun c => { c with ra := fw })
        else if side == "sb" then some (fun c => { c with sb := fw })
        else if side == "rb" then some (fun c => { c with rb := fw })
        else none
      match upd.bind (setConn s j) with
      | some s' => (s', "ok")
      | none => (s, "bad-op")
    | _, _, _, _ => (s, "bad-op")
  | "call" :: j :: js =>
    match j.toNat?, (parseJAll js).bind evOfJ with
    | some j, some e =>
      match s.worlds[j]? with
      | some w => ({ s with worlds := s.worlds.set j { w with todo := w.todo ++ [e] } }, "ok")
      | none => (s, "bad-op")
    | _, _ => (s, "bad-op")
  | ["beh", j, "raise"] =>
    match j.toNat?.bind (fun j => setConn s j (fun c => { c with beh := c.beh ++ [none] })) with
    | some s' => (s', "ok")
    | none => (s, "bad-op")
  | "beh" :: j :: "ret" :: js =>
    match j.toNat?, parseJAll js with
    | some j, some (.arr [v, .obj sets]) =>
      match setConn s j (fun c => { c with beh := c.beh ++ [some (v, sets)] }) with
      | some s' => (s', "ok")
      | none => (s, "bad-op")
    | _, _ => (s, "bad-op")
  | "step" :: j :: rest =>
    match j.toNat?, parseStep2 rest with
    | some j, some st =>
      match s.worlds[j]? with
      | none => (s, "bad-op")
      | some w =>
        let nd := needs2 s (s.env j) w st
        match nd.1, nd.2.filter (fun x => !s.dtable.contains (showJ x)) with
        | p :: _, _ => (s, "need " ++ toHex p)
        | [], x :: _ => (s, "needd " ++ showJ x)
        | [], [] =>
          let ws' := n2_stepK s.env s.worlds (j, st)
          let d := diffAll j st 0 s.worlds ws'
          ({ s with worlds := ws' }, if d.isEmpty then "nothing" else " || ".intercalate d)
    | _, _ => (s, "bad-op")
  | ["dump", j] =>
    match j.toNat?.bind (fun j => s.worlds[j]?) with
    | some w => (s, dump2 w)
    | none => (s, "bad-op")
  | ops => symStep s ops

def node2Machine : Machine := ⟨Node2St, {}, node2Step⟩

end CV.Drv

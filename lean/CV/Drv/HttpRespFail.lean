import CV.Drv.HttpResp
import CV.Model.HttpRespFail
/-
Line protocol of the C15 failure model (`httprespfail`); the connection state persists until `reset`.

  serve <k|-> <head01> <v11 01> <keep01> <status> <reason-hex> <force01> <sized|iter|stream> <hdr>* | <part-hex>*
        one request whose body iterator raises when asked for piece <k> (`-`: it does not raise)
        -> `<act>* | stale=<01> closed=<01>`      act = w:<hex> | c
  flag  a handler that returned True / False    -> `| stale=<01> closed=<01>` (no acts)
  cut <chunked01> <clen|-> <body-hex> <closed01> <later01> <produced-hex>
        `cutOk` on what the implementation sent after the header block  -> ok | fail
-/
namespace CV.Drv
open CV.HttpResp

def failTail (c : Conn) (as : List Act) : String :=
  " ".intercalate (as.map showAct) ++ s!" | stale={b01 c.stale.isSome} closed={b01 c.closed}"

def optNat : String → Option (Option Nat)
  | "-" => some none
  | t => t.toNat?.map some

def dummyPair : Req × Resp :=
  ({ isHead := false, v11 := true, keep := true },
   { status := 200, reason := [], hdrs := [], body := .sized [], forceClose := false })

def httprespfailStep (c : Conn) : List String → Conn × String
  | "serve" :: k :: h :: v :: kp :: st :: rs :: fc :: kind :: rest =>
    let (hts, pts) := splitAtBar rest
    match optNat k, bool01 h, bool01 v, bool01 kp, st.toNat?, fromHex rs, bool01 fc, hts.mapM parseHdr,
          pts.mapM fromHex with
    | some k, some h, some v, some kp, some st, some rs, some fc, some hs, some ps =>
      let body? : Option Body := match kind with
        | "sized" => some (.sized ps)
        | "iter" => some (.iter ps)
        | "stream" => some (.stream ps)
        | _ => none
      match body? with
      | none => (c, "bad-op")
      | some body =>
        if hs.any (fun x => framingNames.contains x.1) then (c, "bad-op")
        else
          let rq : Req := { isHead := h, v11 := v, keep := kp }
          let r : Resp := { status := st, reason := rs, hdrs := hs, body := body, forceClose := fc }
          let (c', as) := serveMaybe c (rq, r) k
          (c', failTail c' as)
    | _, _, _, _, _, _, _, _, _ => (c, "bad-op")
  | ["flag"] =>
    let (c', as) := serveFlag c dummyPair
    (c', failTail c' as)
  | ["cut", ch, cl, body, closed, later, produced] =>
    match bool01 ch, optNat cl, fromHex body, bool01 closed, bool01 later, fromHex produced with
    | some ch, some cl, some body, some closed, some later, some produced =>
      (c, if CV.HttpSpec.cutOk { clen := cl, chunked := ch, conn := none } body closed later produced
          then "ok" else "fail")
    | _, _, _, _, _, _ => (c, "bad-op")
  | _ => (c, "bad-op")

def httprespfailMachine : Machine := ⟨Conn, Conn.fresh, httprespfailStep⟩

end CV.Drv

"""C01 - see core_mod.SPEC['C01'] (generators, projections) and core_props.oracle_c01 (spec on the implementation)."""
import core_mod


def run(ctx):
    core_mod.run(ctx, 'C01')


def search(ctx):
    core_mod.run(ctx, 'C01')


def replay(ctx, case):
    core_mod.replay(ctx, 'C01', case)

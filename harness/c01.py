"""C01 - see core_mod.SPEC['C01'] (generators, projections) and core_props.oracle_c01 (spec on the implementation);
class layer (handler tables derived from class hierarchies): c01_classes."""
import c01_classes
import core_mod


def run(ctx):
    core_mod.run(ctx, 'C01')
    c01_classes.run(ctx)
    ctx.rule += ('; class layer: random class hierarchies (<=6 classes, 1-3 bases incl. diamonds and refused MROs, '
                 'BaseComponent/Component, explicit / implicit / handler(False) / underscore / data members, name clashes '
                 'across levels, override on/off) built as real classes, created and instantiated in varying orders, '
                 'live tables and delivered sets compared with the Lean derivation')


def search(ctx):
    core_mod.run(ctx, 'C01')
    c01_classes.run(ctx)


def replay(ctx, case):
    if case.get('kind') == 'classes':
        c01_classes.replay(ctx, case)
    else:
        core_mod.replay(ctx, 'C01', case)

"""C08 - see core_mod.SPEC['C08'] (generators, projections) and core_props.oracle_c08 (spec on the implementation)."""
import core_mod


def run(ctx):
    core_mod.run(ctx, 'C08')


def search(ctx):
    core_mod.run(ctx, 'C08')


def replay(ctx, case):
    core_mod.replay(ctx, 'C08', case)

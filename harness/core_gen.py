"""
Random scenario generator for the core machine (see core_dsl.py for the format).
All randomness comes from the rng passed in.  Programs are acyclic: a handler for event
names with maximal level L only fires / calls events of level > L.

feats (set of str): tree, chan, prio, stop, values, flags, cancel, genfire, gen, call, timeout,
                    dynh, flushact, catchall, structural-in-handlers
"""

PRIOS = [-2, -1, -0.5, 0, 0, 0, 0.5, 1, 2]
# handler results; 0 is the falsy-but-not-None result (Value.setValue must treat it like any other)
VALS = [0, 0, 0, 1, 2, 3, 4, 5, 6, 7, 8, 9]


def fix_catch(acts):
    """a handler that catches TimeoutError and reaches its next call()/wait() in the same step (possibly after
    non-yielding acts such as fire) is outside the modelled programs: a plain yield is put in between"""
    out = []
    pending = False
    for a in acts:
        if a[0] in ('call', 'wait'):
            if pending:
                out.append(['yld', None])
            pending = a[3] is not None and bool(a[4])
        elif a[0] == 'yld':
            pending = False
        out.append(a)
    return out


def in_scope(sc):
    """True iff every program of the scenario is one of the modelled programs (see fix_catch)"""
    return all(fix_catch(p) == p for p in sc['progs'])


class Gen:
    def __init__(self, rng, feats, ncomp=None, nnames=None):
        self.rng = rng
        self.f = set(feats)
        self.ncomp = ncomp or rng.randint(1, 4 if 'tree' in self.f else 2)
        self.nnames = nnames or rng.randint(2, 5)
        self.tmpls = []
        self.progs = []
        self.comps = []

    # ---- pieces ------------------------------------------------------------------------
    def chan(self, allow_none=True, allow_inst=True):
        r = self.rng
        opts = []
        if allow_none:
            opts += [None, None]
        if 'chan' in self.f:
            opts += ['*', 'n1', 'n2']
            if allow_inst:
                opts += [f'i{r.randrange(self.ncomp)}']
        if not opts:
            return None
        return r.choice(opts)

    def tmpl(self, name, flags=None):
        r = self.rng
        if flags is None:
            flags = ''
            if 'flags' in self.f:
                flags = ''.join(ch for ch in 'sfcn' if r.random() < 0.35)
        t = {'name': str(name), 'flags': flags, 'sc': None, 'cc': None}
        if 'flags' in self.f and 'chan' in self.f and r.random() < 0.15:
            t['sc'] = [self.chan(False, True) or '*']
        if 'flags' in self.f and 'chan' in self.f and r.random() < 0.1:
            t['cc'] = [self.chan(False, True) or '*']
        self.tmpls.append(t)
        return len(self.tmpls) - 1

    def prio(self):
        return self.rng.choice(PRIOS) if 'prio' in self.f else 0

    def fire_act(self, level):
        r = self.rng
        hi = [n for n in range(1, self.nnames + 1) if n > level]
        if not hi:
            return None
        n = r.choice(hi)
        cancel = 'cancel' in self.f and r.random() < 0.2
        return ['fire', self.tmpl(n), self.chan(), self.prio(), cancel]

    def prog(self, level, owner, inert=False):
        """program of a handler whose highest event name is `level`"""
        r = self.rng
        f = self.f
        acts = []
        if inert:
            if 'values' in f and r.random() < 0.5:
                acts.append(['ret', r.choice(VALS)])
            self.progs.append(acts)
            return len(self.progs) - 1
        make_gen = ('gen' in f or 'call' in f) and r.random() < 0.45
        n = r.randint(0, 4)
        for _ in range(n):
            x = r.random()
            if x < 0.45:
                a = self.fire_act(level)
                if a:
                    acts.append(a)
            elif x < 0.55 and 'stop' in f:
                acts.append(['stopEv'])
            elif x < 0.62 and 'flushact' in f:
                acts.append(['flush'])
            elif x < 0.72 and make_gen:
                acts.append(['yld', r.choice([None, r.choice(VALS)]) if 'values' in f else None])
            elif x < 0.9 and make_gen and 'call' in f:
                hi = [m for m in range(1, self.nnames + 1) if m > level]
                if hi:
                    to = None
                    catch = False
                    if 'timeout' in f and r.random() < 0.5:
                        to = r.choice([0, 1, 2, 5])
                        catch = r.random() < 0.5
                    if r.random() < 0.75:
                        acts.append(['call', self.tmpl(r.choice(hi), flags=None), self.chan(True, True), to, catch])
                    else:
                        acts.append(['wait', str(r.choice(hi)), self.chan(True, False), to, catch])
            elif x < 0.95 and 'structural' in f:
                c = r.randrange(self.ncomp)
                if r.random() < 0.5:
                    acts.append(['unreg', c])
        # a handler that catches TimeoutError and immediately calls/waits again is outside the modelled
        # programs (processTask wraps the new generator in a one-shot generator; see DESIGN C06)
        acts = fix_catch(acts)
        # how the body ends
        if make_gen and not any(a[0] in ('yld', 'call', 'wait') for a in acts):
            acts.insert(r.randint(0, len(acts)), ['yld', r.choice([None, r.choice(VALS)]) if 'values' in f else None])
        if 'values' in f:
            x = r.random()
            if make_gen:
                if x < 0.2:
                    acts.insert(r.randint(0, len(acts)), ['raise', 1] if r.random() < 0.3 else ['raise'])
                elif x < 0.5:
                    acts.append(['yld', r.choice(VALS)])
            else:
                if x < 0.2:
                    acts.insert(r.randint(0, len(acts)), ['raise', 1] if r.random() < 0.3 else ['raise'])
                elif x < 0.6:
                    acts.append(['ret', r.choice(VALS)])
        self.progs.append(acts)
        return len(self.progs) - 1

    def handler(self, ci):
        r = self.rng
        f = self.f
        if 'catchall' in f and r.random() < 0.2:
            ch = r.choice([None, '*', 'n1']) if 'chan' in f else r.choice([None, '*'])
            return {'names': [], 'chan': ch, 'prio': self.prio(), 'prog': self.prog(99, ci, inert=True),
                    'installed': True}
        k = 1 if r.random() < 0.8 else 2
        names = sorted(r.sample(range(1, self.nnames + 1), min(k, self.nnames)))
        return {'names': [str(n) for n in names], 'chan': self.chan(True, True), 'prio': self.prio(),
                'prog': self.prog(max(names), ci), 'installed': True}

    def scenario(self, nops=None):
        r = self.rng
        f = self.f
        for ci in range(self.ncomp):
            chan = r.choice(['*', '*', 'n1', 'n2']) if 'chan' in f else '*'
            hs = [self.handler(ci) for _ in range(r.randint(1, 4))]
            if 'dynh' in f:
                for _ in range(r.randint(0, 2)):
                    h = self.handler(ci)
                    h['installed'] = False
                    hs.append(h)
            self.comps.append({'chan': chan, 'handlers': hs, 'timer': None})
        ops = []
        # initial tree
        attached = [0]
        for c in range(1, self.ncomp):
            if 'tree' not in f or r.random() < 0.8:
                ops.append(['do', c, ['reg', c, r.choice(attached)]])
                attached.append(c)
        nops = nops or r.randint(4, 14)
        hid = 0
        dyn = []
        inst = []
        for ci, c in enumerate(self.comps):
            for h in c['handlers']:
                (inst if h['installed'] else dyn).append(hid)
                hid += 1
            hid += 1  # builtin
        for _ in range(nops):
            x = r.random()
            c = r.randrange(self.ncomp)
            if x < 0.45:
                a = self.fire_act(0)
                ops.append(['do', c, a])
            elif x < 0.7:
                ops.append(['tick', r.choice([0, 0, c])])
            elif x < 0.78 and 'tree' in f:
                ops.append(['do', c, ['unreg', c]])
            elif x < 0.86 and 'tree' in f:
                ops.append(['maybe_reg', c, r.randrange(self.ncomp)])
            elif x < 0.93 and 'dynh' in f and (dyn or inst):
                if dyn and r.random() < 0.6:
                    ops.append(['do', 0, ['addH', r.choice(dyn)]])
                else:
                    h = r.choice(dyn + inst)
                    ops.append(['maybe_rmH', h])
            else:
                ops.append(['flush', r.choice([0, c])])
        for c in range(self.ncomp):
            ops.append(['quiesce', c])
        sc = {'tmpls': self.tmpls, 'progs': self.progs, 'comps': self.comps, 'ops': ops}
        if 'exec' in f:
            sc['setexec'] = [0]
        return sc


def gen_scenario(rng, feats, **kw):
    return Gen(rng, feats, **kw).scenario()


# ------------------------------------------------------------------------------------------
# run()-mode scenarios (C06 timeouts, C08, C09)
# ------------------------------------------------------------------------------------------

def gen_run_scenario(rng, feats, cycles=None):
    """root component 0 is run(); a one-shot 'end' timer (or a generator stopper) guarantees a stop"""
    f = set(feats)
    g = Gen(rng, f | {'gen'} if 'call' in f else f, ncomp=rng.randint(1, 3))
    r = rng
    for ci in range(g.ncomp):
        chan = '*'
        hs = [g.handler(ci) for _ in range(r.randint(1, 3))]
        g.comps.append({'chan': chan, 'handlers': hs, 'timer': None})
    codes = [None, None, 0, 3]
    # the stop placement
    place = r.choice(['started', 'chain', 'genstep', 'stopped-fires', 'stopped-stops', 'timer-only'])

    def stop_act():
        # every stop site draws its own way of stopping and its own exit code: only the first effective one counts
        how = r.choice(['stopMgr', 'stopMgr', 'sysExit', 'kbdInt'])
        code = r.choice(codes + [5, 7])
        if how == 'stopMgr':
            return ['stopMgr', 0, code]
        if how == 'sysExit':
            return ['sysExit', code]
        return ['kbdInt']

    # started handler on the root
    acts = []
    for _ in range(r.randint(0, 3)):
        a = g.fire_act(0)
        if a:
            acts.append(a)
    timers = []
    if 'timers' in f:
        nt = r.randint(1, 4)
        for _ in range(nt):
            timers.append({'interval': r.choice([0, 1, 1, 8, 16, 32, 32, 64]), 'persist': r.random() < 0.5,
                           'tmpl': g.tmpl(r.randint(1, g.nnames), flags=''), 'target': None,
                           'parent': r.randrange(g.ncomp)})
            if 'deadlines' in f and r.random() < 0.3:
                # an absolute datetime deadline (virtual clock tick; 64 ticks = 1 s), also inside a second and in the past
                timers[-1]['deadline'] = r.choice([0, 30, 64, 64, 100, 127, 128, 130, 191, 192])
    # end timer: fires event 'nnames+1' whose handler stops the manager
    endname = g.nnames + 1
    cycles = cycles or r.choice([1, 1, 2])
    end0 = r.choice([4, 40, 100, 200]) if 'timers' in f else r.choice([2, 6])
    if any(t['persist'] and (t['interval'] <= 1 or t.get('deadline') is not None) for t in timers):
        # a persistent timer that is due in every iteration: keep the run (and the model's event table) small
        end0 = min(end0, 40)
    nuser = len(timers)
    for k in range(cycles):
        # one end timer per run() cycle (a one-shot timer unregisters itself after firing)
        timers.append({'interval': end0 + 50 * k, 'persist': False, 'tmpl': g.tmpl(endname, flags=''),
                       'target': None, 'parent': 0})
    for ti in range(len(timers)):
        if ti >= nuser or r.random() < 0.7:
            acts.insert(r.randint(0, len(acts)) if ti < nuser else 0, ['timerNew', ti])
    if place == 'started':
        acts.insert(r.randint(0, len(acts)), stop_act())
    g.progs.append(acts)
    started_prog = len(g.progs) - 1
    g.comps[0]['handlers'].append({'names': ['903'], 'chan': None, 'prio': 0, 'prog': started_prog, 'installed': True})
    g.progs.append([stop_act()] if place != 'genstep' else [['yld', None], ['yld', None], stop_act()])
    g.comps[0]['handlers'].append({'names': [str(endname)], 'chan': None, 'prio': 0, 'prog': len(g.progs) - 1,
                                   'installed': True})
    if place == 'chain':
        # some handler of a user event stops as well (earlier than the end timer)
        victims = [h for c in g.comps for h in c['handlers'] if h['names'] and h['names'][0].isdigit()
                   and int(h['names'][0]) <= g.nnames]
        if victims:
            v = r.choice(victims)
            p = list(g.progs[v['prog']])
            p.insert(r.randint(0, len(p)), stop_act())
            g.progs.append(p)
            v['prog'] = len(g.progs) - 1
    if place == 'stopped-fires':
        p = [a for a in (g.fire_act(0), g.fire_act(0)) if a]
        g.progs.append(p)
        g.comps[0]['handlers'].append({'names': ['904'], 'chan': None, 'prio': 0, 'prog': len(g.progs) - 1,
                                       'installed': True})
    if place == 'stopped-stops':
        # stop() / SystemExit again while the manager is already stopping (from the `stopped` handler), other code
        p = [stop_act()] + [a for a in (g.fire_act(0),) if a]
        g.progs.append(p)
        g.comps[0]['handlers'].append({'names': ['904'], 'chan': None, 'prio': 0, 'prog': len(g.progs) - 1,
                                       'installed': True})
    if 'timers' in f and r.random() < 0.5:
        # a handler that resets / unregisters a timer
        ti = r.randrange(nuser) if nuser > 0 else None
        if ti is not None:
            p = [r.choice([['timerReset', ti], ['unreg', g.ncomp + ti]])]
            g.progs.append(p)
            g.comps[0]['handlers'].append({'names': [str(r.randint(1, g.nnames))], 'chan': None, 'prio': 0,
                                           'prog': len(g.progs) - 1, 'installed': True})
    if g.ncomp > 1 and r.random() < 0.4:
        # stop() addressed to a registered component that was never run itself ("stop() on a manager that is not running has
        # no effect"), while its root is inside run(): from the started handler or from some user handler
        child_stop = ['stopMgr', r.randrange(1, g.ncomp), r.choice(codes + [5])]
        victims = [h for c in g.comps for h in c['handlers'] if h['names'] and h['names'][0].isdigit()
                   and int(h['names'][0]) <= g.nnames]
        if victims and r.random() < 0.6:
            v = r.choice(victims)
            p = list(g.progs[v['prog']])
            p.insert(r.randint(0, len(p)), child_stop)
            g.progs.append(p)
            v['prog'] = len(g.progs) - 1
        else:
            p = list(g.progs[started_prog])
            p.insert(r.randint(0, len(p)), child_stop)
            g.progs[started_prog] = p
    for t in timers:
        g.comps.append({'chan': '*', 'handlers': [], 'timer': t})
    ops = []
    for c in range(1, g.ncomp):
        ops.append(['do', c, ['reg', c, r.randrange(c)]])
    for _ in range(r.randint(0, 2)):
        a = g.fire_act(0)
        if a:
            ops.append(['do', 0, a])
    for _ in range(cycles):
        ops.append(['run', 0])
    if r.random() < 0.3:
        ops.append(['do', 0, ['stopMgr', 0, r.choice(codes)]])      # stop on a manager that is not running
        ops.append(['tick', 0])
    return {'tmpls': g.tmpls, 'progs': g.progs, 'comps': g.comps, 'ops': ops, 'fuel': 4000}


def gen_shared_wait_pattern(rng):
    """C06: several handlers in flight wait for one and the same event (by name), with different timeouts, while the awaited
    event's own generator handlers take several iterations to finish - each waiter gets its own outcome (result or
    TimeoutError) and none of them loses its resumption to what happened to another one"""
    r = rng
    nwait = r.choice([2, 2, 3])
    slow_steps = r.choice([3, 4, 6, 8])
    tmpls, progs = [], []
    # names: 1..nwait = the waiters' events, nwait+1 = the awaited event, nwait+2 = end of the run
    for i in range(nwait):
        tmpls.append({'name': str(i + 1), 'flags': r.choice(['', 's', 'c', 'sc']), 'sc': None, 'cc': None})
    slow = nwait + 1
    tmpls.append({'name': str(slow), 'flags': r.choice(['', '', 's', 'c']), 'sc': None, 'cc': None})
    slow_t = len(tmpls) - 1
    endname = nwait + 2
    tmpls.append({'name': str(endname), 'flags': '', 'sc': None, 'cc': None})
    end_t = len(tmpls) - 1
    handlers = []
    timeouts = [r.choice([0, 1, 2, 3, 5])] + [r.choice([None, None, 1, 2, 3, 5, 8]) for _ in range(nwait - 1)]
    r.shuffle(timeouts)
    for i in range(nwait):
        prog = []
        if r.random() < 0.3:
            prog.append(['yld', r.choice([None, 0, 5])])
        prog.append(['wait', str(slow), None, timeouts[i], False])
        prog.append(['yld', r.choice([0, 1, 7])])
        progs.append(prog)
        handlers.append({'names': [str(i + 1)], 'chan': None, 'prio': r.choice([0, 0, 1]), 'prog': len(progs) - 1, 'installed': True})
    # the awaited event: one or two generator handlers that need several iterations, maybe a plain one as well
    for _ in range(r.choice([1, 1, 2])):
        steps = [['yld', r.choice([None, 2, 3])] for _ in range(slow_steps)]
        if r.random() < 0.2:
            steps.insert(r.randint(1, len(steps)), ['raise'])
        progs.append(steps)
        handlers.append({'names': [str(slow)], 'chan': None, 'prio': 0, 'prog': len(progs) - 1, 'installed': True})
    if r.random() < 0.4:
        progs.append([['ret', 9]])
        handlers.append({'names': [str(slow)], 'chan': None, 'prio': r.choice([0, 2]), 'prog': len(progs) - 1, 'installed': True})
    # started: create the timers, fire the waiters' events
    timers = [{'interval': r.choice([1, 1, 2, 3]), 'persist': False, 'tmpl': slow_t, 'target': None, 'parent': 0},
              {'interval': 60, 'persist': False, 'tmpl': end_t, 'target': None, 'parent': 0}]
    acts = [['timerNew', 1], ['timerNew', 0]] + [['fire', i, None, 0, False] for i in range(nwait)]
    progs.append(acts)
    handlers.append({'names': ['903'], 'chan': None, 'prio': 0, 'prog': len(progs) - 1, 'installed': True})
    progs.append([['stopMgr', 0, None]])
    handlers.append({'names': [str(endname)], 'chan': None, 'prio': 0, 'prog': len(progs) - 1, 'installed': True})
    comps = [{'chan': '*', 'handlers': handlers, 'timer': None}] + [{'chan': '*', 'handlers': [], 'timer': t} for t in timers]
    return {'tmpls': tmpls, 'progs': progs, 'comps': comps, 'ops': [['run', 0]], 'fuel': 4000}


# ------------------------------------------------------------------------------------------
# directed patterns (C01 / C07): "act as root -> become child -> gain descendants or handlers -> detach -> dispatch"
# ------------------------------------------------------------------------------------------

def gen_detach_pattern(rng):
    """a component dispatches as a root (warm cache), is registered elsewhere, its subtree changes while it is
    attached, it is unregistered again and dispatches as a root once more: the live handler set must be used"""
    r = rng
    names = [1, 2]
    tmpls = [{'name': str(n), 'flags': '', 'sc': None, 'cc': None} for n in names]
    progs = [[], [['ret', 5]]]
    ncomp = r.randint(3, 4)
    comps = []
    for ci in range(ncomp):
        hs = []
        for n in names:
            if r.random() < 0.7:
                hs.append({'names': [str(n)], 'chan': None, 'prio': r.choice([0, 0, 1]), 'prog': r.randrange(2),
                           'installed': r.random() < 0.75})
        if not hs:
            hs.append({'names': ['1'], 'chan': None, 'prio': 0, 'prog': 0, 'installed': True})
        comps.append({'chan': '*', 'handlers': hs, 'timer': None})
    hid = 0
    dyn = {}
    for ci, c in enumerate(comps):
        for h in c['handlers']:
            if not h['installed']:
                dyn.setdefault(ci, []).append(hid)
            hid += 1
        hid += 1
    a = 0                      # the component that changes role
    host = 1                   # where it is registered meanwhile
    others = list(range(2, ncomp))
    ops = []

    def fire_and_tick(c):
        for n in r.sample(names, r.randint(1, 2)):
            ops.append(['do', c, ['fire', names.index(n), r.choice([None, '*']), 0, False]])
        ops.append(['quiesce', c])

    if r.random() < 0.8:
        fire_and_tick(a)                      # first life as a root: warms its cache
    ops.append(['maybe_reg', a, host])
    ops.append(['quiesce', host])
    for _ in range(r.randint(1, 3)):           # changes while attached
        x = r.random()
        if x < 0.5 and others:
            ops.append(['maybe_reg', r.choice(others), a])
        elif x < 0.8 and dyn.get(a):
            ops.append(['do', a, ['addH', r.choice(dyn[a])]])
        elif dyn:
            ci = r.choice(list(dyn))
            ops.append(['do', ci, ['addH', r.choice(dyn[ci])]])
        if r.random() < 0.5:
            fire_and_tick(host)
    ops.append(['do', a, ['unreg', a]])
    ops.append(['quiesce', host])
    fire_and_tick(a)                          # second life as a root
    if r.random() < 0.5:
        for o in others:
            if r.random() < 0.5:
                ops.append(['do', o, ['unreg', o]])
                ops.append(['quiesce', a])
                ops.append(['quiesce', host])
        fire_and_tick(a)
    for c in range(ncomp):
        ops.append(['quiesce', c])
    return {'tmpls': tmpls, 'progs': progs, 'comps': comps, 'ops': ops}


def gen_cache_pattern(rng):
    """dispatch (warm cache) -> one handler-table change -> dispatch the same event again: the change must be
    reflected, for named, channel catch-all and global handlers, added or removed, by object or by name"""
    r = rng
    names = [1, 2]
    tmpls = [{'name': str(n), 'flags': '', 'sc': None, 'cc': None} for n in names]
    progs = [[], [['ret', 3]]]
    ncomp = r.randint(1, 3)
    comps = []
    kinds = []
    for ci in range(ncomp):
        hs = []
        for _ in range(r.randint(2, 4)):
            k = r.choice(['named', 'named', 'catchall', 'global', 'multi'])
            if k == 'named':
                h = {'names': [str(r.choice(names))], 'chan': r.choice([None, '*', 'n1'])}
            elif k == 'multi':
                h = {'names': ['1', '2'], 'chan': None}
            elif k == 'catchall':
                h = {'names': [], 'chan': r.choice([None, 'n1'])}
            else:
                h = {'names': [], 'chan': '*'}
            h.update({'prio': r.choice([0, 0, 1]), 'prog': r.randrange(2), 'installed': r.random() < 0.7})
            hs.append(h)
            kinds.append(k)
        comps.append({'chan': r.choice(['*', 'n1']), 'handlers': hs, 'timer': None})
    hid = 0
    inst, dyn, multi = [], [], []
    for ci, c in enumerate(comps):
        for h in c['handlers']:
            (inst if h['installed'] else dyn).append(hid)
            if len(h['names']) > 1:
                multi.append(hid)
            hid += 1
        hid += 1
    ops = []
    for c in range(1, ncomp):
        ops.append(['do', c, ['reg', c, r.randrange(c)]])
    target = r.choice([None, '*', 'n1'])

    def round_():
        for n in r.sample(names, r.randint(1, 2)):
            ops.append(['do', r.randrange(ncomp), ['fire', names.index(n), target, 0, False]])
        ops.append(['quiesce', 0])

    round_()
    multi_inst = [h for h in multi if h in inst]
    if multi_inst and r.random() < 0.35:
        # a removal that fails half-way: the handler was already removed for its second name, removing it as a
        # whole then raises after the first name has been taken out - the cache must not stay as it was
        h = r.choice(multi_inst)
        ops.append(['maybe_rmH', h, '2'])
        round_()
        ops.append(['maybe_rmH', h])
        round_()
        ops.append(['do', r.randrange(ncomp), ['fire', 0, target, 0, False]])
        ops.append(['quiesce', 0])
        return {'tmpls': tmpls, 'progs': progs, 'comps': comps, 'ops': ops}
    for _ in range(r.randint(1, 4)):
        x = r.random()
        if x < 0.45 and inst:
            h = r.choice(inst)
            if h in multi and r.random() < 0.5:
                ops.append(['maybe_rmH', h, r.choice(['1', '2'])])
            else:
                ops.append(['maybe_rmH', h])
        elif dyn:
            h = r.choice(dyn)
            ops.append(['do', 0, ['addH', h]])
            inst.append(h)
        round_()
    return {'tmpls': tmpls, 'progs': progs, 'comps': comps, 'ops': ops}


def gen_multichan_pattern(rng):
    """handler priority order and stop() for an event that is delivered on SEVERAL channels at once: an event with
    success=True and success_channels=(c1, c2[, c3]) makes the dispatcher collect handlers per channel and sort the
    union; handlers for <name>_success sit on the different channels with interleaved priorities, some stop the event"""
    r = rng
    chans = r.sample(['n1', 'n2', 'n3', '*'], r.randint(2, 3))
    nn = r.randint(1, 2)
    tmpls = [{'name': str(n + 1), 'flags': 's', 'sc': list(chans), 'cc': None} for n in range(nn)]
    progs = [[], [['ret', 3]], [['stopEv']], [['stopEv'], ['ret', 5]]]
    ncomp = r.randint(1, 3)
    comps = []
    grid = [-2, -1, -0.5, 0, 0.5, 1, 2]
    for ci in range(ncomp):
        hs = []
        for _ in range(r.randint(2, 5)):
            n = r.randrange(nn) + 1
            k = r.random()
            if k < 0.85:
                names = [f'{n}:2']
            elif k < 0.93:
                names = [str(n)]
            else:
                names = []
            prog = r.choice([0, 1, 1, 1, 1, 1, 1, 2, 3]) if names != [str(n)] else r.choice([0, 1])
            hs.append({'names': names, 'chan': r.choice(chans + chans + [None]), 'prio': r.choice(grid), 'prog': prog,
                       'installed': True})
        comps.append({'chan': r.choice(chans), 'handlers': hs, 'timer': None})
    ops = []
    for c in range(1, ncomp):
        ops.append(['do', c, ['reg', c, r.randrange(c)]])
    ops.append(['quiesce', 0])
    for _ in range(r.randint(1, 3)):
        ops.append(['do', r.randrange(ncomp), ['fire', r.randrange(nn), r.choice([None] + chans), r.choice([0, 0, 1, -1]), False]])
        if r.random() < 0.6:
            ops.append(['quiesce', 0])
    ops.append(['quiesce', 0])
    return {'tmpls': tmpls, 'progs': progs, 'comps': comps, 'ops': ops}


def gen_exc_handler_pattern(rng):
    """handlers of the `exception` event that raise themselves (seed C04-g): "exactly one exception event per raising
    handler" also holds for a handler of an `exception` event - its failure is announced by a further `exception` event
    whose fevent is the first one.  To keep the program finite the raising handler of `exception` removes itself first
    (or there are k of them, each removing itself), so the chain of exception events has length k + 1."""
    r = rng
    tmpls = [{'name': '1', 'flags': r.choice(['', 'f', 's', 'sf']), 'sc': None, 'cc': None},
             {'name': '2', 'flags': '', 'sc': None, 'cc': None}]
    progs = []
    handlers = []

    def add(names, prog, prio=0):
        progs.append(prog)
        handlers.append({'names': names, 'chan': None, 'prio': prio, 'prog': len(progs) - 1, 'installed': True})

    kind = r.choice(['plain', 'plain', 'gen', 'base'])
    if kind == 'plain':
        add(['1'], [['raise']])
    elif kind == 'base':
        add(['1'], [['raise', 1]])
    else:
        add(['1'], [['yld', None]] * r.randint(1, 2) + [['raise']])
    if r.random() < 0.4:
        add(['1'], [['ret', r.choice([0, 3])]], r.choice([-1, 1]))
    k = r.randint(1, 3)
    for _ in range(k):
        hid = len(handlers)
        body = [['rmH', hid, None]]
        if r.random() < 0.3:
            body.append(['fire', 1, None, 0, False])
        body.append(['raise', 1] if r.random() < 0.25 else ['raise'])
        add(['906'], body, r.choice([0, 0, 1, -1]))
    if r.random() < 0.5:
        add(['906'], [['ret', 7]] if r.random() < 0.5 else [], r.choice([0, 2, -2]))
    add(['2'], [])
    comps = [{'chan': '*', 'handlers': handlers, 'timer': None}]
    ops = [['do', 0, ['fire', 0, None, 0, False]], ['quiesce', 0]]
    if r.random() < 0.5:
        ops += [['do', 0, ['fire', 0, None, 0, False]], ['quiesce', 0]]
    return {'tmpls': tmpls, 'progs': progs, 'comps': comps, 'ops': ops}


def gen_stop_pattern(rng):
    """every way of stopping a run() x every kind of place it can be raised from: stop()/stop(code)/SystemExit/
    SystemExit(code)/KeyboardInterrupt in the `started` handler, in a plain handler, in the 1st/2nd/3rd step of a
    generator handler, in the `stopped` handler (while already stopping); one or two run() cycles; events queued
    behind the stop must still be dispatched"""
    r = rng
    code = r.choice([None, 0, 3, 7])
    way = r.choice([['stopMgr', 0, None], ['stopMgr', 0, code], ['sysExit', None], ['sysExit', code], ['kbdInt']])
    where = r.choice(['started', 'plain', 'gen1', 'gen2', 'gen3', 'stopped'])
    tmpls = [{'name': str(n), 'flags': '', 'sc': None, 'cc': None} for n in (1, 2, 3)]
    tail = [['fire', 1, None, r.choice([0, 0, 1, -1]), False] for _ in range(r.randint(0, 2))]   # queued behind the stop
    progs = []
    handlers = []

    def add(names, prog):
        progs.append(prog)
        handlers.append({'names': names, 'chan': None, 'prio': 0, 'prog': len(progs) - 1, 'installed': True})

    first = ['stopMgr', 0, r.choice([None, 5])]
    if where == 'started':
        add(['903'], [['fire', 1, None, 0, False], way] + tail)
    else:
        add(['903'], [['fire', 0, None, 0, False]] + ([['fire', 1, None, 0, False]] if r.random() < 0.5 else []))
    if where == 'plain':
        add(['1'], [way] + tail)
    elif where in ('gen1', 'gen2', 'gen3'):
        k = int(where[3])
        add(['1'], [['yld', None]] * (k - 1) + [way] + tail + ([['yld', 4]] if r.random() < 0.5 else []))
    elif where == 'stopped':
        add(['1'], [first])
        add(['904'], [way] + tail)
    add(['2'], [['ret', 1]] if r.random() < 0.5 else [])
    comps = [{'chan': '*', 'handlers': handlers, 'timer': None}]
    ops = [['run', 0]]
    if r.random() < 0.5:
        ops.append(['run', 0])
    if r.random() < 0.3:
        ops.append(['do', 0, ['stopMgr', 0, r.choice([None, 9])]])
        ops.append(['tick', 0])
    return {'tmpls': tmpls, 'progs': progs, 'comps': comps, 'ops': ops, 'fuel': 4000}

"""
Oracles (spec on the implementation's own log) and the common runner for the core-machine
properties C01, C02, C04-C09.  Every oracle judges only what its property's statement says,
from the implementation log + the side tables the harness records while running the real
code; none of them looks at the model.  Each returns a list of (signature, message).
"""
import json

import core_dsl
import core_gen


def parse(log):
    return [tuple(x.split(' ')) for x in log]


def hinfo(sc):
    """hid -> dict(owner, names, prio, prog acts)"""
    decl, builtin, _ = core_dsl.assign_ids(sc)
    out = {}
    for ci, c in enumerate(sc['comps']):
        for h, hid in zip(c.get('handlers', []), decl[ci]):
            out[hid] = {'owner': ci, 'names': h['names'], 'prio': h.get('prio', 0), 'prog': sc['progs'][h['prog']]}
    return out


def names_of(E):
    """vid -> name token (first fire)"""
    out = {}
    for e in E:
        if e[0] == 'F':
            out.setdefault(int(e[1]), e[2])
    return out


def terminal(prog):
    """what a plain body does: list of acts executed, and how it ends ('raise' | ('ret', v) | None)"""
    for i, a in enumerate(prog):
        if a[0] == 'raise':
            return prog[:i], 'raise'
        if a[0] == 'ret':
            return prog[:i], ('ret', a[1])
        if a[0] in ('sysExit', 'kbdInt'):
            return prog[:i], a[0]
    return prog, None


# ------------------------------------------------------------------------------------------
# C01
# ------------------------------------------------------------------------------------------

def oracle_c01(w):
    out = []
    E = parse(w.log)
    H = hinfo(w.sc)
    for (idx, vid, expected, spec, ename) in w.side['expect']:
        # the I entries of this dispatch: between this D and the end of the handler loop;
        # an event is dispatched once, so all `I vid h 0` after idx belong to it (timers re-fire: skip)
        if id(w.events.get(vid)) in w.fired_twice:
            continue
        got = [int(e[2]) for e in E[idx:] if e[0] == 'I' and int(e[1]) == vid and e[3] == '0']
        if len(got) != len(set(got)):
            out.append(('duplicate-delivery', f'event {vid}: a handler was invoked twice: {got}'))
        gone = sorted(h for h in set(got) if h in H and (h, ename) not in spec and (h, None) not in spec)
        if gone:
            kinds = sorted({'catchall' if not H[h]['names'] else 'named' for h in gone})
            out.append((f'removed-handler-still-called({",".join(kinds)})',
                        f'event {vid}: handlers {gone} ran although removeHandler() had removed them'))
        late = sorted(h for h in H if ((h, ename) in spec or (h, None) in spec) and h in expected and False)
        extra = sorted(set(got) - set(expected))
        if extra:
            kinds = sorted({'catchall' if not H[h]['names'] else 'named' for h in extra if h in H})
            out.append((f'extra-handler({",".join(kinds)})', f'event {vid}: handlers {extra} ran but do not match '
                        f'(expected {expected})'))
        stopped = any(any(a[0] == 'stopEv' for a in terminal(H[h]['prog'])[0]) or
                      any(a[0] in ('sysExit', 'kbdInt', 'stopMgr', 'flush', 'unreg', 'reg', 'rmH', 'addH')
                          for a in H[h]['prog']) for h in got if h in H)
        missing = sorted(set(expected) - set(got))
        if missing and not stopped:
            kinds = sorted({'catchall' if not H[h]['names'] else 'named' for h in missing if h in H})
            out.append((f'missing-handler({",".join(kinds)})', f'event {vid}: matching handlers {missing} were not invoked '
                        f'(invoked {got})'))
    return out


# ------------------------------------------------------------------------------------------
# C02
# ------------------------------------------------------------------------------------------

def oracle_c02(w):
    out = []
    E = parse(w.log)
    H = hinfo(w.sc)
    pending = []
    expected = []
    seq = 0
    for i, e in enumerate(E):
        if e[0] == 'F':
            pending.append((float(e[4]), seq, int(e[1])))
            seq += 1
        elif e[0] == 'B':
            if expected:
                out.append(('pass-order', f'a new pass began at log[{i}] while {expected} of the current pass were not dispatched'))
            if int(e[1]) != len(pending):
                out.append(('pass-order', f'pass at log[{i}] took {e[1]} events, {len(pending)} were queued'))
            expected = [v for _p, _s, v in sorted(pending)]
            pending = []
        elif e[0] == 'D':
            v = int(e[1])
            if expected and expected[0] == v:
                expected.pop(0)
            elif any(v == pv for _p, _s, pv in pending):
                out.append(('overtake', f'event {v} fired during the pass was dispatched at log[{i}] before {expected} that were queued when the pass began'))
                pending = [x for x in pending if x[2] != v]
            elif v in expected:
                out.append(('pass-order', f'event {v} dispatched at log[{i}] ahead of {expected[:expected.index(v)]} (priority/FIFO order)'))
                expected.remove(v)
            else:
                out.append(('pass-order', f'event {v} dispatched at log[{i}] but was not queued'))
    # handler priority order and stop()
    per = {}
    for i, e in enumerate(E):
        if e[0] == 'I' and e[3] == '0':
            per.setdefault(int(e[1]), []).append((i, int(e[2])))
    for vid, lst in per.items():
        if id(w.events.get(vid)) in w.fired_twice:
            continue
        pr = [H[h]['prio'] for _i, h in lst if h in H]
        if any(a < b for a, b in zip(pr, pr[1:])):
            out.append(('handler-order', f'event {vid}: handler priorities in invocation order {pr} are not descending'))
        for k, (_i, h) in enumerate(lst):
            if h in H and not core_dsl.is_gen(H[h]['prog']):
                acts, _end = terminal(H[h]['prog'])
                if any(a[0] == 'stopEv' for a in acts) and k + 1 < len(lst):
                    lower = [hh for _j, hh in lst[k + 1:] if H.get(hh, {}).get('prio', 0) < H[h]['prio']]
                    out.append(('ran-after-stop', f'event {vid}: handler {h} called stop(), later handlers '
                                f'{[hh for _j, hh in lst[k + 1:]]} still ran (lower priority: {lower})'))
                    break
    # fire() never runs a handler re-entrantly
    depth = []
    for i, e in enumerate(E):
        if e[0] == 'I' and e[3] == '0':
            if depth:
                top = depth[-1]
                if not any(a[0] in ('flush', 'stopMgr', 'sysExit', 'kbdInt') for a in H.get(top[1], {}).get('prog', [])):
                    out.append(('reentrant-fire', f'handler {e[2]} (event {e[1]}) ran at log[{i}] inside handler {top[1]} (event {top[0]})'))
            depth.append((int(e[1]), int(e[2])))
        elif e[0] == 'O':
            if depth:
                depth.pop()
    return out


# ------------------------------------------------------------------------------------------
# C04
# ------------------------------------------------------------------------------------------

def produced_by_log(w):
    """event -> (list of produced items in order, number of raises, set of unfinished gens, last log index)"""
    E = parse(w.log)
    H = hinfo(w.sc)
    gens = w.side['gens']
    prod = {}
    raises = {}
    last = {}
    gpos = {}     # gid -> index of next act
    alive = {}
    unsupported = set()
    user_gid = {}
    for g, kind in gens.items():
        if kind[0] == 'user':
            if (kind[1], kind[2]) in user_gid:
                user_gid[(kind[1], kind[2])] = None     # the same handler ran twice for one event object: not attributed
            else:
                user_gid[(kind[1], kind[2])] = g

    def add(e, item, i):
        prod.setdefault(e, []).append(item)
        last[e] = i

    def advance(gid, e, h, i):
        prog = H[h]['prog']
        k = gpos.get(gid, 0)
        while k < len(prog):
            a = prog[k]
            k += 1
            if a[0] == 'yld':
                gpos[gid] = k
                if a[1] is not None:
                    add(e, str(a[1]), i)
                return
            if a[0] == 'raise':
                alive[gid] = False
                gpos[gid] = len(prog)
                raises[e] = raises.get(e, 0) + 1
                add(e, 'E', i)
                return
            if a[0] == 'ret':
                break
            if a[0] in ('call', 'wait'):
                # the step ends at `yield call(...)` / `yield wait(...)` and produces nothing; the generator goes on when the
                # log shows its resumption (R entry) - "as if the handler had run synchronously" (C06)
                gpos[gid] = k
                return
            if a[0] in ('sysExit', 'kbdInt', 'rmH', 'stopMgr'):
                unsupported.add(e)
                gpos[gid] = k
                return
        alive[gid] = False
        gpos[gid] = len(prog)

    for i, e in enumerate(E):
        if e[0] == 'I' and e[3] == '0':
            ev, h = int(e[1]), int(e[2])
            last[ev] = i
            if h not in H:
                continue
            prog = H[h]['prog']
            if core_dsl.is_gen(prog):
                continue
            acts, end = terminal(prog)
            # a handler that removes ITSELF (all names) is installed when it runs, so the removal cannot fail and the rest
            # of its body is read as usual; any other removal may raise inside the handler and is left to the correspondence
            if any((a[0] == 'rmH' and not (a[1] == h and a[2] is None)) or a[0] == 'stopMgr' for a in acts) \
                    or end in ('sysExit', 'kbdInt'):
                unsupported.add(ev)
            if end == 'raise':
                raises[ev] = raises.get(ev, 0) + 1
                add(ev, 'E', i)
            elif isinstance(end, tuple):
                add(ev, str(end[1]), i)
        elif e[0] == 'O':
            last[int(e[1])] = i
        elif e[0] == 'P':
            ev, gid = int(e[1]), int(e[2])
            last[ev] = i
            kind = gens.get(gid, ('other',))
            if kind[0] == 'user':
                alive.setdefault(gid, True)
                if alive[gid]:
                    advance(gid, kind[1], kind[2], i)
            elif kind[0] == 'wait':
                pass        # helper task of call()/wait(): the caller's continuation shows up as an R or T entry
            else:
                unsupported.add(ev)
        elif e[0] == 'R':
            ev, h = int(e[1]), int(e[2])
            gid = user_gid.get((ev, h))
            if gid is None:
                unsupported.add(ev)
            elif alive.get(gid, True):
                alive.setdefault(gid, True)
                advance(gid, ev, h, i)
        elif e[0] == 'T':
            ev, h = int(e[1]), int(e[2])
            gid = user_gid.get((ev, h))
            if gid is None or e[3] == '1':
                # TimeoutError caught by the handler: what it yields next travels through a one-shot helper generator
                unsupported.add(ev)
            else:
                alive[gid] = False
                raises[ev] = raises.get(ev, 0) + 1
                add(ev, 'E', i)
    unfinished = {}
    for gid, kind in gens.items():
        if kind[0] == 'user' and alive.get(gid, True):
            unfinished.setdefault(kind[1], set()).add(gid)
    return prod, raises, unfinished, last, unsupported


def oracle_c04(w):
    out = []
    for (i, tname) in w.side.get('escaped', []):
        out.append((f'handler-exception-escaped({tname})', f'an exception raised by a handler left tick()/flush() at log[{i}]: '
                    'remaining handlers, later events and the loop did not run'))
    E = parse(w.log)
    prod, raises, unfinished, last, unsupported = produced_by_log(w)
    names = names_of(E)
    vals = w.values()
    tm = w.side['tmpl_of']
    parent = w.side['parent']
    dispatched = {int(e[1]) for e in E if e[0] == 'D'}
    cancelled = {vid for vid, ev in w.events.items() if ev.cancelled}
    fb = {}   # (parent vid, kind) -> list of log indices
    for i, e in enumerate(E):
        if e[0] == 'F':
            vid = int(e[1])
            if vid in parent:
                nm = e[2]
                kind = 'exception' if nm == '906' else nm.rsplit(':', 1)[-1].split(',')[-1] if ':' in nm else None
                fb.setdefault((parent[vid], kind), []).append(i)
    for vid in sorted(dispatched):
        if vid in cancelled or vid in unsupported or vid in unfinished or id(w.events.get(vid)) in w.fired_twice:
            continue
        if vid not in vals:
            continue
        items = prod.get(vid, [])
        want = 'U' if not items else ('S' + items[0] if len(items) == 1 else 'L' + ','.join(items))
        row = vals[vid].split(':')
        if row[1] != want:
            out.append(('value-mismatch', f'event {vid} ({names.get(vid)}): value {row[1]} but handlers produced {want}'))
        nr = raises.get(vid, 0)
        if (row[2] == '1') != (nr > 0):
            out.append(('errors-flag', f'event {vid}: errors={row[2]} with {nr} raising handlers'))
        nexc = len(fb.get((vid, 'exception'), []))
        if nexc != nr:
            out.append(('exception-count', f'event {vid}: {nr} handlers raised, {nexc} exception events'))
        flags = w.sc['tmpls'][tm[vid]].get('flags', '') if vid in tm else ''
        nfail = len(fb.get((vid, '3'), []))
        if nfail != (nr if 'f' in flags else 0):
            out.append(('failure-count', f'event {vid} (failure={"f" in flags}): {nr} raises, {nfail} failure events'))
        succ = fb.get((vid, '2'), [])
        want_s = 1 if ('s' in flags and nr == 0) else 0
        if len(succ) != want_s:
            sig = 'success-after-failure' if (nr > 0 and succ) else ('duplicate-success' if len(succ) > 1 else 'missing-success')
            out.append((sig, f'event {vid} (success={"s" in flags}, raises={nr}): {len(succ)} success events'))
        elif succ and succ[0] < last.get(vid, -1):
            out.append(('success-too-early', f'event {vid}: success fired at log[{succ[0]}], its handlers ran until log[{last[vid]}]'))
    return out


# ------------------------------------------------------------------------------------------
# C05
# ------------------------------------------------------------------------------------------

def oracle_c05(w, quiescent=True):
    out = []
    E = parse(w.log)
    names = names_of(E)
    tm = w.side['tmpl_of']
    parent = w.side['parent']
    ctx = w.side['firectx']
    children = {}
    for i, e in enumerate(E):
        if e[0] != 'F':
            continue
        vid = int(e[1])
        c = ctx.get(i)
        if c and c[0] in ('h', 't') and c[1] is not None and vid not in parent:
            children.setdefault(c[1], set()).add(vid)       # fired by user code while handling c[1]
        elif vid in parent and (e[2] == '906' or e[2].endswith(':3') or e[2].endswith(',3')):
            children.setdefault(parent[vid], set()).add(vid)  # exception / failure of parent
    lastidx = {}
    disp = {}
    for i, e in enumerate(E):
        if e[0] == 'D':
            disp.setdefault(int(e[1]), i)
            lastidx[int(e[1])] = i
        elif e[0] in ('I', 'O', 'P'):
            lastidx[int(e[1])] = i
    complete_at = {}
    for i, e in enumerate(E):
        if e[0] == 'F' and (e[2].endswith(':4') or e[2].endswith(',4')) and int(e[1]) in parent:
            complete_at.setdefault(parent[int(e[1])], []).append(i)
    unfinished_tasks = any(r is not None and r.split(':')[3] != '0' for r in w.residue())
    live_gens = set()        # events that still have a suspended handler (user generator or its call()/wait() helper)
    unknown_live = False
    for g in getattr(w, 'keep', []):
        if getattr(g, 'gi_frame', None) is None:
            continue
        kind = w.side['gens'].get(w.gen_ids.get(id(g)), ('other',))
        if kind[0] in ('user', 'wait'):
            live_gens.add(kind[1])
        else:
            unknown_live = True
    for vid, ti in tm.items():
        if 'c' not in (w.sc['tmpls'][ti].get('flags') or ''):
            continue
        if vid not in disp or id(w.events.get(vid)) in w.fired_twice:
            continue
        if w.events[vid].cancelled:
            continue
        clos = set()
        todo = [vid]
        while todo:
            x = todo.pop()
            if x in clos:
                continue
            clos.add(x)
            todo.extend(children.get(x, ()))
        got = complete_at.get(vid, [])
        if len(got) > 1:
            out.append(('double-complete', f'event {vid} ({names.get(vid)}): {len(got)} complete events'))
        # drained = every member was dispatched and none of them still has a suspended handler (a handler waiting for
        # an event nobody fires keeps its event - and therefore the closure - unfinished for ever: nothing is owed)
        # (judged by the generators themselves, not by the code's `waitingHandlers` counter: a counter that stays positive
        # although no handler of the event is suspended any more is exactly the kind of defect that keeps `complete` away)
        drained = all(m in disp and m not in live_gens for m in clos) and not unknown_live
        if got:
            late = [m for m in clos if m not in disp or lastidx.get(m, -1) > got[0]]
            if late:
                kinds = set()
                for m in late:
                    c = next((ctx[i] for i, e in enumerate(E) if e[0] == 'F' and int(e[1]) == m and i in ctx), None)
                    kinds.add('generator-step-fire' if c and c[0] == 't' else 'other')
                out.append((f'early-complete({",".join(sorted(kinds))})',
                            f'event {vid}: complete fired at log[{got[0]}] before closure members {sorted(late)} were done'))
        elif quiescent and drained and not unfinished_tasks:
            why = 'other'
            if any(w.events[m].cancelled for m in clos if m in w.events):
                why = 'cancelled-descendant'
            out.append((f'never-completes({why})', f'event {vid} ({names.get(vid)}): closure {sorted(clos)} drained, no complete event'))
    return out


# ------------------------------------------------------------------------------------------
# C06
# ------------------------------------------------------------------------------------------

def oracle_c06(w):
    out = []
    E = parse(w.log)
    vals = w.values()
    lastidx = {}
    for i, e in enumerate(E):
        if e[0] in ('I', 'O', 'P', 'D'):
            lastidx[int(e[1])] = i
    for (ev, h, step) in w.side['zsend']:
        out.append(('double-resume', f'handler {h} of event {ev} received a call result at a plain yield (step {step})'))
    resumed = {}
    ge = [i for i, e in enumerate(E) if e[0] == 'D' and False]
    names = names_of(E)
    ge = [i for i, e in enumerate(E) if e[0] == 'D' and names.get(int(e[1])) == '905']
    started = dict(w.side['callstart'])
    H = hinfo(w.sc)
    for i, e in enumerate(E):
        if e[0] == 'R':
            ev, h, src = int(e[1]), int(e[2]), int(e[3])
            # only after every handler of src has finished
            later = [j for j, x in enumerate(E) if j > i and x[0] in ('I', 'P') and int(x[1]) == src
                     and not (x[0] == 'I' and False)]
            if later:
                out.append(('resumed-early', f'caller {h} of event {ev} resumed at log[{i}] while handlers of event {src} still ran at log[{later[0]}]'))
            if src in vals and id(w.events.get(src)) not in w.fired_twice:
                row = vals[src].split(':')
                if not later and (row[1] != e[4] or row[2] != e[5]):
                    out.append(('wrong-result', f'caller {h} of event {ev} got {e[4]}/errors={e[5]}, event {src} ended with {row[1]}/errors={row[2]}'))
        elif e[0] == 'T':
            ev, h = int(e[1]), int(e[2])
            # find the call this timeout belongs to: the latest started call of (ev, h) before i
            cands = [(idx, k) for k, idx in started.items() if k[0] == ev and k[1] == h and idx < i]
            if cands:
                idx, k = max(cands)
                prog = H[h]['prog']
                ys = [a for a in prog if a[0] in ('yld', 'call', 'wait')]
                a = ys[k[2]] if k[2] < len(ys) else None
                if a is not None and a[0] in ('call', 'wait') and a[3] is not None:
                    n = len([g for g in ge if idx < g < i])
                    if n < a[3]:
                        out.append(('timeout-early', f'TimeoutError after {n} loop iterations, timeout={a[3]} (event {ev}, handler {h})'))
    # at-least-once at quiescence: a waiter whose awaited event was dispatched and has no handler left suspended, with
    # nothing queued anywhere, must have been resumed (or have timed out) - read off the suspended wait generator itself
    try:
        queued = any(len(c) for c in w.comps if c is not None and c.root is c)
    except Exception:
        queued = True
    if not queued:
        for g in w.keep:
            kind = w.side['gens'].get(w.gen_ids.get(id(g)), ('other',))
            if kind[0] != 'wait' or getattr(g, 'gi_frame', None) is None:
                continue
            inner = getattr(g, 'gi_yieldfrom', None) or g
            fr = getattr(inner, 'gi_frame', None)
            st = fr.f_locals.get('state') if fr is not None else None
            if st is None or not getattr(st, 'run', False) or getattr(st, 'flag', False) or getattr(st, 'timed_out', False):
                continue
            aw = getattr(st, 'event', None)
            if aw is None or getattr(aw, 'waitingHandlers', 1) != 0 or not hasattr(aw, '_vid'):
                continue
            if any(gen is not g and getattr(gen, 'gi_frame', None) is not None
                   and w.side['gens'].get(w.gen_ids.get(id(gen)), ('other',))[:2] == ('user', aw._vid) for gen in w.keep):
                continue        # a handler of the awaited event is itself still suspended
            out.append(('never-resumed', f'handler {kind[2]} of event {kind[1]} waits (step {kind[3]}) for event {aw._vid}, which was '
                        f'dispatched and has no handler left running; nothing is queued, and the waiter was neither resumed nor timed out'))
    # residue at quiescence: every started call/wait got its R or T, then tables are back to the initial ones
    nres = len([e for e in E if e[0] in ('R', 'T')])
    live_user = [g for g in w.keep if getattr(g, 'gi_frame', None) is not None
                 and w.side['gens'].get(w.gen_ids.get(id(g)), ('other',))[0] == 'user']
    if nres == len(started) and not live_user:
        decl, builtin, _ = core_dsl.assign_ids(w.sc)
        for ci, row in enumerate(w.residue()):
            if row is None:
                continue
            _i, nh, ng, nt = row.split(':')
            if nt != '0':
                out.append(('leak(tasks)', f'component {ci}: {nt} tasks remain at quiescence'))
        # temporary handlers: no handler named like a wait helper may remain
        for ci, c in enumerate(w.comps):
            if c is None:
                continue
            left = [m.__name__ for s in c._handlers.values() for m in s if m.__name__ in ('_on_event', '_on_done', '_on_tick')]
            if left:
                out.append((f'leak({",".join(sorted(set(left)))})', f'component {ci}: temporary handlers {left} remain at quiescence'))
    return out


# ------------------------------------------------------------------------------------------
# C07
# ------------------------------------------------------------------------------------------

def oracle_c07(w):
    out = []
    E = parse(w.log)
    for i, bad in enumerate(w.side['treechk']):
        for b in bad:
            out.append((b.split(':')[0], f'after op {i} {w.ops[i]}: {b}'))
    nreg_ev = len([e for e in E if e[0] == 'F' and e[2] == '900'])
    attach = [m for m in w.side['moves'] if m[2] == 'attach']
    detach = [m for m in w.side['moves'] if m[2] == 'detach']
    if nreg_ev != w.side['nreg']:
        out.append(('announce-count', f'{w.side["nreg"]} registrations, {nreg_ev} registered events'))
    nun = len([e for e in E if e[0] == 'F' and e[2] == '901'])
    if nun != len(detach):
        out.append(('announce-count', f'{len(detach)} completed unregistrations, {nun} unregistered events'))
    for (i, vid, hid) in w.side['foreign']:
        out.append(('received-after-detach', f'handler {hid} received event {vid} at log[{i}] from a tree it is not part of'))
    # nothing queued is lost: at the end every fired event has been dispatched by somebody
    fired = {int(e[1]) for e in E if e[0] == 'F'}
    disp = {int(e[1]) for e in E if e[0] == 'D'}
    stuck = {i for i, c in enumerate(w.comps) if c is not None and c.parent is not c and False}
    qleft = sum(w.side['qlen_after'][-1]) if w.side['qlen_after'] else 0
    lost = sorted(fired - disp)
    if lost and qleft == 0:
        out.append(('lost-queued', f'events {lost} were fired, never dispatched, and no queue holds them'))
    # ... and by nobody twice: an event is dispatched at most as often as it was fired (a Timer fires one object repeatedly)
    from collections import Counter
    nf = Counter(int(e[1]) for e in E if e[0] == 'F')
    nd = Counter(int(e[1]) for e in E if e[0] == 'D')
    # events appended to one and the same queue keep their order for equal priority, also when that queue is later
    # drained into another root's queue by register() (nothing is promised about events of different queues)
    froot = w.side.get('froot', {})
    first_d = {}
    for i, e in enumerate(E):
        if e[0] == 'D' and int(e[1]) not in first_d:
            first_d[int(e[1])] = i
    groups = {}
    for i, e in enumerate(E):
        if e[0] == 'F' and nf[int(e[1])] == 1 and i in froot:
            groups.setdefault((froot[i], e[-1]), []).append(int(e[1]))
    for (q, pr), evs in groups.items():
        pos = [first_d[v] for v in evs if v in first_d]
        if pos != sorted(pos):
            out.append(('queue-order-lost', f'events {evs} were appended in this order to the queue of component {q} with equal '
                                           f'priority {pr}, but dispatched in another order (log positions {pos})'))
            break
    twice = sorted(v for v in nd if nd[v] > nf.get(v, 0))
    if twice:
        out.append(('dispatched-twice', f'events {twice[:6]} were dispatched more often than they were fired '
                                        f'(e.g. event {twice[0]}: fired {nf.get(twice[0], 0)}x, dispatched {nd[twice[0]]}x)'))
    return out


# ------------------------------------------------------------------------------------------
# C08
# ------------------------------------------------------------------------------------------

def oracle_c08(w):
    out = []
    names = {}
    pos = 0
    fired_before = set()
    disp_all = set()
    for oi, (op, (status, entries)) in enumerate(zip(w.ops, w.oplogs)):
        E = parse(entries)
        for e in E:
            if e[0] == 'F':
                names.setdefault(int(e[1]), e[2])
        start, end = pos, pos + len(entries)
        pos = end
        if op[0] == 'run':
            ds = [int(e[1]) for e in E if e[0] == 'D']
            n_started = len([v for v in ds if names.get(v) == '903'])
            n_stopped = len([v for v in ds if names.get(v) == '904'])
            if n_started != 1:
                out.append(('started-count', f'run #{oi}: started dispatched {n_started} times'))
            if n_stopped != 1:
                sig = 'stopped-never-dispatched' if n_stopped == 0 else 'stopped-twice'
                out.append((sig, f'run #{oi}: stopped dispatched {n_stopped} times'))
            fired = {int(e[1]) for e in E if e[0] == 'F'} | fired_before
            disp_all |= set(ds)
            undone = sorted(fired - disp_all)
            if undone:
                out.append(('queued-dropped', f'run #{oi} returned with events {undone} fired but never dispatched'))
            fired_before = set()
            stops = [s for s in w.side['stops'] if start <= s[0] < end and s[3]]
            want = 'ok'
            if stops and stops[0][2] is not None and stops[0][1] in ('stopMgr', 'sysExit'):
                want = f'exn sysexit {stops[0][2]}'
            if status != want:
                out.append(('wrong-code', f'run #{oi}: outcome {status!r}, first stop was {stops[0][1:3] if stops else None} (expected {want!r})'))
            q = w.side['qlen_after'][oi][op[1]] if oi < len(w.side['qlen_after']) else 0
            if q:
                out.append(('queued-dropped', f'run #{oi} returned with {q} events still queued'))
            if w.comps[op[1]].running:
                out.append(('rerun-broken', f'run #{oi}: manager still marked running after run() returned'))
        else:
            fired_before |= {int(e[1]) for e in E if e[0] == 'F'}
            disp_all |= {int(e[1]) for e in E if e[0] == 'D'}
            if op[0] == 'do' and op[2][0] == 'stopMgr' and entries:
                out.append(('stop-idle-effect', f'stop() on a manager that is not running produced {entries[:4]}'))
    return out


# ------------------------------------------------------------------------------------------
# C09
# ------------------------------------------------------------------------------------------

def oracle_c09(w):
    out = []
    E = parse(w.log)
    names = names_of(E)
    specs = [c['timer'] for c in w.sc['comps'] if c.get('timer') is not None]
    tcomp = [i for i, c in enumerate(w.sc['comps']) if c.get('timer') is not None]
    evs = sorted([(i, k, t, clk) for (i, k, t, clk) in w.side['timer_ev']] +
                 [(i, 'fire', t, clk) for (i, t, clk) in w.side['tfires']] +
                 [(i, 'detach', tcomp.index(c), None) for (i, c, k) in w.side['moves'] if k == 'detach' and c in tcomp])
    expiry = {}
    fires = {}
    dead = set()
    for (i, k, t, clk) in evs:
        iv = core_dsl.timer_interval(specs[t])
        if k == 'new':
            expiry[t] = clk + iv
        elif k == 'reset':
            expiry[t] = clk + iv
        elif k == 'detach':
            dead.add(t)
        elif k == 'fire':
            if t in dead:
                out.append(('fired-after-unregister', f'timer {t} fired at log[{i}] after its unregistration completed'))
            if t in expiry and clk < expiry[t]:
                out.append(('early', f'timer {t} fired at clock {clk}, expiry {expiry[t]} (interval {iv})'))
            fires.setdefault(t, []).append(clk)
            if specs[t]['persist']:
                expiry[t] = clk + iv
            else:
                if len(fires[t]) > 1:
                    out.append(('double-oneshot', f'one-shot timer {t} fired {len(fires[t])} times'))
    for t, fs in fires.items():
        if specs[t]['persist']:
            gaps = [b - a for a, b in zip(fs, fs[1:])]
            if any(g < core_dsl.timer_interval(specs[t]) for g in gaps):
                out.append(('spacing', f'persistent timer {t} (interval {core_dsl.timer_interval(specs[t])}) fired at {fs}'))
    for i, e in enumerate(E):
        if e[0] == 'W':
            b = w.side['wbound'].get(i)
            if b is not None and int(e[1]) > max(b, 0):
                out.append(('overslept', f'idle wait of {e[1]} ticks at log[{i}] with a timer due in {b}'))
    # a due timer fires in the first loop iteration at or after its expiry
    for (i, t, clk) in w.side['missed']:
        out.append(('missed-expiry', f'timer {t} was due at clock {clk} (log[{i}]) but the loop iteration did not fire it'))
    return out


ORACLES = {'C01': oracle_c01, 'C02': oracle_c02, 'C04': oracle_c04, 'C05': oracle_c05, 'C06': oracle_c06,
           'C07': oracle_c07, 'C08': oracle_c08, 'C09': oracle_c09}


# ------------------------------------------------------------------------------------------
# common runner
# ------------------------------------------------------------------------------------------

def project(entries, kinds):
    return [e for e in entries if e.split(' ', 1)[0] in kinds]


def compare_projected(rec, kinds, tree=False, values=False, residue=False):
    """first difference between implementation and model on the observations a property is about"""
    if rec['error']:
        return {'where': 'harness', 'detail': rec['error']}
    if rec.get('blocked'):
        return None
    for i, ((ist, ilog), (mst, mlog)) in enumerate(zip(rec['impl'], rec['model'])):
        a, b = project(ilog, kinds), project(mlog, kinds)
        if a != b:
            k = next((j for j, (x, y) in enumerate(zip(a, b)) if x != y), min(len(a), len(b)))
            return {'where': 'log', 'op': i, 'pos': k, 'impl': a[k:k + 4], 'model': b[k:k + 4], 'context': a[max(0, k - 4):k]}
        if ist != mst:
            return {'where': 'status', 'op': i, 'impl': ist, 'model': mst}
    if len(rec['impl']) != len(rec['model']):
        return {'where': 'ops', 'impl': len(rec['impl']), 'model': len(rec['model'])}
    if tree and rec['itree'] != rec['mtree']:
        return {'where': 'tree', 'impl': rec['itree'], 'model': rec['mtree']}
    if values:
        mvals = {int(r.split(':')[0]): r for r in rec['mvalues'].split(' ') if r}
        for vid, row in rec['ivalues'].items():
            if mvals.get(vid) != row:
                return {'where': 'values', 'impl': row, 'model': mvals.get(vid)}
    if residue:
        mres = rec['mresidue'].split(' ')
        for i, row in enumerate(rec['iresidue']):
            if row is not None and i < len(mres) and mres[i] != row:
                return {'where': 'residue', 'impl': row, 'model': mres[i]}
    return None


def lean_spec_c02(rec):
    """verdicts of the Lean predicates CV.Core.passOrderOk / handlerOrderOk on the implementation log"""
    out = []
    ls = rec.get('leanspec') or {}
    if ls.get('pass_impl', 'ok').startswith('fail'):
        out.append(('pass-order', 'CV.Core.passOrderOk is false on the implementation log'))
    if ls.get('horder_impl', 'ok').startswith('fail'):
        out.append(('handler-order', 'CV.Core.handlerOrderOk is false on the implementation log'))
    return out


def run_scenarios(ctx, prop, scenarios, kinds, nontrivial, tree=False, values=False, residue=False, extra_oracles=()):
    """run a batch, record disagreements (B) and violations (C)"""
    oracles = [ORACLES[prop]] + [ORACLES[p] for p in extra_oracles]
    for i in range(0, len(scenarios), 100):
        chunk = scenarios[i:i + 100]
        results = core_dsl.run_both(ctx, chunk)
        for rec in results:
            sc = rec['sc']
            w = rec['world']
            case = {'kind': 'scenario', 'scenario': sc}
            if rec['error'] and 'model setup rejected' not in (rec['error'] or '') and not getattr(w, 'ops', None):
                ctx.count('harness_errors', rec['error'].split('\n')[0][:80])
            if rec.get('blocked'):
                ctx.count('outcome', 'blocked(skipped)')
                ctx.case(case, nontrivial=False, validated=False)
                continue
            if rec.get('oversize'):
                ctx.count('outcome', 'oversize-log(model not asked)')
                d = None
            else:
                d = compare_projected(rec, kinds, tree=tree, values=values, residue=residue)
            if d:
                ctx.disagree(case, d)
            viol = []
            if not rec['error']:
                for orc in oracles:
                    try:
                        viol += orc(w)
                    except Exception as ex:  # an oracle bug must not masquerade as a violation
                        ctx.count('oracle_errors', f'{orc.__name__}:{type(ex).__name__}:{ex}'[:100])
            if prop == 'C02' and not rec['error'] and not any(op[0] == 'do' and op[2][0] in ('reg', 'unreg') and i > 3
                                                              for i, op in enumerate(getattr(w, 'ops', []))):
                lv = lean_spec_c02(rec)
                ctx.count('lean_spec_c02', 'fail' if lv else 'ok')
                have = {s for s, _ in viol}
                viol += [(s, m) for s, m in lv if s not in have]
                ls = rec.get('leanspec') or {}
                if ls.get('pass_model', 'ok') != 'ok' or ls.get('horder_model', 'ok') != 'ok':
                    ctx.disagree(case, {'where': 'model-log-violates-spec', 'detail': ls})
            seen = set()
            for sig, msg in viol:
                if sig in seen:
                    continue
                seen.add(sig)
                ctx.violate(case, sig, msg)
            ctx.count('log_len', min(len(w.log) // 25 * 25, 300))
            for op in getattr(w, 'ops', []):
                ctx.count('ops', op[0] if op[0] != 'do' else 'do:' + op[2][0])
            for p in sc['progs']:
                for a in p:
                    ctx.count('acts', a[0])
            ctx.count('outcome', 'disagree' if d else ('violation' if viol else 'ok'))
            ctx.case(case, nontrivial=nontrivial(w), validated=d is None and not rec.get('oversize'))
        if ctx.time_up():
            break


def replay_scenario(ctx, prop, case, kinds, **kw):
    run_scenarios(ctx, prop, [case['scenario']], kinds, lambda w: True, **kw)


def shrink_scenario(ctx, prop, sc, signature, kinds=None):
    """greedy shrink of a violating scenario: drop ops, acts; keep the same signature"""
    import copy

    def fails(c):
        try:
            import core_gen
            if not core_gen.in_scope(c):
                return False
            rec = core_dsl.run_both(ctx, [c])[0]
            if rec['error'] or rec.get('blocked'):
                return False
            return any(sig == signature for sig, _ in ORACLES[prop](rec['world']))
        except Exception:
            return False

    changed = True
    rounds = 0
    while changed and rounds < 4:
        changed = False
        rounds += 1
        for i in range(len(sc['ops']) - 1, -1, -1):
            c = copy.deepcopy(sc)
            del c['ops'][i]
            if fails(c):
                sc = c
                changed = True
        for pi in range(len(sc['progs'])):
            for ai in range(len(sc['progs'][pi]) - 1, -1, -1):
                c = copy.deepcopy(sc)
                del c['progs'][pi][ai]
                if fails(c):
                    sc = c
                    changed = True
    return sc

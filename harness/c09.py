"""C09 - see core_mod.SPEC['C09'] (generators, projections) and core_props.oracle_c09 (spec on the implementation)."""
import core_mod


def run(ctx):
    core_mod.run(ctx, 'C09')


def search(ctx):
    core_mod.run(ctx, 'C09')


def replay(ctx, case):
    core_mod.replay(ctx, 'C09', case)

"""
C13 - HTTP requests are parsed identically however the stream is segmented.

Three ties, all against CV.Model.HttpParse / HttpServerRead through the `http` driver machine:
  parser  real HttpParser (kind 0 and 1) vs `exec` after every execute() call          (B only)
  server  real circuits.web.http.HTTP fed read(sock, segment) events, probe `request`
          handler, captured write/close  vs `onRead` / `responded`                     (B and C)
  client  real circuits.protocols.http.HTTP fed read(segment) events, probe `response`
          handler  vs `clientRead`                                                     (B and C)
The lexers of the model are instantiated by the implementation's own leaf functions
(`_parse_firstline`, `_parse_headers`, `_parse_chunk_size`, the path guard) evaluated on the
candidate byte strings of each message; the check also asserts that both sides lexed the
same byte strings (ghost fields fl / hb).

A fourth, tighter tie (`eval_lexer`, machine `httplex`): the *concrete* Lean lexers of
CV/Model/HttpLex.lean (`concreteLex`: request line, status line, header block incl. continuation
lines and the framing facts read through `Headers`, chunk-size line) are compared with those leaf
functions on every string the table-driven ties lex (also C14's mutation stream) and on a lexer-level
mutation stream; a string the model refuses (`unsupported`: backslash = unicode_escape, ...) is
counted, not compared.  The character tables and regex sources are parameter obligations (all 256
code points).

Spec on impl (C) is the property statement itself, a plain comparison: the request events
(method, path, query string, protocol, headers, body), the bytes written and the closes -
resp. the response events of the client - of the segmented delivery equal those of one-piece
delivery.  In addition the driver evaluates `isReading` (RFC-derived decomposition) on the
implementation's reading and the hypothesis `clean` of the theorems on every message.
"""
import itertools

from framework import cuts_to_segments, hx, unhx

CRLF = b'\r\n'
CRLF2 = b'\r\n\r\n'


class Unsupported(Exception):
    """the message leaves the domain of the model (Python exception in a leaf)"""


# ---------------------------------------------------------------------------------------
# lexer tables from the implementation's leaf functions
# ---------------------------------------------------------------------------------------

class _FakeServer:
    host = '127.0.0.1'
    port = 8000
    secure = False
    display_banner = False


def lex_first(kind, line):
    from circuits.web.parsers.http import HttpParser
    p = HttpParser(kind)
    try:
        s = str(line, 'unicode_escape')
        ok = p._parse_firstline(s)
    except Exception as e:
        raise Unsupported(f'first line leaf raised {type(e).__name__}')
    if not ok:
        return None
    v = p.get_version()
    return {'maj': v[0], 'min': v[1], 'status': p.get_status_code(),
            'dec': [p.get_method(), p.get_path(), p.get_query_string(), list(v), p.get_status_code()]}


def lex_hdrs(block):
    from circuits.web.parsers.http import HttpParser, InvalidHeader
    import httputil
    p = HttpParser(0)
    try:
        p._parse_headers(block + CRLF2)
    except InvalidHeader:
        return None
    except Exception as e:
        raise Unsupported(f'header leaf raised {type(e).__name__}')
    h = p.get_headers()
    raw = h.get('content-length')
    if raw is None:
        clen = 'absent'
    else:
        try:
            clen = str(int(raw))
        except ValueError:
            clen = 'bad'
    te = h.get('transfer-encoding', '').lower() == 'chunked'
    # the parser's own framing decision must be the one the table says
    consistent = (p._clen == int(clen)) if clen not in ('absent', 'bad') else \
        (p.is_chunked() == (te if clen == 'absent' else False))
    enc = (h.get('content-encoding') or '').lower()
    if enc in ('gzip', 'deflate'):
        raise Unsupported('Content-Encoding: decompression is not modelled')
    return {'clen': clen, 'te': te, 'host': bool(h.get('Host')), 'upgrade': bool(p.is_upgrade()),
            'dec': httputil.canon_headers(h), 'consistent': consistent}


def chunk_raw(line):
    """what the `_parse_chunk_size` of the tree under test makes of a chunk-size line: a number (of either sign) or
    None = InvalidChunkSize"""
    from circuits.web.parsers.http import HttpParser, InvalidChunkSize
    try:
        size, _rest = HttpParser()._parse_chunk_size(line + CRLF2)
    except InvalidChunkSize:
        return None
    except Exception as e:
        raise Unsupported(f'chunk leaf raised {type(e).__name__}')
    if size is None:
        raise Unsupported('chunk size outside the model')
    return size


def lex_chunk(line, negative=None):
    """
    the value of the model's `lex.chunk : Bytes -> Option Nat` (none = InvalidChunkSize) for this line, asked of the
    tree under test.  A negative size is InvalidChunkSize in the code (fix: negative chunk size) and hence `none` in
    the model; a tree that still returns a negative number from its lexer is not skipped: the line goes into the
    model as `none` and (line, number) is recorded in `negative`, which the callers report as a disagreement.
    """
    size = chunk_raw(line)
    if size is not None and size < 0:
        if negative is not None:
            negative.append((line, size))
        return None
    return size


def path_ok(fl, hb):
    """the canonical-path guard of HTTP._on_read, evaluated with the real Request class"""
    from urllib.parse import quote
    from circuits.web import wrappers
    from circuits.web.parsers.http import HttpParser
    p = HttpParser(0)
    data = fl + CRLF + ((hb + CRLF2) if hb is not None else CRLF)
    try:
        p.execute(data, len(data))
        req = wrappers.Request(None, p.get_method(), p.get_scheme() or 'http', p.get_path(), p.get_version(),
                               p.get_query_string(), headers=p.get_headers(), server=_FakeServer())
        path, _path = req.path, req.uri._path
        return not ((path.encode('utf-8') != _path) and (quote(path).encode('utf-8') != _path))
    except Exception as e:
        raise Unsupported(f'path guard raised {type(e).__name__}')


def candidates(msg):
    """syntactic candidates for the strings the model may hand to its lexers (a superset)"""
    i = msg.find(CRLF)
    if i < 0:
        return None, None, []
    fl = msg[:i]
    rest = msg[i + 2:]
    hb = None
    after = b''
    if rest[:2] != CRLF or rest == CRLF:
        j = rest.find(CRLF2)
        if j >= 0 and rest != CRLF:
            hb = rest[:j]
            after = rest[j + 4:]
    else:
        j = rest.find(CRLF2)
        if j >= 0:
            hb = rest[:j]
            after = rest[j + 4:]
    lines = []
    seen = set()
    # the size lines a chunk decoder meets when it walks `after` (sizes read by the implementation's leaf),
    # then - as a superset for short bodies - every CRLF-delimited line
    pos = 0
    while pos < len(after) and len(lines) < 5000:
        e = after.find(CRLF, pos)
        if e < 0 or e - pos > 200:
            break
        ln = after[pos:e]
        if ln not in seen:
            seen.add(ln)
            lines.append(ln)
        try:
            size = lex_chunk(ln)
        except Unsupported:
            break
        if not size:
            break
        pos = e + 2 + size + 2
    for ln in after.split(CRLF)[:200]:
        if len(ln) <= 80 and ln not in seen:
            seen.add(ln)
            lines.append(ln)
    return fl, hb, lines


class LexTables:
    def __init__(self):
        self.first = {}   # (kind, line) -> dict|None
        self.hdrs = {}
        self.chunk = {}
        self.path = {}
        self.negchunk = []   # (line, n < 0): the code's chunk-size lexer returned a negative number

    def add_message(self, kind, msg, chunked_hint=True):
        fl, hb, lines = candidates(msg)
        if fl is None:
            return
        if (kind, fl) not in self.first:
            self.first[(kind, fl)] = lex_first(kind, fl)
        if hb is not None and hb not in self.hdrs:
            self.hdrs[hb] = lex_hdrs(hb)
        h = self.hdrs.get(hb) if hb is not None else None
        if h and h['te'] and h['clen'] == 'absent':
            for ln in lines:
                if ln not in self.chunk:
                    self.chunk[ln] = lex_chunk(ln, self.negchunk)
        if kind == 0 and self.first[(kind, fl)] is not None and (fl, hb) not in self.path:
            if hb is None or self.hdrs.get(hb) is not None:
                self.path[(fl, hb)] = path_ok(fl, hb)

    def lines(self):
        out = []
        for (kind, fl), v in self.first.items():
            if v is None:
                out.append(f'lex1 {kind} {hx(fl)} bad')
            else:
                st = '-' if v['status'] is None else str(v['status'])
                out.append(f"lex1 {kind} {hx(fl)} {v['maj']} {v['min']} {st}")
        for hb, v in self.hdrs.items():
            if v is None:
                out.append(f'lexh {hx(hb)} bad')
            else:
                out.append(f"lexh {hx(hb)} {v['clen']} {int(v['te'])} {int(v['host'])} {int(v['upgrade'])}")
        for ln, v in self.chunk.items():
            out.append(f"lexc {hx(ln)} {'bad' if v is None else v}")
        for (fl, hb), v in self.path.items():
            out.append(f"lexp {hx(fl)} {'~' if hb is None else hx(hb)} {int(v)}")
        return out

    def inconsistent(self):
        return [hx(hb) for hb, v in self.hdrs.items() if v is not None and not v['consistent']]

    def report_negative(self, ctx, case):
        """-> True if the tree's chunk-size lexer returned a negative number for a line of this case (disagreement)"""
        for ln, n in self.negchunk:
            ctx.disagree(case, {'where': 'lexc-negative', 'line': repr(ln), 'impl': n, 'model': 'none (InvalidChunkSize)',
                                'what': "the code's chunk-size lexer returns a negative number instead of raising InvalidChunkSize"})
        return bool(self.negchunk)


# ---------------------------------------------------------------------------------------
# grammar
# ---------------------------------------------------------------------------------------

METHODS = ['GET', 'POST', 'PUT', 'DELETE', 'OPTIONS', 'PATCH']
SEGS = ['a', 'b1', 'index.html', 'x-y', 'v2', 'data_set', 'A']
HNAMES = ['X-A', 'Accept', 'User-Agent', 'x-trace-id', 'Cache-Control', 'X-Long-Header-Name', 'Referer', 'cookie']
HVALS = ['v', 'text/html, */*;q=0.8', 'a b c', 'MiXeD', '1', 'k=v; k2=v2', 'x' * 40, '', 'close-ish', 'ab\tcd']
BODY_ATOMS = [b'a', b'bc', b'\r', b'\n', b'\r\n', b'0\r\n\r\n', b'\r\n\r\n', b'5\r\n', b'\x00', b'\xff\xfe', b'hello world',
              b'GET / HTTP/1.1\r\n', b';', b'x=1&y=2']
TE_VARIANTS = ['chunked', 'chunked', 'chunked', 'Chunked', 'CHUNKED', 'chunKed']
EXTS = [b'', b'', b';x', b';name=val', b' ;a=1;b', b';q="z"']
TRAILERS = [b'', b'', b'X-T: v\r\n', b'X-T: v\r\nX-U: w\r\n', b'Expires: never\r\n']


def gen_body_bytes(rng, maxlen):
    n = rng.choice([0, 1, 2, 3, 5, 8, 13, 30, maxlen])
    out = b''
    while len(out) < n:
        out += rng.choice(BODY_ATOMS) if rng.random() < 0.7 else bytes([rng.randrange(256)])
    return out[:n]


def gen_chunked(rng, payload):
    out = b''
    i = 0
    while i < len(payload):
        k = rng.choice([1, 1, 2, 3, 7, 16, 31])
        piece = payload[i:i + k]
        i += len(piece)
        size = ('%x' if rng.random() < 0.7 else '%X') % len(piece)
        if rng.random() < 0.15:
            size = '0' * rng.randint(1, 2) + size
        out += size.encode() + rng.choice(EXTS) + CRLF + piece + CRLF
    last = rng.choice([b'0', b'0', b'00', b'0' + rng.choice(EXTS)])
    tr = rng.choice(TRAILERS)
    out += last + CRLF + tr + CRLF
    return out


def gen_headers(rng, pairs_first):
    lines = []
    extra = [(rng.choice(HNAMES), rng.choice(HVALS)) for _ in range(rng.choice([0, 0, 1, 2, 4]))]
    allp = pairs_first + extra
    rng.shuffle(allp)
    for name, val in allp:
        if rng.random() < 0.2:
            name = rng.choice([name.lower(), name.upper()])
        sep = rng.choice([': ', ':', ':  ', ' : ']) if name.lower() not in () else ': '
        if sep == ' : ':
            sep = ': '   # whitespace before the colon is stripped by the code but not RFC; keep RFC forms
        if val and rng.random() < 0.15 and ' ' in val:
            a, b = val.split(' ', 1)
            lines.append(f'{name}{sep}{a}\r\n {b}'.encode('latin-1'))     # continuation line
        else:
            lines.append(f'{name}{sep}{val}'.encode('latin-1'))
    return CRLF.join(lines)


def gen_request(rng, maxbody=60, force=None):
    method = rng.choice(METHODS)
    path = '/' + '/'.join(rng.choice(SEGS) for _ in range(rng.randint(0, 3)))
    if rng.random() < 0.4:
        path += '?' + '&'.join(f'{rng.choice("abq")}={rng.choice(["1", "x%20y", "", "a+b"])}' for _ in range(rng.randint(1, 3)))
    ver = rng.choice(['1.1', '1.1', '1.0'])
    pairs = []
    if ver == '1.1' or rng.random() < 0.5:
        pairs.append(('Host', rng.choice(['h', 'example.org', 'localhost:8000'])))
    if rng.random() < 0.3:
        pairs.append(('Connection', rng.choice(['keep-alive', 'Keep-Alive'])))
    mode = force or rng.choice(['none', 'none', 'clen', 'clen', 'clen0', 'chunked', 'chunked'])
    body = b''
    if mode == 'clen':
        payload = gen_body_bytes(rng, maxbody) or b'x'
        pairs.append((rng.choice(['Content-Length', 'content-length', 'CONTENT-LENGTH']), str(len(payload))))
        body = payload
    elif mode == 'clen0':
        pairs.append(('Content-Length', '0'))
    elif mode == 'chunked':
        payload = gen_body_bytes(rng, maxbody)
        pairs.append((rng.choice(['Transfer-Encoding', 'transfer-encoding']), rng.choice(TE_VARIANTS)))
        body = gen_chunked(rng, payload)
    hb = gen_headers(rng, pairs)
    head = f'{method} {path} HTTP/{ver}'.encode() + CRLF + (hb + CRLF if hb else b'') + CRLF
    return head + body


STATUS = [(200, 'OK'), (201, 'Created'), (404, 'Not Found'), (500, 'Internal Server Error'), (301, 'Moved Permanently')]


def gen_response(rng, maxbody=60):
    ver = rng.choice(['1.1', '1.1', '1.0'])
    mode = rng.choice(['clen', 'clen', 'clen0', 'chunked', 'chunked', 'nobody204', 'nobody304', 'close', 'bare204'])
    code, reason = rng.choice(STATUS)
    pairs = []
    body = b''
    if rng.random() < 0.5:
        pairs.append(('Server', 'circuits/test'))
    if mode == 'clen':
        payload = gen_body_bytes(rng, maxbody) or b'y'
        pairs.append((rng.choice(['Content-Length', 'content-length']), str(len(payload))))
        body = payload
    elif mode == 'clen0':
        pairs.append(('Content-Length', '0'))
    elif mode == 'chunked':
        payload = gen_body_bytes(rng, maxbody)
        pairs.append(('Transfer-Encoding', rng.choice(TE_VARIANTS)))
        body = gen_chunked(rng, payload)
    elif mode == 'nobody204':
        code, reason = 204, 'No Content'
        pairs.append(('X-A', 'v'))
    elif mode == 'nobody304':
        code, reason = 304, 'Not Modified'
        pairs.append(('ETag', '"abc"'))
    elif mode == 'bare204':
        code, reason = 204, 'No Content'
        pairs = []
    elif mode == 'close':
        pairs.append(('Connection', 'close'))
        body = gen_body_bytes(rng, maxbody)
    hb = gen_headers(rng, pairs) if pairs else b''
    head = f'HTTP/{ver} {code} {reason}'.encode() + CRLF + (hb + CRLF if hb else b'') + CRLF
    return head + body, mode


# ---------------------------------------------------------------------------------------
# cut classes (classifier: looks only at the bytes of the message and the cut position)
# ---------------------------------------------------------------------------------------

def cut_class(msg, c):
    i1 = msg.find(CRLF)
    if i1 < 0 or c <= i1:
        return 'inside-first-line'
    if c == i1 + 1:
        return 'between-CR-LF-of-first-line'
    rest = msg[i1 + 2:]
    if rest[:2] == CRLF:
        hend = i1 + 4
        hb = b''
    else:
        j = rest.find(CRLF2)
        if j < 0:
            return 'inside-headers'
        hend = i1 + 2 + j + 4
        hb = rest[:j]
    if c < hend - 3:
        return 'inside-headers'
    if c < hend:
        return 'inside-CRLFCRLF-of-headers'
    te = None
    has_clen = False
    for ln in hb.split(CRLF):
        if b':' in ln:
            k, v = ln.split(b':', 1)
            if k.strip().lower() == b'transfer-encoding':
                te = v.strip()
            if k.strip().lower() == b'content-length':
                has_clen = True
    chunked = te is not None and te.lower() == b'chunked' and not has_clen
    suffix = '(TE-case-variant)' if chunked and te != b'chunked' else ''
    if c == hend:
        return 'after-headers' + suffix
    if not chunked:
        return 'inside-body'
    pos = hend
    while pos < len(msg):
        e = msg.find(CRLF, pos)
        if e < 0:
            return 'inside-chunked-body' + suffix
        try:
            size = int(msg[pos:e].split(b';', 1)[0].strip(), 16)
        except ValueError:
            return 'inside-chunked-body' + suffix
        if c <= e + 1:
            return ('inside-chunk-size-line' if size else 'inside-last-chunk-line') + suffix
        data0 = e + 2
        if size == 0:
            if c == data0:
                nxt = msg[data0:data0 + 2]
                return ('before-final-CRLF-of-last-chunk' if nxt == CRLF else 'before-trailers') + suffix
            if msg[data0:data0 + 2] == CRLF:
                return ('inside-final-CRLF' if c == data0 + 1 else 'after-message') + suffix
            return 'inside-trailers' + suffix
        if c == data0:
            return 'after-chunk-size-line' + suffix
        if c < data0 + size:
            return 'inside-chunk-data' + suffix
        if c == data0 + size:
            return 'before-chunk-terminator' + suffix
        if c == data0 + size + 1:
            return 'inside-chunk-terminator' + suffix
        if c == data0 + size + 2:
            return 'between-chunks' + suffix
        pos = data0 + size + 2
    return 'inside-chunked-body' + suffix


# ---------------------------------------------------------------------------------------
# implementation runners
# ---------------------------------------------------------------------------------------

def out_kind(reqs, outs):
    if reqs:
        return 'request'
    writes = [o[2] for o in outs if o[0] == 'write']
    if writes and writes[0].startswith(b'HTTP/'):
        try:
            code = int(writes[0].split(None, 2)[1])
        except (ValueError, IndexError):
            return 'write?'
        allw = b''.join(writes)
        return {400: 'err400nohost' if b'No host header' in allw else 'err400', 505: 'err505', 301: 'redirect301',
                500: 'exn500'}.get(code, f'status{code}')
    if outs and all(o[0] == 'close' for o in outs):
        return 'closessl'
    if not outs:
        return 'wait'
    return 'other'


def run_server(rig, ident, msgs_segs):
    """-> per read: dict(kind, reqs, outs, b, c) ; b/c = membership of the socket in the tables after the read"""
    res = []
    sock = rig.sock(ident)
    for segs in msgs_segs:
        for seg in segs:
            reqs, outs = rig.read(ident, seg)
            res.append({'kind': out_kind(reqs, outs), 'reqs': [r for _i, r in reqs], 'outs': outs,
                        'b': int(sock in rig.http._buffers), 'c': int(sock in rig.http._clients),
                        'wrote': any(o[0] == 'write' for o in outs)})
    return res


def server_summary(res):
    """what the property lets an observer see of a whole delivery"""
    reqs = [r for x in res for r in x['reqs']]
    written = b''.join(o[2] for x in res for o in x['outs'] if o[0] == 'write')
    closes = sum(1 for x in res for o in x['outs'] if o[0] == 'close')
    return reqs, written, closes


def run_client(rig, msgs_segs):
    res = []
    for segs in msgs_segs:
        for seg in segs:
            res.append(rig.read(seg))
    return res


def run_parser(kind, segs):
    """real HttpParser; observable state after every execute()"""
    import httputil
    cls, log = httputil.recording_parser()
    p = cls(kind, True)
    body = b''
    out = []
    for seg in segs:
        try:
            p.execute(seg, len(seg))
        except Exception as e:
            out.append({'exn': type(e).__name__})
            break
        body += p.recv_body()
        fl = None
        hb = None
        for ent in log:
            if ent[0] == 'first' and fl is None:
                fl = ent[2].encode('latin-1', 'replace')
            if ent[0] == 'hdrs' and ent[2] is not False:
                j = ent[1].find(CRLF2)
                if ent[1] != CRLF and j >= 0:
                    hb = ent[1][:j]
        out.append({'hc': int(p.is_headers_complete()), 'mb': int(p.is_message_begin()), 'mc': int(p.is_message_complete()),
                    'errno': p.errno, 'chunked': int(p.is_chunked()), 'clen': p._clen, 'body': body, 'fl': fl, 'hb': hb,
                    'dec': [p.get_method(), p.get_path(), p.get_query_string(), p.get_version(), p.get_status_code(),
                            httputil.canon_headers(p.get_headers())]})
    return out


def parse_state(line):
    d = {}
    for tok in line.split():
        if '=' in tok:
            k, v = tok.split('=', 1)
            d[k] = v
    return d


# ---------------------------------------------------------------------------------------
# evaluation
# ---------------------------------------------------------------------------------------

def segs_of(msgs, cuts):
    return [cuts_to_segments(m, c) for m, c in zip(msgs, cuts)]


def tables_for(kind, msgs):
    t = LexTables()
    try:
        for m in msgs:
            t.add_message(kind, m)
    finally:
        LEXTIE.add_tables(t)     # every string lexed here is also put to the concrete Lean lexers (eval_lexer)
    return t


def eval_parser(ctx, cases):
    """cases: dict(kind='parser', pk=0|1, msgs=[hex], cuts=[[..]])  (single message)"""
    ops, impl, keep = [], [], []
    for c in cases:
        msg = unhx(c['msgs'][0])
        try:
            t = tables_for(c['pk'], [msg])
        except Unsupported as e:
            ctx.count('unsupported', str(e))
            continue
        segs = cuts_to_segments(msg, c['cuts'][0])
        impl.append(run_parser(c['pk'], segs))
        ops.append(t.lines() + [f"new {c['pk']}"] + [f'exec {hx(s)}' for s in segs])
        keep.append((c, len(t.lines()) + 1, t))
    answers = ctx.driver.batch('http', ops)
    for (c, skip, t), states, ans in zip(keep, impl, answers):
        ok = True
        for bad in t.inconsistent():
            ok = False
            ctx.disagree(c, {'where': 'lexh-consistency', 'impl': 'parser framing differs from Headers view', 'model': bad})
        if t.report_negative(ctx, c):
            ok = False
        for i, (st, a) in enumerate(zip(states, ans[skip:])):
            m = parse_state(a)
            if 'exn' in st:
                if m.get('exn') != '1':
                    ok = False
                    ctx.disagree(c, {'where': 'parser.exn', 'segment': i, 'impl': st['exn'], 'model': a})
                break
            want = {'hc': str(st['hc']), 'mb': str(st['mb']), 'mc': str(st['mc']),
                    'errno': '-' if st['errno'] is None else str(st['errno']), 'exn': '0',
                    'chunked': str(st['chunked']), 'clen': '-' if st['clen'] is None else str(st['clen']),
                    'body': hx(st['body'])}
            if st['fl'] is not None or m.get('fl') != '~':
                want['fl'] = '~' if st['fl'] is None else hx(st['fl'])
            if st['hc']:
                want['hb'] = '~' if st['hb'] is None else hx(st['hb'])
            diff = {k: (v, m.get(k)) for k, v in want.items() if m.get(k) != v}
            if diff:
                ok = False
                ctx.disagree(c, {'where': 'parser.state', 'segment': i, 'fields(impl,model)': diff})
                break
        ctx.count('parser_kind', c['pk'])
        ctx.case(c, nontrivial=bool(c['cuts'][0]), validated=ok)


def expected_request(t, fields):
    """model `request fl hb body` -> the record a handler must see (leaf decodings of fl / hb)"""
    fl = unhx(fields[1])
    hb = None if fields[2] == '~' else unhx(fields[2])
    f = t.first.get((0, fl))
    h = t.hdrs.get(hb) if hb is not None else {'dec': []}
    if not f or h is None:
        return None
    method, path, qs, ver, _st = f['dec']
    return {'method': method, 'path': path, 'qs': qs, 'protocol': ver, 'headers': h['dec'], 'body': unhx(fields[3])}


class RigPool:
    def __init__(self):
        self.rig = None
        self.n = 0
        self.ident = 0

    def server(self):
        import httputil
        if self.rig is None or self.n > 300:
            self.close()
            self.rig = httputil.ServerRig(reply=b'ok')
            self.n = 0
        self.n += 1
        self.ident += 1
        return self.rig, self.ident

    def close(self):
        if self.rig is not None:
            self.rig.restore()
            self.rig = None


def one_server_run(pool, msgs, cuts):
    rig, ident = pool.server()
    return run_server(rig, ident, segs_of(msgs, cuts))


def classify(msgs, cuts, fails_single):
    """signature of a failing delivery: class of the first single cut that fails on its own"""
    allc = [(k, c) for k, cs in enumerate(cuts) for c in cs]
    for k, c in allc[:40]:
        if fails_single(k, c):
            return f'cut={cut_class(msgs[k], c)}'
    classes = sorted({cut_class(msgs[k], c) for k, c in allc})
    return 'cuts=' + '+'.join(classes[:4])


def eval_server(ctx, cases):
    """cases: dict(kind='server', msgs=[hex...], cuts=[[...]...]) keep-alive sequence on one connection"""
    pool = RigPool()
    ops, keep = [], []
    one_cache = {}
    try:
        for c in cases:
            msgs = [unhx(m) for m in c['msgs']]
            try:
                t = tables_for(0, msgs)
            except Unsupported as e:
                ctx.count('unsupported', str(e))
                continue
            key = tuple(c['msgs'])
            if key not in one_cache:
                one_cache[key] = one_server_run(pool, msgs, [[] for _ in msgs])
            one = one_cache[key]
            res = one_server_run(pool, msgs, c['cuts'])
            # --- C: the property statement, on the implementation alone
            if server_summary(res) != server_summary(one):
                def fails_single(k, cut, msgs=msgs, one=one):
                    cc = [[] for _ in msgs]
                    cc[k] = [cut]
                    return server_summary(one_server_run(pool, msgs, cc)) != server_summary(one)
                sig = 'server:' + classify(msgs, c['cuts'], fails_single)
                a, b = server_summary(one), server_summary(res)
                ctx.violate(c, sig, f'one piece: {len(a[0])} request(s) {[r["body"] for r in a[0]]!r}, '
                                    f'{len(a[1])} bytes written, {a[2]} close; cut at {c["cuts"]}: {len(b[0])} request(s) '
                                    f'{[r["body"] for r in b[0]]!r}, {len(b[1])} bytes written, {b[2]} close '
                                    f'(first bytes {b[1][:40]!r} ... last status {last_status(b[1])})')
            # --- B: model
            o = t.lines()
            skip = len(o)
            plan = []
            for x, seg in zip(res, [s for segs in segs_of(msgs, c['cuts']) for s in segs]):
                o.append(f'sread 0 1 {hx(seg)}')
                plan.append(('read', x))
                if x['wrote']:
                    o.append('responded 1')
                    plan.append(('responded', x))
            for m in msgs:
                o.append(f'clean 0 {hx(m)}')
            ops.append(o)
            keep.append((c, t, skip, plan, res, msgs))
        answers = ctx.driver.batch('http', ops)
    finally:
        pool.close()
    for (c, t, skip, plan, res, msgs), ans in zip(keep, answers):
        ok = True
        for bad in t.inconsistent():
            ok = False
            ctx.disagree(c, {'where': 'lexh-consistency', 'model': bad})
        if t.report_negative(ctx, c):
            ok = False
        body_ans = ans[skip:skip + len(plan)]
        last_tab = None
        for i, ((what, x), a) in enumerate(zip(plan, body_ans)):
            if what == 'responded':
                last_tab = a.strip()
                continue
            left, tab = a.rsplit('|', 1)
            last_tab = tab.strip()
            fields = left.split()
            if fields[0] != x['kind']:
                ok = False
                ctx.disagree(c, {'where': 'server.out', 'read': i, 'impl': x['kind'], 'model': left.strip()})
                break
            if fields[0] == 'request':
                exp = expected_request(t, fields)
                if exp is None or [exp] != x['reqs']:
                    ok = False
                    ctx.disagree(c, {'where': 'server.request', 'read': i, 'impl': x['reqs'], 'model': exp})
                    break
            nxt = plan[i + 1][0] if i + 1 < len(plan) else None
            if nxt != 'responded' and tab.strip() != f"{x['b']} {x['c']}":
                ok = False
                ctx.disagree(c, {'where': 'server.tables', 'read': i, 'impl': f"{x['b']} {x['c']}", 'model': tab.strip()})
                break
        if ok and res and last_tab is not None and last_tab != f"{res[-1]['b']} {res[-1]['c']}":
            ok = False
            ctx.disagree(c, {'where': 'server.tables-final', 'impl': f"{res[-1]['b']} {res[-1]['c']}", 'model': last_tab})
        for m, a in zip(msgs, ans[skip + len(plan):]):
            ctx.count('model_clean', a)
        ctx.count('server_msgs', len(msgs))
        ctx.count('server_cuts', min(sum(len(x) for x in c['cuts']), 9))
        for k, cs in enumerate(c['cuts']):
            for cut in cs[:6]:
                ctx.count('cut_class', cut_class(msgs[k], cut))
        for x in res:
            ctx.count('server_out', x['kind'])
        ctx.case(c, nontrivial=any(c['cuts']), validated=ok)


def last_status(written):
    i = written.rfind(b'HTTP/1.')
    return written[i:i + 12]


def eval_client(ctx, cases):
    """cases: dict(kind='client', msgs=[hex...], cuts=[[...]...]) successive responses on one connection"""
    import httputil
    ops, keep = [], []
    one_cache = {}

    def run(msgs, cuts):
        rig = httputil.ClientRig()
        try:
            return run_client(rig, segs_of(msgs, cuts)), list(rig.errors)
        finally:
            rig.restore()

    for c in cases:
        msgs = [unhx(m) for m in c['msgs']]
        try:
            t = tables_for(1, msgs)
        except Unsupported as e:
            ctx.count('unsupported', str(e))
            continue
        key = tuple(c['msgs'])
        if key not in one_cache:
            one_cache[key] = run(msgs, [[] for _ in msgs])
        one, _ = one_cache[key]
        res, errs = run(msgs, c['cuts'])
        flat = lambda rr: [r for x in rr for r in x]  # noqa: E731
        if flat(res) != flat(one):
            def fails_single(k, cut, msgs=msgs, one=one):
                cc = [[] for _ in msgs]
                cc[k] = [cut]
                return flat(run(msgs, cc)[0]) != flat(one)
            sig = 'client:' + classify(msgs, c['cuts'], fails_single)
            ctx.violate(c, sig, f'one piece: {len(flat(one))} response event(s) {[(r["status"], r["body"]) for r in flat(one)]!r}; '
                                f'cut at {c["cuts"]}: {len(flat(res))} response event(s) '
                                f'{[(r["status"], r["body"]) for r in flat(res)]!r}')
        o = t.lines()
        skip = len(o)
        o.append('cnew')
        for segs in segs_of(msgs, c['cuts']):
            for seg in segs:
                o.append(f'cread {hx(seg)}')
        for m in msgs:
            o.append(f'clean 1 {hx(m)}')
        ops.append(o)
        keep.append((c, t, skip + 1, res, msgs))
    answers = ctx.driver.batch('http', ops)
    for (c, t, skip, res, msgs), ans in zip(keep, answers):
        ok = True
        for i, (x, a) in enumerate(zip(res, ans[skip:])):
            fields = a.split()
            if fields[0] == 'none':
                good = (x == [])
                exp = []
            else:
                fl = None if fields[1] == '~' else unhx(fields[1])
                hb = None if fields[2] == '~' else unhx(fields[2])
                f = t.first.get((1, fl)) if fl is not None else None
                h = t.hdrs.get(hb) if hb is not None else {'dec': []}
                if f and h is not None:
                    exp = [{'status': f['dec'][4], 'version': f['dec'][3], 'headers': h['dec'], 'body': unhx(fields[3])}]
                else:
                    exp = None
                good = (exp == x)
            if not good:
                ok = False
                ctx.disagree(c, {'where': 'client.read', 'read': i, 'impl': x, 'model': a, 'expected': exp})
                break
        for a in ans[skip + len(res):]:
            ctx.count('model_clean', a)
        for k, cs in enumerate(c['cuts']):
            for cut in cs[:6]:
                ctx.count('cut_class', cut_class(msgs[k], cut))
        ctx.count('client_events', sum(len(x) for x in res))
        ctx.case(c, nontrivial=any(c['cuts']), validated=ok)


def eval_reading(ctx, cases):
    """cases: dict(kind='reading', pk, msgs=[hex]) - the RFC-derived decomposition accepts the implementation's
    one-piece reading of the generated message (and the model's: `clean ... reading=1`)"""
    ops, keep = [], []
    for c in cases:
        msg = unhx(c['msgs'][0])
        try:
            t = tables_for(c['pk'], [msg])
        except Unsupported as e:
            ctx.count('unsupported', str(e))
            continue
        st = run_parser(c['pk'], [msg])[-1]
        o = t.lines()
        skip = len(o)
        o.append(f"clean {c['pk']} {hx(msg)}")
        if 'exn' not in st and st['fl'] is not None:
            o.append(f"reading {c['pk']} {hx(msg)} {hx(st['fl'])} {'~' if st['hb'] is None else hx(st['hb'])} {hx(st['body'])}")
        for ln, v in t.chunk.items():
            o.append(f'rfcchunk {hx(ln)}')
        ops.append(o)
        keep.append((c, t, skip, st))
    answers = ctx.driver.batch('http', ops)
    for (c, t, skip, st), ans in zip(keep, answers):
        ok = True
        a = ans[skip:]
        complete = 'exn' not in st and st['mc']
        ctx.count('reading_model', a[0])
        i = 1
        if 'exn' not in st and st['fl'] is not None:
            if complete and a[1] != 'ok':
                ok = False
                ctx.disagree(c, {'where': 'spec-reading', 'impl': {k: st[k] for k in ('fl', 'hb', 'body')}, 'model': a[1]})
            ctx.count('reading_impl', a[1] if complete else 'incomplete-message')
            i = 2
        # hypothesis of C13.wellformed_*: the chunk lexer agrees with the RFC reader where the RFC reader accepts
        for (ln, v), r in zip(t.chunk.items(), a[i:]):
            if r != 'bad' and (v is None or str(v) != r):
                ok = False
                ctx.disagree(c, {'where': 'chunk-lexer-vs-rfc', 'line': hx(ln), 'impl': v, 'model': r})
        ctx.case(c, nontrivial=True, validated=ok)


# ---------------------------------------------------------------------------------------
# the concrete lexers of the model (CV/Model/HttpLex.lean, machine `httplex`) against the leaf functions
# ---------------------------------------------------------------------------------------

def _lat(s):
    return s.encode('latin-1', 'backslashreplace')


def impl_first(kind, line):
    """what `_parse_firstline` (kind 0 / 1) makes of `line`, as the answer line the driver should give"""
    from circuits.web.parsers.http import HttpParser
    p = HttpParser(kind)
    try:
        ok = p._parse_firstline(str(line, 'unicode_escape'))
    except Exception as e:  # noqa: BLE001 - a Python exception in the leaf: outside the model
        return f'exn {type(e).__name__}'
    if not ok:
        return 'invalid'
    v = p.get_version()
    if kind == 0:
        return f'req {hx(_lat(p.get_method()))} {hx(_lat(p.get_url()))} {v[0]} {v[1]}'
    # the reason phrase has no getter: compared only while the attribute exists (`*` = not observable)
    reason = getattr(p, '_reason', None)
    return f"resp {v[0]} {v[1]} {p.get_status_code()} {hx(_lat(reason)) if isinstance(reason, str) else '*'}"


def impl_hdrs(block):
    """what `_parse_headers` makes of the header block: ('ok', framing facts, canonical fields, parser framing) | str"""
    from circuits.web.parsers.http import HttpParser, InvalidHeader
    import httputil
    p = HttpParser(0)
    try:
        p._parse_headers(block + CRLF2)
    except InvalidHeader:
        return 'invalid'
    except Exception as e:  # noqa: BLE001
        return f'exn {type(e).__name__}'
    h = p.get_headers()
    raw = h.get('content-length')
    if raw is None:
        clen = 'absent'
    else:
        try:
            clen = str(int(raw))
        except ValueError:
            clen = 'bad'
    te = h.get('transfer-encoding', '').lower() == 'chunked'
    facts = f"{clen} {int(te)} {int(bool(h.get('Host')))} {int(bool(p.is_upgrade()))}"
    return ('ok', facts, httputil.canon_headers(h), (getattr(p, '_clen', '*'), bool(p.is_chunked())))


def impl_chunk(line):
    from circuits.web.parsers.http import HttpParser, InvalidChunkSize
    try:
        size, _rest = HttpParser()._parse_chunk_size(line + CRLF2)
    except InvalidChunkSize:
        return 'invalid'
    except Exception as e:  # noqa: BLE001
        return f'exn {type(e).__name__}'
    return 'exn size-None' if size is None else f'ok {size}'


def lexer_case(lex, s, pk=0):
    return {'kind': 'lexer', 'lex': lex, 'pk': pk, 's': hx(s)}


def eval_lexer(ctx, cases):
    """cases: dict(kind='lexer', lex='first'|'hdrs'|'chunk', pk=0|1, s=hex): the Lean lexer and the leaf function of
    the tree under test on one string.  `unsupported` = the model refuses the string (counted, nothing compared)."""
    from circuits.web.headers import Headers
    import httputil
    ops, keep = [], []
    for c in cases:
        s = unhx(c['s'])
        if c['lex'] == 'first':
            ops.append(f"clex1 {c['pk']} {c['s']}")
        elif c['lex'] == 'hdrs':
            if (s + CRLF2).find(CRLF2) != len(s):
                ctx.count('concrete_lexer_skipped', 'hdrs:not-a-header-block')
                continue
            ops.append(f"clexh {c['s']}")
        else:
            if CRLF in s:
                ctx.count('concrete_lexer_skipped', 'chunk:not-a-line')
                continue
            ops.append(f"clexc {c['s']}")
        keep.append((c, s))
    answers = ctx.driver.run('httplex', ops)
    for (c, s), a in zip(keep, answers):
        name = c['lex'] + (str(c['pk']) if c['lex'] == 'first' else '')
        ctx.count('concrete_lexer_compared', name)
        ctx.count('concrete_lexer_len', f'{name}:{min(len(s) // 16 * 16, 128)}+')
        if a == 'unsupported':
            ctx.count('concrete_lexer_unsupported', name + (':backslash' if b'\\' in s else ':other'))
            ctx.case(c, nontrivial=False, validated=True)
            continue
        ok = True
        if c['lex'] == 'first':
            want = impl_first(c['pk'], s)
            if want.endswith(' *') and a.startswith('resp '):
                a = a.rsplit(' ', 1)[0] + ' *'
            if want != a:
                ok = False
                ctx.disagree(c, {'where': 'concrete-lexer', 'lexer': name, 'string': repr(s), 'impl': want, 'model': a})
        elif c['lex'] == 'chunk':
            want = impl_chunk(s)
            if want != a:
                ok = False
                ctx.disagree(c, {'where': 'concrete-lexer', 'lexer': name, 'string': repr(s), 'impl': want, 'model': a})
        else:
            want = impl_hdrs(s)
            if isinstance(want, str) or a in ('invalid', 'bad-op'):
                if want != a:
                    ok = False
                    ctx.disagree(c, {'where': 'concrete-lexer', 'lexer': name, 'string': repr(s),
                                     'impl': want if isinstance(want, str) else want[:3], 'model': a})
            else:
                f = a.split()
                facts = ' '.join(f[1:5])
                toks = f[6:]
                fields = [(unhx(toks[i]).decode('latin-1'), unhx(toks[i + 1]).decode('latin-1')) for i in range(0, len(toks), 2)]
                mh = Headers([])
                for n, v in fields:          # the model's add_header calls, stored by the real Headers class
                    mh.add_header(n, v)
                canon = httputil.canon_headers(mh)
                clen = f[1]
                framing = (int(clen), False) if clen not in ('absent', 'bad') else (None, f[2] == '1' and clen == 'absent')
                if want[3][0] == '*':       # no `_clen` attribute to look at: only is_chunked() is observable
                    framing = ('*', framing[1])
                if facts != want[1] or canon != want[2] or framing != want[3] or int(f[5]) != len(fields):
                    ok = False
                    ctx.disagree(c, {'where': 'concrete-lexer', 'lexer': name, 'string': repr(s),
                                     'impl': [want[1], want[2], want[3]], 'model': [facts, canon, framing]})
                ctx.count('concrete_lexer_fields', min(len(fields), 8))
        ctx.count('concrete_lexer_answer', name + ':' + a.split()[0])
        ctx.case(c, nontrivial=True, validated=ok)


class LexTie:
    """collects every string the table-driven correspondence lexes; `flush` compares the concrete Lean lexers on them"""

    def __init__(self):
        self.seen = set()
        self.pending = []

    def add(self, lex, s, pk=0):
        key = (lex, pk, s)
        if key not in self.seen:
            self.seen.add(key)
            self.pending.append(lexer_case(lex, s, pk))

    def add_tables(self, t):
        for (kind, fl) in t.first:
            self.add('first', fl, kind)
        for fl in getattr(t, 'exn1', ()):
            self.add('first', fl, 0)
        for hb in t.hdrs:
            self.add('hdrs', hb)
        for hb in getattr(t, 'exnh', ()):
            self.add('hdrs', hb)
        for ln in t.chunk:
            self.add('chunk', ln)

    def flush(self, ctx):
        cs, self.pending = self.pending, []
        for i in range(0, len(cs), 2000):
            eval_lexer(ctx, cs[i:i + 2000])


LEXTIE = LexTie()

LEX_ATOMS = [b' ', b'\t', b'\n', b'\r', b'\x0b', b'\x0c', b'\x1c', b'\x1f', b'\x85', b'\xa0', b'\x00', b'_', b'+', b'-', b'0x', b'0X',
             b';', b':', b'#', b'/', b'//', b'[', b']', b'?', b'.', b'0', b'1', b'9', b'a', b'f', b'F', b'g', b'x', b'HTTP/', b'1.1',
             b',', b'(', b'"', b'=', b'@', b'\x7f', b'\xe9', b'\xb5', b'\xdf', b'\xff', b'\xd7', b'\xb2', b'\\', b'\\n', b'chunked',
             b'upgrade', b'Upgrade', b'Content-Length', b'close', b'$', b'^', b'`', b'~', b'{', b'Z', b'z', b'\r\n', b'\r\n ',
             b'\r\n\t', b'200', b' OK']
LEX_FIRST0 = [b'GET / HTTP/1.1', b'POST /a/b?x=1&y=2 HTTP/1.0', b'OPTIONS * HTTP/1.1', b'GET http://h:80/p?q HTTP/1.1',
              b'GET //h/p HTTP/1.1', b'M-SEARCH * HTTP/1.1', b'GET /a#b HTTP/1.1', b'GET /a# HTTP/1.1', b'GET / HTTP/12.34',
              b'GET / HTTP/123', b'GET /  HTTP/1.1 ', b'G$T_. /x HTTP/1x1', b'A' * 20 + b' / HTTP/1.1', b'A' * 21 + b' / HTTP/1.1',
              b'get / HTTP/1.1', b'GET / HTTP/1.1\n', b'GET http://[::1]/ HTTP/1.1', b'GET / http/1.1', b'GET /']
LEX_FIRST1 = [b'HTTP/1.1 200 OK', b'HTTP/1.0 404 Not Found', b'HTTP/1.1 204 No Content', b'HTTP/1.1 200', b'HTTP/1.1 200 ',
              b'HTTP/1.1 2000 OK', b'HTTP/1.1 200 O-K', b'HTTP/1.1 200\nOK\n', b'HTTP/12.3  301   Moved_Permanently 2',
              b'HTTP/1.1 200 caf\xe9', b'HTTP/1.1 200 \xd7', b'HTTP/1234 500 x', b'HTTP/1.1\t099\tz']
LEX_HDRS = [b'Host: h', b'Host: h\r\nContent-Length: 5', b'Content-Length: 5\r\ncontent-length: 5', b'Transfer-Encoding: chunked',
            b'Transfer-Encoding: Chunked\r\nHost: example.org', b'Connection: keep-alive, Upgrade\r\nUpgrade: websocket',
            b'X-A: a\r\n b\r\n\tc\r\nX-B:  v  ', b'Content-Length: +5', b'Content-Length: 1_0', b'Content-Length:  7 ',
            b'Content-Length: 5\r\n 6', b'Set-Cookie: a=b\r\nSet-Cookie: c=d', b'Host : h', b'X A: v', b': v', b' : v', b'NoColon',
            b'Host:', b'Transfer-Encoding: chunked\r\nTransfer-Encoding: chunked', b'Connection: a,upgrade ,b', b'Content-Length: \xa05\x85',
            b'Content-Length: 0x10', b'CONTENT-length: -3', b'Transfer-Encoding: gzip, chunked', b'Transfer-Encoding: xchunked',
            b'Connection: upgraded', b'Connection: Keep-Alive,\tUPGRADE', b'X-\xe9: v', b'Host: a:b:c', b'Content-Length: ' + b'1' * 30]
LEX_CHUNK = [b'0', b'5', b'1a', b'FF', b'00a', b'5;x=y', b'5 ;x', b' 5', b'5\t', b'+5', b'-5', b'-0', b'0x1f', b'0X_1f', b'1_0', b'',
             b';', b'+', b'-', b'0x', b'1__0', b'_1', b'1_', b'g', b'5\x00', b'\x0b5\x0c', b'\x1c5', b'5\xa0', b'f' * 40, b'5;;', b'0;a;b',
             b'0_0', b'+0x_f', b'0_x1']


def mutate_lex(rng, s):
    for _ in range(rng.choice([1, 1, 1, 2, 3])):
        op = rng.random()
        i = rng.randint(0, len(s))
        if op < 0.45:
            s = s[:i] + rng.choice(LEX_ATOMS) + s[i:]
        elif op < 0.65 and s:
            j = min(len(s), i + rng.choice([1, 1, 2, 4]))
            s = s[:i] + s[j:]
        elif op < 0.85 and s:
            i = min(i, len(s) - 1)
            s = s[:i] + rng.choice(LEX_ATOMS) + s[i + 1:]
        else:
            s = s[:i] + bytes([rng.randrange(256)]) + s[i:]
    return s


def gen_lexer_cases(ctx, n):
    """lexer-level strings: the fixed boundary lists, the grammar's own lines, and 1-3 byte-level mutations of them
    (whitespace variants, signs, underscores, prefixes, separators, control / high bytes, backslashes)"""
    rng = ctx.rng
    out = []
    for s in LEX_FIRST0:
        out.append(lexer_case('first', s, 0))
    for s in LEX_FIRST1:
        out.append(lexer_case('first', s, 1))
    for s in LEX_HDRS:
        out.append(lexer_case('hdrs', s))
    for s in LEX_CHUNK:
        out.append(lexer_case('chunk', s))
    for _ in range(n):
        which = rng.random()
        if which < 0.3:
            base = rng.choice(LEX_FIRST0) if rng.random() < 0.5 else gen_request(rng, maxbody=0, force='none').split(CRLF)[0]
            out.append(lexer_case('first', mutate_lex(rng, base), 0))
        elif which < 0.45:
            base = rng.choice(LEX_FIRST1) if rng.random() < 0.5 else gen_response(rng, maxbody=0)[0].split(CRLF)[0]
            out.append(lexer_case('first', mutate_lex(rng, base), 1))
        elif which < 0.75:
            if rng.random() < 0.5:
                base = rng.choice(LEX_HDRS)
            else:
                m = gen_request(rng, maxbody=3)
                base = m[m.find(CRLF) + 2:m.find(CRLF2)] if CRLF2 in m else b'Host: h'
            out.append(lexer_case('hdrs', mutate_lex(rng, base)))
        else:
            base = rng.choice(LEX_CHUNK) if rng.random() < 0.6 else (b'%x' % rng.randrange(1 << rng.choice([4, 8, 16, 70]))) + rng.choice(EXTS)
            out.append(lexer_case('chunk', mutate_lex(rng, base)))
    return out


def lexer_params(ctx):
    """the character tables and regex sources the concrete lexers mirror, against the live Python / module (all 256 code points)"""
    import re
    import circuits.web.parsers.http as ph
    pats = (ph.METHOD_RE.pattern, ph.VERSION_RE.pattern, ph.STATUS_RE.pattern, ph.HEADER_RE.pattern)
    want = ('^[A-Z0-9$-_.]{1,20}$', r'^HTTP/(\d+).(\d+)$', r'^(\d{3})(?:\s+([\s\w]*))$', '[\\x00-\\x1F\\x7F()<>@,;:/\\[\\]={} \\t\\\\"]')
    ctx.param('METHOD_RE / VERSION_RE / STATUS_RE / HEADER_RE are the patterns quoted in CV/Model/HttpLex.lean', pats == want, repr(pats))
    ans = ctx.driver.run('httplex', [f'ccls {n}' for n in range(256)])
    bad = []

    def int_ok(x):
        try:
            return int(x) == 1
        except ValueError:
            return False
    for n, a in enumerate(ans):
        bits, up, lo = a.split()
        ch = chr(n)
        py = ''.join(str(int(bool(x))) for x in (
            ch.isspace() and re.match(r'\s', ch) and (ch + 'a' + ch).strip() == 'a' and len(('a' + ch + 'a').split()) == 2,
            (bytes([n]) + b'a' + bytes([n])).strip() == b'a',
            int_ok(ch + '1' + ch),
            re.match(r'\d', ch),
            re.match(r'\w', ch),
            ph.METHOD_RE.match(ch),
            ph.HEADER_RE.search(ch)))
        ok = bits == py
        if n < 128:
            ok = ok and ord(ch.upper()) == int(up) and ord(ch.lower()) == int(lo)
        else:
            ok = ok and len(ch.lower()) == 1 and ord(ch.lower()) >= 128 and int(lo) == n
        if not ok:
            bad.append((n, a, py))
    ctx.param('character classes of the concrete lexers (isspace, bytes.strip, int() whitespace, \\d, \\w, METHOD_RE, HEADER_RE, '
              'upper/lower) agree with the live Python on all 256 code points', not bad, repr(bad[:6]))


# ---------------------------------------------------------------------------------------
# case generation
# ---------------------------------------------------------------------------------------

def cut_lists(rng, n, randoms, pairs=False):
    out = [[c] for c in range(1, n)]
    if n > 1:
        out.append(list(range(1, n)))      # byte at a time
    for _ in range(randoms):
        k = rng.randint(2, max(2, min(8, n - 1)))
        if n > 2:
            out.append(sorted(rng.sample(range(1, n), min(k, n - 1))))
    if pairs and n <= 70:
        out.extend([list(p) for p in itertools.combinations(range(1, n), 2)])
    return out


FIXED_REQUESTS = [
    b'GET / HTTP/1.0\r\n\r\n',
    b'GET /a?x=1 HTTP/1.1\r\nHost: h\r\n\r\n',
    b'POST /a HTTP/1.1\r\nHost: h\r\nTransfer-Encoding: chunked\r\n\r\n3\r\nabc\r\n0\r\n\r\n',
    b'POST /a HTTP/1.1\r\nHost: h\r\nTransfer-Encoding: Chunked\r\n\r\n3\r\nabc\r\n0\r\n\r\n',
    b'POST /a HTTP/1.1\r\nHost: h\r\nTransfer-Encoding: chunked\r\n\r\n1;x=y\r\n\r\r\n2\r\n\n0\r\n0\r\nX-T: v\r\n\r\n',
    b'PUT /b HTTP/1.1\r\nHost: h\r\nContent-Length: 5\r\n\r\n\r\n\r\n0',
    b'POST / HTTP/1.0\r\nContent-Length: 0\r\n\r\n',
]
FIXED_RESPONSES = [
    b'HTTP/1.1 200 OK\r\nContent-Length: 2\r\n\r\nhi',
    b'HTTP/1.1 204 No Content\r\n\r\n',
    b'HTTP/1.1 200 OK\r\nTransfer-Encoding: chunked\r\n\r\n2\r\nhi\r\n0\r\n\r\n',
    b'HTTP/1.0 200 OK\r\nConnection: close\r\n\r\nuntil close',
]


def gen_cases(ctx):
    rng = ctx.rng
    sc = ctx.scale
    thorough = ctx.tier == 'thorough' or ctx.searching
    cases = {'parser': [], 'server': [], 'client': [], 'reading': []}
    reqs = list(FIXED_REQUESTS) + [gen_request(rng, maxbody=40) for _ in range(14 * sc)]
    if thorough:
        reqs += [gen_request(rng, maxbody=rng.choice([200, 2000, 20000]), force=rng.choice(['clen', 'chunked'])) for _ in range(2 * sc)]
    resps = list(FIXED_RESPONSES) + [gen_response(rng, maxbody=40)[0] for _ in range(10 * sc)]
    for m in reqs:
        n = len(m)
        big = n > 1500
        cases['reading'].append({'kind': 'reading', 'pk': 0, 'msgs': [hx(m)]})
        cl = cut_lists(rng, n if not big else 1, 4, pairs=thorough and n <= 60)
        if big:
            cl = [[c] for c in sorted(rng.sample(range(1, n), 60))] + [sorted(rng.sample(range(1, n), 9)) for _ in range(6)]
        for cuts in [[]] + cl:
            cases['server'].append({'kind': 'server', 'msgs': [hx(m)], 'cuts': [cuts]})
        for cuts in ([[]] + cl)[: (200 if not big else 20)]:
            if len(cuts) <= 1 or len(cuts) == n - 1 or rng.random() < 0.3:
                cases['parser'].append({'kind': 'parser', 'pk': 0, 'msgs': [hx(m)], 'cuts': [cuts]})
    for m in resps:
        n = len(m)
        cases['reading'].append({'kind': 'reading', 'pk': 1, 'msgs': [hx(m)]})
        cl = cut_lists(rng, n, 3, pairs=thorough and n <= 50)
        for cuts in [[]] + cl:
            cases['client'].append({'kind': 'client', 'msgs': [hx(m)], 'cuts': [cuts]})
            if len(cuts) <= 1 or len(cuts) == n - 1:
                cases['parser'].append({'kind': 'parser', 'pk': 1, 'msgs': [hx(m)], 'cuts': [cuts]})
    # keep-alive sequences: each request follows the previous response
    for _ in range(6 * sc):
        k = rng.randint(2, 4)
        seq = [gen_request(rng, maxbody=20) for _ in range(k)]
        seq = [m.replace(b'HTTP/1.0', b'HTTP/1.1') if b'Host' in m else m for m in seq]
        for _ in range(6):
            cuts = []
            for m in seq:
                mode = rng.random()
                if mode < 0.2:
                    cuts.append([])
                elif mode < 0.35:
                    cuts.append(list(range(1, len(m))))
                else:
                    cuts.append(sorted(rng.sample(range(1, len(m)), min(rng.randint(1, 5), len(m) - 1))))
            cases['server'].append({'kind': 'server', 'msgs': [hx(m) for m in seq], 'cuts': cuts})
    for _ in range(5 * sc):
        k = rng.randint(2, 3)
        seq = []
        while len(seq) < k:
            m, mode = gen_response(rng, maxbody=20)
            if mode in ('clen', 'clen0', 'chunked', 'bare204'):
                seq.append(m)
        for _ in range(6):
            cuts = []
            for m in seq:
                mode = rng.random()
                if mode < 0.2:
                    cuts.append([])
                elif mode < 0.35:
                    cuts.append(list(range(1, len(m))))
                else:
                    cuts.append(sorted(rng.sample(range(1, len(m)), min(rng.randint(1, 5), len(m) - 1))))
            cases['client'].append({'kind': 'client', 'msgs': [hx(m) for m in seq], 'cuts': cuts})
    return cases


def _webclient(ctx, cases):
    import c13_client          # the client *component* (circuits.web.client.Client) under the correspondence
    for c in cases:
        c13_client.replay(ctx, c)


EVAL = {'parser': eval_parser, 'server': eval_server, 'client': eval_client, 'reading': eval_reading, 'lexer': eval_lexer,
        'webclient': _webclient, 'weburl': _webclient}


def _pipe(ctx, cases):
    import c13_pipe
    return c13_pipe.eval_pipe(ctx, cases)


EVAL['pipe'] = _pipe


def params(ctx):
    from circuits.web.constants import SERVER_PROTOCOL
    ctx.param('SERVER_PROTOCOL major is 1 (model: 505 iff request major != 1)', tuple(SERVER_PROTOCOL)[0] == 1,
              repr(SERVER_PROTOCOL))
    import circuits.web.parsers.http as ph
    ctx.param('errno constants BAD_FIRST_LINE, INVALID_HEADER, INVALID_CHUNK = 0, 1, 2',
              (ph.BAD_FIRST_LINE, ph.INVALID_HEADER, ph.INVALID_CHUNK) == (0, 1, 2),
              repr((ph.BAD_FIRST_LINE, ph.INVALID_HEADER, ph.INVALID_CHUNK)))
    from circuits.net.utils import is_ssl_handshake
    samples = [b'', b'G', b'GE', b'\x80', b'\x80\x09', b'\x80\x0a', b'\x81', b'\x81\x00', b'\x16\x03\x01', b'\xff\xff', b'\x7f\xff']
    ans = ctx.driver.run('http', [f'ssl {hx(s)}' for s in samples])
    ok = all(bool(is_ssl_handshake(s)) == (a == '1') for s, a in zip(samples, ans))
    ctx.param('is_ssl_handshake agrees with CV.Http.sslHandshake on boundary samples', ok, repr(ans))


def run(ctx):
    ctx.rule = ('grammar-generated requests/responses (methods, targets with query, header sets incl. continuation lines and '
                'case variants, bodies: none / Content-Length incl. 0 / chunked with extensions, leading zeros, trailers, '
                'TE case variants; responses: 200.., 204/304, Content-Length, chunked, read-until-close) x every single '
                'cut (exhaustive per message) + byte-at-a-time + random k-cuts (+ all 2-cut pairs for short messages in '
                'thorough); keep-alive sequences of 2-4 requests / 2-3 responses; non-trivial = at least one cut; '
                'distinct = distinct (messages, cut lists)')
    ctx.trusted += [
        'lexical leaf functions (unicode_escape, str.split, regexes, urlsplit, Headers, int(.,16), path guard) are '
        'parameters of the parser model in the parser / server / client ties; instantiated per message by calling the '
        'implementation\'s own leaf methods',
        'concrete lexers (CV/Model/HttpLex.lean, theorems C13.*_concrete / lex*_roundtrip / lexChunk_*): compared string by '
        'string with the same leaf methods (histograms concrete_lexer_*); outside their domain and left to the '
        'implementation: strings with a backslash (unicode_escape), first lines / Content-Length values over 4000 '
        'characters, targets with // and brackets or non-ASCII (urlsplit ValueError), non-ASCII header names; urlsplit\'s '
        'path/query/scheme and the canonical-path guard remain parameters',
        'Content-Encoding gzip/deflate (decompress), Upgrade responses: outside the model; HEAD, Expect: 100-continue and pipelined streams: c13_pipe (reads that straddle a request boundary are tied, not judged)',
        'in-process rig: read events fired on channel web, write/close captured, Date header frozen',
    ]
    ctx.assumptions += ['theorems assume a clean one-piece run (no byte beyond the end of the message, no parser error); '
                        'evaluated per generated message by the driver (histogram model_clean)']
    if not ctx.searching:
        params(ctx)
        lexer_params(ctx)
    for c in ctx.corpus():
        EVAL[c['kind']](ctx, [c])
    cases = gen_cases(ctx)
    lexcases = gen_lexer_cases(ctx, 1500 * ctx.scale)
    for i in range(0, len(lexcases), 2000):
        eval_lexer(ctx, lexcases[i:i + 2000])
    for kind in ('reading', 'parser', 'server', 'client'):
        cs = cases[kind]
        for i in range(0, len(cs), 250):
            EVAL[kind](ctx, cs[i:i + 250])
            LEXTIE.flush(ctx)
            if ctx.time_up():
                return
    import c13_client
    c13_client.run(ctx)
    import c13_pipe
    c13_pipe.run(ctx)


def search(ctx):
    run(ctx)


def replay(ctx, case):
    EVAL[case['kind']](ctx, [case])
    LEXTIE.flush(ctx)

"""C02 - see core_mod.SPEC['C02'] (generators, projections) and core_props.oracle_c02 (spec on the implementation)."""
import core_mod


def run(ctx):
    core_mod.run(ctx, 'C02')


def search(ctx):
    core_mod.run(ctx, 'C02')


def replay(ctx, case):
    core_mod.replay(ctx, 'C02', case)

"""C02 - see core_mod.SPEC['C02'] (generators, projections) and core_props.oracle_c02 (spec on the implementation).

Plus a directed, implementation-only case list `refire_cases` (both tiers): handlers that call `event.stop()` and, in
the same invocation, fire an event again - the very event object they are handling (a retry / forward idiom), another
event object of the same name, or nothing.  The `fire()` must not change what the current dispatch does: after `stop()` no
handler of lower priority runs for this dispatch; the handlers that run are in descending priority; the re-fired
object is dispatched again in a later pass, from the top.  (The Act language of the core model creates a fresh event
object for every `fire`; only Timers re-fire an object there, so these programs are evaluated on the implementation alone.)
"""
import core_mod
import framework


def run(ctx):
    core_mod.run(ctx, 'C02')
    refire_cases(ctx)
    bigpass_cases(ctx)


def search(ctx):
    core_mod.run(ctx, 'C02')
    refire_cases(ctx)
    bigpass_cases(ctx)


def replay(ctx, case):
    if case.get('kind') == 'refire':
        check_refire(ctx, case)
    elif case.get('kind') == 'bigpass':
        check_bigpass(ctx, case)
    else:
        core_mod.replay(ctx, 'C02', case)


PRIOS = [2.5, 1, 0, -0.5, -3]


def refire_cases(ctx):
    """stopper = index (in descending priority order) of the handler that stops; what = what it fires after (or before)
    the stop; order = fire-then-stop or stop-then-fire; fire_prio = priority of that fire; times = how often the handler
    does it (the re-fired object comes round again); flushes from inside / outside"""
    for stopper in (0, 1, 2, 3):
        for what in ('same', 'new', 'none'):
            for order in ('stop-fire', 'fire-stop'):
                for fire_prio in (0, 2, -1):
                    for times in (1, 2):
                        if what == 'none' and (order != 'stop-fire' or fire_prio != 0 or times != 1):
                            continue
                        check_refire(ctx, {'kind': 'refire', 'stopper': stopper, 'what': what, 'order': order,
                                           'fire_prio': fire_prio, 'times': times})


def run_refire(case):
    """returns (passes, stops, fires): a pass = list of (event tag, handler priority) in invocation order;
    stops = {tag: priority of the first handler that stopped it}; fires = {tag: how often it was fired}"""
    framework.setup_import_path()
    from circuits import Component, Event, handler

    class ping(Event):
        pass

    passes = [[]]
    state = {'n': 0, 'tags': {}, 'keep': []}
    stops, fires = {}, {}

    def tag(ev):
        if id(ev) not in state['tags']:
            state['tags'][id(ev)] = len(state['tags'])
            state['keep'].append(ev)
        return state['tags'][id(ev)]

    def make(prio, idx):
        @handler('ping', priority=prio)
        def h(self, event, *args):
            passes[-1].append((tag(event), prio))
            if idx == case['stopper'] and state['n'] < case['times']:
                state['n'] += 1

                def again():
                    if case['what'] == 'same':
                        fires[tag(event)] = fires.get(tag(event), 0) + 1
                        self.fire(event, priority=case['fire_prio'])
                    elif case['what'] == 'new':
                        e2 = ping()
                        fires[tag(e2)] = 1
                        self.fire(e2, priority=case['fire_prio'])

                def stop():
                    stops.setdefault(tag(event), prio)
                    event.stop()
                if case['order'] == 'fire-stop':
                    again()
                    stop()
                else:
                    stop()
                    again()
        return h

    App = type('App', (Component,), {f'h{i}': make(p, i) for i, p in enumerate(PRIOS)})
    app = App()
    first = ping()
    fires[tag(first)] = 1
    app.fire(first)
    for _ in range(8):
        if not len(app._queue):
            break
        app.flush()
        passes.append([])
    return [p for p in passes if p], stops, fires


def check_refire(ctx, case):
    passes, stops, fires = run_refire(case)
    ctx.case(case, nontrivial=True, validated=True)
    ctx.count('refire', f"{case['what']}:{case['order']}")
    stopped = {}            # tag -> priority of the stopping handler, from the moment it stopped
    ndisp = {}
    for p in passes:
        i = 0
        while i < len(p):                       # one dispatch = a maximal run of invocations for one event object
            j = i
            while j < len(p) and p[j][0] == p[i][0]:
                j += 1
            t = p[i][0]
            prios = [x[1] for x in p[i:j]]
            ndisp[t] = ndisp.get(t, 0) + 1
            if prios != sorted(prios, reverse=True):
                ctx.violate(case, 'handler-order(refire)', f'handler priorities in invocation order {prios} are not descending')
                return
            for q in prios:
                if t in stopped and q < stopped[t]:
                    ctx.violate(case, 'ran-after-stop(refire)',
                                f'the handler of priority {stopped[t]} called stop() on the event (and fired: {case["what"]}, '
                                f'{case["order"]}, priority {case["fire_prio"]}), yet a handler of priority {q} ran for it '
                                f'afterwards: passes {passes}')
                    return
                if t in stops and q == stops[t]:
                    stopped[t] = q
            if t not in stops and prios != PRIOS:
                ctx.violate(case, 'handlers-skipped(refire)', f'an event nobody stopped was handled by {prios} only: passes {passes}')
                return
            i = j
    if ndisp != fires:
        ctx.violate(case, 'dispatch-count(refire)', f'fired {fires} times, dispatched {ndisp} times (by event object): passes {passes}')


# ---------------------------------------------------------------------------------------------------------------------
# directed, implementation-only: passes far larger than the random programs reach.  C02 quantifies over "every program of
# fire(priority=p) calls"; the theorems have no size bound, but whether the code really takes *everything that was queued
# when the pass began* into one pass (and not, say, the first thousand) only shows when that many events are queued.
# ---------------------------------------------------------------------------------------------------------------------

BIG_N = [3, 40, 700, 1500, 5000]


def bigpass_cases(ctx):
    for n in BIG_N + ([20000] if ctx.scale > 1 else []):
        for where in ('outside', 'handler'):
            for mix in ('late-urgent', 'grid'):
                check_bigpass(ctx, {'kind': 'bigpass', 'n': n, 'where': where, 'mix': mix, 'seed': ctx.rng.randrange(10 ** 6)})


def run_bigpass(case):
    """-> (order of dispatch as fire indices, expected order, escaped)"""
    import random
    framework.setup_import_path()
    from circuits import BaseComponent, Event, handler
    n, where, mix = case['n'], case['where'], case['mix']
    r = random.Random(case['seed'])
    if mix == 'late-urgent':
        prios = [0] * n + [-1, -0.5, 2.5, 0]       # the urgent ones are fired last
    else:
        prios = [r.choice(PRIOS) for _ in range(n + 4)]

    class go(Event):
        pass

    class item(Event):
        pass

    seen = []

    class App(BaseComponent):
        @handler('go')
        def _on_go(self):
            for i, p in enumerate(prios):
                self.fire(item(i), priority=p)

        @handler('item')
        def _on_item(self, i):
            seen.append(i)

    app = App()
    escaped = None
    try:
        if where == 'outside':
            for i, p in enumerate(prios):
                app.fire(item(i), priority=p)
        else:
            app.fire(go())
            app.flush()           # the pass that runs the handler; the items are queued for the next pass
        app.flush()               # ONE pass: everything that was queued when it began
        first_pass = list(seen)
        k = 0
        while len(app) and k < 100:
            app.flush()
            k += 1
    except BaseException as e:  # noqa: BLE001
        escaped = type(e).__name__
        first_pass = list(seen)
    want = [i for _p, i in sorted((p, i) for i, p in enumerate(prios))]
    return first_pass, list(seen), want, escaped


def check_bigpass(ctx, case):
    with ctx.guard(case, what='Manager.flush() of one large pass'):
        first, allseen, want, escaped = run_bigpass(case)
    size = 'n>1000' if case['n'] > 1000 else 'small'
    ctx.count('bigpass', f"n={case['n']}:{case['where']}:{case['mix']}")
    ctx.case(case, nontrivial=case['n'] > 3)
    if escaped:
        ctx.violate(case, f'loop-died({escaped};{size})', f'{escaped} left flush() with {case["n"]} events queued')
        return
    if first != want:
        j = next((k for k, (a, b) in enumerate(zip(first, want)) if a != b), min(len(first), len(want)))
        ctx.violate(case, f'pass-order(big-pass;{size})',
                    f"{case['n'] + 4} events queued before one flush pass ({case['where']}): dispatch #{j} of the pass was event "
                    f"{first[j] if j < len(first) else None}, expected {want[j] if j < len(want) else None} "
                    f"(ascending priority, then firing order); the pass dispatched {len(first)} of {len(want)}")

"""
C10 - Pollers report exactly the registered-and-ready descriptors; all three agree.

One history of operations is applied, in the same process, to a real Select, a real Poll and a
real EPoll (each under its own Manager) over one pool of real socketpairs, and to the Lean model
(machine `poller`, one model per kind).

Correspondence (B): per operation `ok`/`raised`, per zero-timeout round the set of fired
`_read/_write/_disconnect` events with their channels, and `isReading/isWriting/getTarget`
of the touched object  vs.  CV.Model.Poller.  The kernel is part of what is validated: the
readiness handed to the model comes from an independent fresh `select.poll()` probe.
Spec on impl (C): CV.Poller.roundFail (PollerSpec.lean) is evaluated by the Lean driver on the
implementation's own observation stream, per poller; and CV.Poller.agreeObs
(same events from the three pollers for healthy descriptors until the first _disconnect) is compared
here (`pollers-disagree`).
"""
import errno
import itertools
import os
import select
import socket
import types

from framework import ddmin

KINDS = ['select', 'poll', 'epoll']
EVNAMES = {'_read': 'r', '_write': 'w', '_disconnect': 'd', '_error': 'e'}
NCHAN = 3
MAXOBJ = 16          # objects per history (8 socketpairs)


class GE:
    """stand-in for the generate_events event: zero timeout"""
    time_left = 0

    def stop(self):
        pass

    def reduce_time_left(self, _t):
        pass


def _drain(m):
    n = 0
    while len(m):
        m.flush()
        n += 1
        if n > 1000:
            raise RuntimeError('queue does not drain')


class Rig:
    """three real pollers over one pool of socketpairs"""

    def __init__(self):
        from circuits import Manager
        from circuits.core.pollers import EPoll, Poll, Select
        from cutil import Capture
        self.m, self.p, self.cap = {}, {}, {}
        for k, K in zip(KINDS, (Select, Poll, EPoll)):
            m = Manager()
            self.p[k] = K().register(m)
            self.cap[k] = Capture(set(EVNAMES)).register(m)
            _drain(m)
            self.m[k] = m
        self.socks = {}     # object id -> socket (kept for ever: identity must stay unique)
        self.ids = {}       # id(socket) -> object id
        self.ever = []      # file numbers used by pool objects, in order of first use
        self.nxt = 1
        self.src = {c: types.SimpleNamespace(channel=f'c{c}') for c in range(1, NCHAN + 1)}

    def open_pair(self):
        a, b = socket.socketpair()
        res = []
        for s in (a, b):
            s.setblocking(False)
            s.setsockopt(socket.SOL_SOCKET, socket.SO_SNDBUF, 4096)
            o = self.nxt
            self.nxt += 1
            self.socks[o] = s
            self.ids[id(s)] = o
            if s.fileno() not in self.ever:
                self.ever.append(s.fileno())
            res.append((o, s.fileno()))
        return res

    def is_open(self, o):
        return o in self.socks and self.socks[o].fileno() >= 0

    def probe(self):
        """true readiness of every open pool file, asked from a fresh poll object"""
        pp = select.poll()
        byno = {}
        for o, s in self.socks.items():
            if s.fileno() >= 0:
                pp.register(s.fileno(), select.POLLIN | select.POLLOUT)
                byno[s.fileno()] = 0
        for f, ev in pp.poll(0):
            byno[f] = ((1 if ev & select.POLLIN else 0) | (2 if ev & select.POLLOUT else 0)
                       | (4 if ev & select.POLLHUP else 0) | (8 if ev & select.POLLERR else 0))
        return ' '.join(f'{f}:{byno[f]}' if f in byno else f'{f}:x' for f in self.ever)

    def chan_token(self, k, ch):
        if isinstance(ch, str) and ch.startswith('c') and ch[1:].isdigit():
            return ch[1:]
        if ch is self.m[k]:
            return 'p'
        return f'?{ch!r}'

    def round(self, k):
        cap = self.cap[k]
        del cap.log[:]
        try:
            self.p[k]._generate_events(GE())
            _drain(self.m[k])
        except Exception as e:  # a round must never raise
            return None, f'{type(e).__name__}: {e}'
        toks = []
        for name, args, _kw, channels in cap.log:
            o = self.ids.get(id(args[0]), '?') if args else '?'
            for ch in channels:
                toks.append(f'{EVNAMES[name]}:{o}:{self.chan_token(k, ch)}')
        return sorted(toks), None

    def query(self, k, o):
        p, s = self.p[k], self.socks[o]
        return f'{int(bool(p.isReading(s)))} {int(bool(p.isWriting(s)))} {self.chan_token(k, p.getTarget(s))}'

    def shutdown(self):
        for s in self.socks.values():
            try:
                s.close()
            except OSError:
                pass
        for k in KINDS:
            p = self.p[k]
            for fd in (p._ctrl_recv, p._ctrl_send):
                try:
                    os.close(fd) if isinstance(fd, int) else fd.close()
                except OSError:
                    pass
            if k == 'epoll':
                try:
                    p._poller.close()
                except Exception:
                    pass


def execute(ops):
    """run a history on the implementation.
    Returns {kind: [(model_line, impl_answer, spec_line|None)]}, stats"""
    rig = Rig()
    rec = {k: [] for k in KINDS}
    stats = {'reuse': 0, 'events': 0, 'raised': 0, 'rounds': 0, 'round_exc': [], 'round_info': []}

    def both(line, answers, spec=True, specline=None):
        for k in KINDS:
            rec[k].append((line, answers[k] if isinstance(answers, dict) else answers,
                           (specline[k] if isinstance(specline, dict) else (specline or f'spec {line}')) if spec else None))

    try:
        for idx, op in enumerate(ops):
            name = op[0]
            if name == 'open':
                if rig.nxt + 1 > MAXOBJ:
                    continue
                used_before = set(rig.ever)
                for o, f in rig.open_pair():
                    if f in used_before:
                        stats['reuse'] += 1
                    both(f'op {o} {f}', 'ok')
                continue
            if name == 'poll':
                ready = rig.probe()
                line = f'po {ready}'
                ans, spl = {}, {}
                for k in KINDS:
                    toks, exc = rig.round(k)
                    if toks is None:
                        stats['round_exc'].append((k, idx, exc))
                        ans[k] = f'round-raised {exc}'
                        spl[k] = f'spec {line} |'
                    else:
                        ans[k] = ' '.join(toks) if toks else '-'
                        spl[k] = f"spec {line} | {' '.join(toks)}"
                        stats['events'] += len(toks)
                stats['rounds'] += 1
                # open descriptors without HUP/ERR, by object (for the interchangeability comparison)
                healthy = set()
                bits = dict(t.split(':') for t in ready.split())
                for o, s in rig.socks.items():
                    if s.fileno() >= 0 and bits.get(str(s.fileno()), 'x') != 'x' and int(bits[str(s.fileno())]) & 12 == 0:
                        healthy.add(o)
                stats['round_info'].append(healthy)
                both(line, ans, specline=spl)
                continue
            o = op[1]
            if o not in rig.socks:
                continue
            s = rig.socks[o]
            if name == 'close':
                if s.fileno() < 0:
                    continue
                s.close()
                both(f'cl {o}', 'ok')
            elif name == 'send':
                try:
                    s.send(b'x')
                except (OSError, ValueError):
                    pass
            elif name == 'recv':
                try:
                    while s.recv(65536):
                        pass
                except (OSError, ValueError):
                    pass
            elif name == 'fill':
                try:
                    for _ in range(4096):
                        s.send(b'z' * 4096)
                except (OSError, ValueError):
                    pass
            elif name in ('ar', 'aw', 'rr', 'rw', 'di'):
                ans = {}
                for k in KINDS:
                    p = rig.p[k]
                    try:
                        if name == 'ar':
                            p.addReader(rig.src[op[2]], s)
                        elif name == 'aw':
                            p.addWriter(rig.src[op[2]], s)
                        elif name == 'rr':
                            p.removeReader(s)
                        elif name == 'rw':
                            p.removeWriter(s)
                        else:
                            p.discard(s)
                        ans[k] = 'ok'
                    except ValueError:
                        ans[k] = 'raised'
                        stats['raised'] += 1
                    except Exception as e:
                        ans[k] = f'raised-{type(e).__name__}'
                line = f'{name} {o} {op[2]}' if name in ('ar', 'aw') else f'{name} {o}'
                both(line, ans)
                both(f'q {o}', {k: rig.query(k, o) for k in KINDS}, spec=False)
            else:
                raise ValueError(f'unknown op {op!r}')
    finally:
        rig.shutdown()
    return rec, stats


def driver_lines(rec, k):
    lines = [f'kind {k}']
    for line, _ans, spec in rec[k]:
        lines.append(line)
        if spec:
            lines.append(spec)
    return lines


def judge(rec, k, answers):
    """-> (disagreements [(index, line, impl, model)], spec failures [(index, clause)], cleans [bool per round])"""
    dis, fails, cleans = [], [], []
    it = iter(answers[1:])
    for i, (line, ans, spec) in enumerate(rec[k]):
        got = next(it)
        if line.startswith('po '):
            got = ' '.join(sorted(got.split())) if got != '-' else '-'
        if got != ans:
            dis.append((i, line, ans, got))
        if spec:
            sa = next(it)
            if sa.startswith('fail'):
                fails.append((i, sa.split(' ', 1)[1]))
                cleans.append(None)
            elif sa.startswith('ok'):
                if line.startswith('po '):
                    cleans.append((sa.startswith('ok clean'), sa.endswith('blind')))
            else:
                dis.append((i, spec, 'spec observer accepts the line', sa))
    return dis, fails, cleans


def features(ops):
    names = sorted({op[0] for op in ops} - {'open', 'poll', 'send', 'recv', 'fill'})
    return ','.join(names)


def shrink(ctx, ops, k, clause):
    budget = [60]

    def fails(sub):
        if budget[0] <= 0:
            return False
        budget[0] -= 1
        try:
            rec, st = execute(sub)
        except Exception:
            return False
        if clause == 'round-exception':
            return any(kk == k for kk, _i, _e in st['round_exc'])
        ans = ctx.driver.run('poller', driver_lines(rec, k))
        _d, fl, _c = judge(rec, k, ans)
        return any(c == clause for _i, c in fl)

    try:
        return ddmin(ops, fails)
    except Exception:
        return ops


def shrink_agree(ctx, ops):
    budget = [60]

    def fails(sub):
        if budget[0] <= 0:
            return False
        budget[0] -= 1
        try:
            rec, st = execute(sub)
        except Exception:
            return False
        res = {k: judge(rec, k, ctx.driver.run('poller', driver_lines(rec, k))) for k in KINDS}
        return bool(disagreeing_rounds(rec, res, st['round_info']))

    try:
        return ddmin(ops, fails)
    except Exception:
        return ops


def disagreeing_rounds(rec, res, info):
    """CV.Poller.agreeObs / agreeFrom on the implementation: while no poller has fired a _disconnect, in
    every round that is not blind the three pollers must fire the same events for every open
    descriptor that is not hung up / in error"""
    out = []
    rounds = {k: [(i, ans) for i, (line, ans, _s) in enumerate(rec[k]) if line.startswith('po ')] for k in KINDS}
    n = min(len(rounds[k]) for k in KINDS)
    for r in range(min(n, len(info))):
        if not all(r < len(res[k][2]) and res[k][2][r] is not None for k in KINDS):
            break                      # a spec failure is reported on its own
        if any(rounds[k][r][1].startswith('round-raised') for k in KINDS):
            break
        blind = any(res[k][2][r][1] for k in KINDS)
        if not blind:
            healthy = info[r]
            sets = {k: frozenset(t for t in rounds[k][r][1].split()
                                 if t != '-' and t.split(':')[1].isdigit() and int(t.split(':')[1]) in healthy)
                    for k in KINDS}
            if len(set(sets.values())) > 1:
                out.append((r, {k: sorted(v) for k, v in sets.items()}))
        if any(t.startswith('d:') for k in KINDS for t in rounds[k][r][1].split()):
            break                      # from here on the pollers may legitimately differ
    return out


def evaluate(ctx, cases, do_shrink=True):
    """cases: [{'ops': [...]}]"""
    recs, batch = [], []
    for c in cases:
        rec, st = execute(c['ops'])
        recs.append((rec, st))
        for k in KINDS:
            batch.append(driver_lines(rec, k))
    # ctx.driver.batch resets first, then our own `kind` line
    answers = ctx.driver.batch('poller', batch)
    for ci, c in enumerate(cases):
        rec, st = recs[ci]
        ok = True
        res = {}
        for ki, k in enumerate(KINDS):
            dis, fails, cleans = judge(rec, k, answers[ci * 3 + ki])
            res[k] = (dis, fails, cleans)
            for i, line, impl, model in dis[:1]:
                ok = False
                ctx.disagree(c, {'where': f'{k}.{line.split()[0]}', 'kind': k, 'index': i, 'line': line,
                                 'impl': impl, 'model': model})
            seen = set()
            for i, clause in fails:
                if clause in seen:
                    continue
                seen.add(clause)
                ops = shrink(ctx, c['ops'], k, clause) if do_shrink else c['ops']
                ctx.violate({'ops': ops, 'kind': k}, f'{clause}({k}:{features(ops)})',
                            f'{k}: spec clause {clause} fails on the implementation\'s events '
                            f'(first at observation {i}: {rec[k][i][0]} -> {rec[k][i][1]})')
            for kk, i, exc in st['round_exc']:
                if kk == k:
                    ops = shrink(ctx, c['ops'], k, 'round-exception') if do_shrink else c['ops']
                    ctx.violate({'ops': ops, 'kind': k}, f'round-exception({k}:{features(ops)})',
                                f'{k}: _generate_events raised {exc}')
                    break
        bad = disagreeing_rounds(rec, res, st['round_info'])
        if bad:
            ops = shrink_agree(ctx, c['ops']) if do_shrink else c['ops']
            ctx.violate({'ops': ops, 'kind': 'all'}, f'pollers-disagree({features(ops)})',
                        f'no disconnect so far, round {bad[0][0]} not blind, healthy descriptors: {bad[0][1]}')
        # evidence
        for op in c['ops']:
            ctx.count('op_kinds', op[0])
        ctx.count('events_per_history', min(st['events'] // 3 // 5 * 5, 50))
        ctx.count('fd_reuse', 'yes' if st['reuse'] else 'no')
        ctx.count('raised_ops', 'yes' if st['raised'] else 'no')
        allclean = [all(res[k][2][r] and res[k][2][r][0] for k in KINDS if r < len(res[k][2])) for r in range(st['rounds'])]
        ctx.count('rounds', 'blind', sum(1 for r in range(st['rounds'])
                                         if any(r < len(res[k][2]) and res[k][2][r] and res[k][2][r][1] for k in KINDS)))
        ctx.count('rounds', 'clean', sum(1 for x in allclean if x))
        ctx.count('rounds', 'unclean', sum(1 for x in allclean if not x))
        for k in KINDS:
            for line, ans, _s in rec[k]:
                if line.startswith('po ') and ans != '-':
                    for t in ans.split():
                        ctx.count(f'events_{k}', t[0] + (':parent' if t.endswith(':p') else ''))
        names = {op[0] for op in c['ops']}
        nontrivial = st['events'] > 0 and bool(names & {'rr', 'rw', 'di', 'close'})
        ctx.case(c, nontrivial=nontrivial, validated=ok)


# ---------------------------------------------------------------------------------------
# generators
# ---------------------------------------------------------------------------------------

def gen_history(rng, nops):
    ops = [['open']]
    nobj = 2
    reg = {}     # object -> channel while the generator believes it registered
    cnt = {}     # object -> [readers, writers]
    closed = set()
    weights = [('open', 4), ('close', 5), ('ar', 12), ('aw', 12), ('rr', 8), ('rw', 8), ('di', 7),
               ('send', 9), ('recv', 4), ('fill', 3), ('poll', 32)]
    names = [n for n, _w in weights]
    ws = [w for _n, w in weights]
    for _ in range(nops):
        name = rng.choices(names, ws)[0]
        if name == 'open':
            if nobj + 2 <= MAXOBJ:
                ops.append(['open'])
                nobj += 2
            continue
        if name == 'poll':
            ops.append(['poll'])
            continue
        # prefer low object ids and their peers so that interesting things meet
        o = rng.randint(1, nobj)
        if name in ('ar', 'aw', 'rr', 'rw', 'di') and o in closed and rng.random() < 0.7:
            live = [x for x in range(1, nobj + 1) if x not in closed]
            if live:
                o = rng.choice(live)
        if name == 'close':
            if o in closed:
                continue
            # mostly the tidy order (discard, then close), sometimes not
            r = rng.random()
            if r < 0.45:
                ops.append(['di', o])
                cnt.pop(o, None)
                reg.pop(o, None)
            ops.append(['close', o])
            closed.add(o)
            if r > 0.8:
                ops.append(['di', o])
                cnt.pop(o, None)
                reg.pop(o, None)
            if rng.random() < 0.5 and nobj + 2 <= MAXOBJ:
                ops.append(['open'])          # reuse the number at once
                nobj += 2
            continue
        if name in ('ar', 'aw'):
            c = cnt.setdefault(o, [0, 0])
            if c[0] + c[1] == 0 or o not in reg:
                reg[o] = rng.randint(1, NCHAN)
            c[0 if name == 'ar' else 1] += 1
            ops.append([name, o, reg[o]])
        elif name in ('rr', 'rw'):
            c = cnt.setdefault(o, [0, 0])
            i = 0 if name == 'rr' else 1
            c[i] = max(0, c[i] - 1)
            ops.append([name, o])
        elif name == 'di':
            cnt.pop(o, None)
            reg.pop(o, None)
            ops.append(['di', o])
        else:
            ops.append([name, o])
    ops.append(['poll'])
    ops.append(['poll'])
    return ops


SMALL_ALPHABET = [['ar', 1, 1], ['aw', 1, 1], ['rr', 1], ['rw', 1], ['di', 1], ['close', 1], ['close', 2],
                  ['open'], ['poll']]


def small_scope(maxlen):
    """every op sequence of length <= maxlen over one registered descriptor, its peer and a
    pair that reuses their numbers; object 1 has input pending from the start"""
    for n in range(1, maxlen + 1):
        for tup in itertools.product(SMALL_ALPHABET, repeat=n):
            if tup[-1] == ['poll'] or n == maxlen:
                yield {'ops': [['open'], ['send', 2]] + [list(t) for t in tup] + [['poll'], ['poll']]}


DIRECTED = [
    # remove one role while the other stays
    [['open'], ['send', 2], ['ar', 1, 1], ['aw', 1, 1], ['poll'], ['rw', 1], ['poll'], ['rr', 1], ['poll']],
    [['open'], ['send', 2], ['ar', 1, 1], ['aw', 1, 1], ['rr', 1], ['poll'], ['rw', 1], ['poll']],
    # re-add after discard
    [['open'], ['send', 2], ['ar', 1, 1], ['poll'], ['di', 1], ['poll'], ['ar', 1, 2], ['poll']],
    # double add, one remove, discard
    [['open'], ['send', 2], ['ar', 1, 1], ['ar', 1, 1], ['poll'], ['rr', 1], ['poll'], ['di', 1], ['poll']],
    [['open'], ['aw', 1, 2], ['aw', 1, 2], ['di', 1], ['poll'], ['poll']],
    # discard unknown
    [['open'], ['di', 1], ['rr', 2], ['poll']],
    # tidy close and number reuse
    [['open'], ['send', 2], ['ar', 1, 1], ['poll'], ['di', 1], ['close', 1], ['open'], ['send', 4], ['poll'],
     ['ar', 3, 2], ['send', 4], ['poll']],
    # close, then discard, number reused by an unregistered descriptor
    [['open'], ['send', 2], ['ar', 1, 1], ['poll'], ['close', 1], ['di', 1], ['poll'], ['open'], ['send', 4], ['poll']],
    [['open'], ['aw', 1, 1], ['close', 1], ['di', 1], ['open'], ['poll'], ['poll']],
    # close without discard, number reused
    [['open'], ['ar', 1, 1], ['poll'], ['close', 1], ['open'], ['send', 4], ['poll'], ['poll']],
    [['open'], ['aw', 1, 3], ['close', 1], ['open'], ['poll'], ['poll'], ['aw', 3, 2], ['poll']],
    # peer hangs up: reader, writer, both
    [['open'], ['ar', 1, 1], ['close', 2], ['poll'], ['poll']],
    [['open'], ['aw', 1, 1], ['close', 2], ['poll'], ['poll']],
    [['open'], ['ar', 1, 1], ['aw', 1, 1], ['send', 2], ['close', 2], ['poll'], ['poll']],
    [['open'], ['send', 1], ['aw', 1, 1], ['close', 2], ['poll'], ['poll']],
    # send buffer full
    [['open'], ['aw', 1, 1], ['fill', 1], ['poll'], ['recv', 2], ['poll']],
    # operations on a closed descriptor
    [['open'], ['ar', 1, 1], ['aw', 1, 1], ['close', 1], ['rw', 1], ['poll'], ['rr', 1], ['poll']],
    [['open'], ['close', 1], ['ar', 1, 1], ['poll'], ['poll'], ['di', 1], ['poll']],
    # two registered, one closed: the blind round of select
    [['open'], ['open'], ['send', 2], ['ar', 1, 1], ['ar', 3, 2], ['close', 3], ['poll'], ['poll']],
]


def check_params(ctx):
    from circuits.core.pollers import EPoll, Poll
    vals = [select.POLLIN, select.POLLOUT, select.POLLERR, select.POLLHUP, select.POLLNVAL]
    p, e = Poll(), EPoll()
    try:
        vals.append(p._disconnected_flag)
        vals += [select.EPOLLIN, select.EPOLLOUT, select.EPOLLERR, select.EPOLLHUP, e._disconnected_flag]
    finally:
        for q in (p, e):
            for fd in (q._ctrl_recv, q._ctrl_send):
                try:
                    os.close(fd)
                except (OSError, TypeError):
                    pass
        e._poller.close()
    ans = ctx.driver.run('poller', ['params ' + ' '.join(str(v) for v in vals)])[0]
    ctx.param('poll/epoll flag constants and _disconnected_flag masks as assumed by CV.Poller.disconnectedFlag',
              ans == 'ok', f'{vals} -> {ans}')


def run(ctx):
    ctx.rule = ('each case = one history applied to Select, Poll and EPoll and to three Lean models; '
                'directed histories (remove one role, re-add after discard, double add, close before/after/without '
                'discard, fd reuse, hang-up, full send buffer) + every op sequence of length <= 3 (quick) / 5 (thorough) '
                'over {ar,aw,rr,rw,di,close,close-peer,open,poll} on one descriptor + random histories of 40-120 ops over '
                '<= 8 socketpairs; non-trivial = at least one event fired and at least one remove/discard/close; '
                'distinct = distinct history')
    ctx.trusted += ['kernel readiness semantics (CV.Poller.kernelRev, selReadable/selWritable): level-triggered poll/epoll, '
                    'epoll forgets closed files, select derives its sets from the poll bits - validated against the live '
                    'kernel on socketpairs by this run, not proved',
                    'lowest-free-number allocation of fds is only used to provoke reuse; the model takes the numbers observed']
    ctx.assumptions += ['descriptors are socket objects (not bare ints); one registering component per descriptor at a time',
                        'rounds are zero-timeout; the control pipe is not an object of the pool',
                        'completeness is not demanded of a round that starts with a just-closed registered descriptor '
                        '(select spends that round preening)',
                        'interchangeability (pollers-disagree) is judged as in CV.Poller.agreeFrom: until the first _disconnect of any '
                        'poller, in rounds that are not blind, on open descriptors without HUP/ERR']
    check_params(ctx)
    corpus = [c for c in ctx.corpus()]
    cases = [{'ops': c['ops']} for c in corpus if 'ops' in c]
    cases += [{'ops': d} for d in DIRECTED]
    cases += list(small_scope(5 if (ctx.tier == 'thorough' and not ctx.searching) else 3))
    nrand = 150 * ctx.scale if ctx.tier == 'quick' or ctx.searching else 2500
    for _ in range(nrand):
        cases.append({'ops': gen_history(ctx.rng, ctx.rng.randint(40, 120))})
    ctx.exhaustive = False
    nviol = 0
    for i in range(0, len(cases), 60):
        evaluate(ctx, cases[i:i + 60], do_shrink=len(ctx.violations) < 6)
        if ctx.time_up():
            break
        if len(ctx.violations) > 40:
            break


def search(ctx):
    run(ctx)


def replay(ctx, case):
    evaluate(ctx, [{'ops': case['ops']}], do_shrink=False)

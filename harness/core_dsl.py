"""
Scenario DSL for the core machine (C01, C02, C04-C09): the same scenario is
 (a) compiled to real circuits components with real @handler functions that perform the
     actions through the public API, run with an externally instrumented Manager
     (class-level wrappers around fireEvent/_dispatcher/processTask/registerTask, restored
     afterwards - no source hooks), producing the implementation log;
 (b) serialised to the `core` line protocol of cvdriver, with the implementation log as the
     choice tape, producing the model log.
The two logs (and value / tree / residue dumps) are compared by the property modules.

Scenario (JSON-able dict):
  tmpls:  [{name: "5" | "5:1", flags: "sfcn", sc: null|[chan], cc: null|[chan]}]
  progs:  [[act, ...]]           act = ["fire", tmpl, target|null, prio, cancel] | ["stopEv"] | ["ret", v]
                                   | ["raise"] | ["yld", v|null] | ["call", tmpl, target|null, timeout|null, catch]
                                   | ["wait", name, target|null, timeout|null, catch] | ["addH", hid] | ["rmH", hid, name|null]
                                   | ["reg", c, p] | ["unreg", c] | ["flush"] | ["stopMgr", c, code|null]
                                   | ["sysExit", code|null] | ["kbdInt"] | ["timerNew", t] | ["timerReset", t]
  comps:  [{chan: "*"|"n1", handlers: [{names: ["5"], chan: null|"n1"|"*"|"i0", prio: 0, prog: 3, installed: true}],
            timer: null | {interval, persist, tmpl, target, parent}}]
  setexec: [c, ...]              roots to be treated as inside run()'s thread
  ops:    [["do", c, act] | ["tick", c] | ["flush", c] | ["run", c] | ["adv", ticks]]
Priorities are integers or halves (sent to the model doubled).
"""
import contextlib
import os
import threading

TICK = 1.0 / 64.0
MAX_LOG = 12000
FRAME = {'registered': 900, 'unregistered': 901, 'prepare_unregister': 902, 'started': 903,
         'stopped': 904, 'generate_events': 905, 'exception': 906}
SUFFIX = {'done': 1, 'success': 2, 'failure': 3, 'complete': 4, 'value_changed': 5}


class Boom(Exception):
    pass


class BoomBase(BaseException):
    """an exception that does not derive from Exception (like GeneratorExit or asyncio.CancelledError)"""


class Blocked(Exception):
    pass


def name_token(pyname):
    """python event name -> model name token"""
    base = None
    rest = pyname
    for k in sorted(FRAME, key=len, reverse=True):
        if pyname == k or pyname.startswith(k + '_'):
            base = FRAME[k]
            rest = pyname[len(k):]
            break
    if base is None:
        head, _, tail = pyname.partition('_')
        if not head.startswith('e'):
            return 'X' + pyname
        base = int(head[1:])
        rest = '_' + tail if tail else ''
    sfx = []
    while rest:
        for k, v in SUFFIX.items():
            if rest.startswith('_' + k):
                sfx.append(v)
                rest = rest[len(k) + 1:]
                break
        else:
            return 'X' + pyname
    return f'{base}:{",".join(map(str, sfx))}' if sfx else str(base)


def py_name(tok):
    """model name token -> python event name"""
    base, _, sfx = tok.partition(':')
    inv = {v: k for k, v in FRAME.items()}
    b = int(base)
    s = inv.get(b, f'e{b}')
    if sfx:
        invs = {v: k for k, v in SUFFIX.items()}
        for x in sfx.split(','):
            s += '_' + invs[int(x)]
    return s


def prio_tok(p):
    return str(int(round(p * 2)))


def opt(x):
    return '~' if x is None else str(x)


def timer_interval(t):
    """interval of a timer in clock ticks as the specification sees it.  A timer given an absolute datetime
    deadline (virtual clock tick `deadline`, which may fall inside a second) counts at whole-second resolution:
    it is a timer whose interval is (start of the deadline's second) - (clock at creation), and due at once when
    that lies in the past.  `created_at` is filled in by the harness when the implementation creates the timer."""
    if t.get('deadline') is None:
        return t['interval']
    whole = (t['deadline'] // 64) * 64
    return max(0, whole - t.get('created_at', 0))


def act_tokens(a):
    k = a[0]
    if k == 'fire':
        return f'fire {a[1]} {opt(a[2])} {prio_tok(a[3])} {1 if a[4] else 0}'
    if k in ('stopEv', 'raise', 'flush', 'kbdInt'):
        return k
    if k == 'ret':
        return f'ret {a[1]}'
    if k == 'yld':
        return f'yld {opt(a[1])}'
    if k == 'call':
        return f'call {a[1]} {opt(a[2])} {opt(a[3])} {1 if a[4] else 0}'
    if k == 'wait':
        return f'wait {a[1]} {opt(a[2])} {opt(a[3])} {1 if a[4] else 0}'
    if k == 'addH':
        return f'addH {a[1]}'
    if k == 'rmH':
        return f'rmH {a[1]} {opt(a[2])}'
    if k == 'reg':
        return f'reg {a[1]} {a[2]}'
    if k == 'unreg':
        return f'unreg {a[1]}'
    if k == 'stopMgr':
        return f'stopMgr {a[1]} {opt(a[2])}'
    if k == 'sysExit':
        return f'sysExit {opt(a[1])}'
    if k in ('timerNew', 'timerReset'):
        return f'{k} {a[1]}'
    raise ValueError(a)


def is_gen(prog):
    return any(a[0] in ('yld', 'call', 'wait') for a in prog)


def assign_ids(sc):
    """handler ids as the model allocates them; returns (hid of each declared handler, builtin hid per comp, timer hid)"""
    hid = 0
    decl = []
    builtin = []
    timer_h = []
    for c in sc['comps']:
        ids = []
        for _h in c.get('handlers', []):
            ids.append(hid)
            hid += 1
        decl.append(ids)
        builtin.append(hid)
        hid += 1
        if c.get('timer') is not None:
            timer_h.append(hid)
            hid += 1
    return decl, builtin, timer_h


def model_lines(sc, impl_log=None, ops=None):
    """setup + tape + ops for cvdriver core; returns (lines, index of first op line)"""
    decl, builtin, _ = assign_ids(sc)
    L = []
    for i, t in enumerate(sc['tmpls']):
        sc_ = '~' if t.get('sc') is None else (','.join(t['sc']) or '-')
        cc_ = '~' if t.get('cc') is None else (','.join(t['cc']) or '-')
        L.append(f"tmpl {i} {t['name']} {t.get('flags') or '-'} {sc_} {cc_}")
    for i, p in enumerate(sc['progs']):
        L.append(f'prog {i} ' + ' ; '.join(act_tokens(a) for a in p))
    tid = 0
    for ci, c in enumerate(sc['comps']):
        for h, hid in zip(c.get('handlers', []), decl[ci]):
            names = '|'.join(h['names']) if h['names'] else '-'
            L.append(f"handler {hid} {ci} {names} {opt(h.get('chan'))} {prio_tok(h.get('prio', 0))} {h['prog']}")
        L.append(f"comp {ci} {c.get('chan', '*')} {builtin[ci]}")
        for h, hid in zip(c.get('handlers', []), decl[ci]):
            if h.get('installed', True):
                L.append(f'install {hid}')
        if c.get('timer') is not None:
            t = c['timer']
            L.append(f"timer {tid} {timer_interval(t)} {1 if t['persist'] else 0} {t['tmpl']} {opt(t.get('target'))} {ci} {t['parent']}")
            tid += 1
    for c in sc.get('setexec', []):
        L.append(f'setexec {c} 1')
    L.append(f"timeoutticks {sc.get('timeoutticks', 8)}")
    L.append(f"fuel {sc.get('fuel', 1500)}")
    for e in (impl_log or []):
        L.append('tape ' + e)
    first = len(L)
    for op in (sc['ops'] if ops is None else ops):
        if op[0] == 'do':
            L.append(f'do {op[1]} ' + act_tokens(op[2]))
        elif op[0] in ('tick', 'flush', 'run'):
            L.append(f'{op[0]} {op[1]}')
        elif op[0] == 'adv':
            L.append(f'adv {op[1]}')
        else:
            raise ValueError(op)
    L += ['tree', 'values', 'residue', 'spec passorder impl', 'spec handlerorder impl', 'spec passorder model',
          'spec handlerorder model']
    return L, first


class World:
    """the real thing"""

    def __init__(self, sc):
        self.sc = sc
        self.log = []
        self.oplogs = []
        self.events = {}
        self.fired_twice = set()
        self.next_vid = 0
        self.gen_ids = {}
        self.keep = []
        self.comps = []
        self.bound = {}
        self.clock = 0
        self.blocked = False
        self.ge_count = 0
        self.ctx_stack = []
        self.pool = {}       # template -> event objects made ahead of time (scenarios marked `prepared`)
        self.cur_ev = []     # events being dispatched (innermost last); read by handlers declared without `event`
        self.side = {'expect': [], 'firectx': {}, 'parent': {}, 'ftime': {}, 'timer_ev': [], 'wbound': {},
                     'treechk': [], 'optimes': [], 'gens': {}, 'callstart': {}, 'stops': [], 'tfires': [],
                     'dtime': {}, 'droot': {}, 'froot': {}, 'foreign': [], 'moves': [], 'qlen_after': [], 'nreg': 0,
                     'tmpl_of': {}, 'zsend': [], 'running_at': {}, 'missed': [], 'escaped': []}
        self.last_parent = {}
        self.spec_installed = set()     # (hid, name token | None) the operations say are installed
        self.decl, self.builtin, self.timer_h = assign_ids(sc)

    # ---- logging helpers --------------------------------------------------------------
    def emit(self, s):
        self.scan_moves()
        self.log.append(s)

    def scan_moves(self):
        for i, c in enumerate(self.comps):
            if c is None:
                continue
            p = c.parent
            old = self.last_parent.get(i)
            if old is not None and old is not p:
                self.side['moves'].append((len(self.log), i, 'detach' if p is c else 'attach'))
            self.last_parent[i] = p

    def chan_tok(self, ch):
        if ch == '*':
            return '*'
        if isinstance(ch, str):
            return 'n' + ch[1:]
        return 'i' + str(self.comps.index(ch))

    def chan_py(self, tok):
        if tok == '*':
            return '*'
        if tok[0] == 'n':
            return 'c' + tok[1:]
        return self.comps[int(tok[1:])]

    def new_gen(self, g, kind=('other',)):
        if id(g) not in self.gen_ids:
            self.gen_ids[id(g)] = len(self.gen_ids)
            self.keep.append(g)
            self.side['gens'][self.gen_ids[id(g)]] = kind
        return self.gen_ids[id(g)]

    @staticmethod
    def view(v):
        def item(x):
            return 'E' if isinstance(x, tuple) else str(x)
        if not v.result:
            return 'U'
        raw = v._value
        if isinstance(raw, list):
            return 'L' + ','.join(item(x) for x in raw)
        return 'S' + item(raw)

    # ---- building ---------------------------------------------------------------------
    def mk_event(self, ti):
        """the event object for a fire / call act.  In a scenario marked `prepared` the objects are made ahead of time, in
        batches over all templates, and handed out newest first: users do write `a = foo(); b = foo(); fire(b); fire(a)` or
        fire an event they prepared earlier, so the order in which event objects were *created* differs from the order in
        which they are *fired* (which is the only order the properties speak of)"""
        if not self.sc.get('prepared'):
            return self._new_event(ti)
        pool = self.pool.setdefault(ti, [])
        if not pool:
            for tj in range(len(self.sc['tmpls'])):
                self.pool.setdefault(tj, []).extend(self._new_event(tj) for _ in range(3))
        return pool.pop()

    def _new_event(self, ti):
        from circuits.core.events import Event
        t = self.sc['tmpls'][ti]
        ev = Event.create(py_name(t['name']))
        fl = t.get('flags') or ''
        if 's' in fl:
            ev.success = True
        if 'f' in fl:
            ev.failure = True
        if 'c' in fl:
            ev.complete = True
        if 'n' in fl:
            ev.notify = True
        if t.get('sc') is not None:
            ev.success_channels = tuple(self.chan_py(x) for x in t['sc'])
        if t.get('cc') is not None:
            ev.complete_channels = tuple(self.chan_py(x) for x in t['cc'])
        ev._tmpl = ti
        return ev

    def do_act(self, comp, event, a):
        """one non-yield action; returns ('ret', v) to end the body, else None; may raise"""
        k = a[0]
        if k == 'fire':
            ev = self.mk_event(a[1])
            chans = () if a[2] is None else (self.chan_py(a[2]),)
            comp.fire(ev, *chans, priority=a[3])
            if a[4]:
                ev.cancel()
        elif k == 'stopEv':
            if event is not None:
                event.stop()
        elif k == 'ret':
            return ('ret', a[1])
        elif k == 'raise':
            if len(a) > 1 and a[1]:
                raise BoomBase('boom')
            raise Boom('boom')
        elif k == 'addH':
            hid = a[1]
            self.bound[hid] = self.comps[self.owner_of(hid)].addHandler(self.funcs[hid])
            self.spec_add(hid)
        elif k == 'rmH':
            hid = a[1]
            m = self.bound.get(hid)
            if m is None:
                raise KeyError(hid)
            owner = self.comps[self.owner_of(hid)]
            if a[2] is None:
                owner.removeHandler(m)
                self.spec_installed = {x for x in self.spec_installed if x[0] != hid}
            else:
                owner.removeHandler(m, py_name(a[2]))
                self.spec_installed.discard((hid, a[2]))
        elif k == 'reg':
            self.side['nreg'] += 1
            self.comps[a[1]].register(self.comps[a[2]])
        elif k == 'unreg':
            if self.comps[a[1]] is not None:
                self.comps[a[1]].unregister()
        elif k == 'flush':
            comp.flush()
        elif k == 'stopMgr':
            self.side['stops'].append((len(self.log), 'stopMgr', a[2], bool(self.comps[a[1]].running)))
            self.comps[a[1]].stop(a[2])
        elif k == 'sysExit':
            self.side['stops'].append((len(self.log), 'sysExit', a[1], bool(comp.root.running)))
            raise SystemExit(a[1]) if a[1] is not None else SystemExit()
        elif k == 'kbdInt':
            self.side['stops'].append((len(self.log), 'kbdInt', None, bool(comp.root.running)))
            raise KeyboardInterrupt()
        elif k == 'timerNew':
            self.timer_new(a[1])
        elif k == 'timerReset':
            if a[1] < len(self.timers) and self.timers[a[1]] is not None:
                self.side['timer_ev'].append((len(self.log), 'reset', a[1], self.clock))
                self.timers[a[1]].reset()
        else:
            raise ValueError(a)
        return None

    def spec_add(self, hid):
        for ci, ids in enumerate(self.decl):
            if hid in ids:
                h = self.sc['comps'][ci]['handlers'][ids.index(hid)]
                if h['names']:
                    for n in h['names']:
                        self.spec_installed.add((hid, n))
                else:
                    self.spec_installed.add((hid, None))

    def owner_of(self, hid):
        for ci, ids in enumerate(self.decl):
            if hid in ids:
                return ci
        raise KeyError(hid)

    def make_func(self, hid, h):
        from circuits.core.handlers import handler
        world = self
        prog = self.sc['progs'][h['prog']]
        if not is_gen(prog):
            def body(self, event, *args, **kwargs):
                if noev:
                    # declared without an `event` parameter (see below): the event object comes from the dispatch in progress
                    event = world.cur_ev[-1]
                world.emit(f'I {event._vid} {hid} 0')
                if getattr(event, '_disp_root', None) is not None and self.root is not event._disp_root:
                    world.side['foreign'].append((len(world.log) - 1, event._vid, hid))
                world.ctx_stack.append(('h', event._vid, hid))
                try:
                    for a in prog:
                        r = world.do_act(self, event, a)
                        if r is not None:
                            return r[1]
                    return None
                finally:
                    world.ctx_stack.pop()
                    world.emit(f'O {event._vid} {hid}')
        else:
            def gen(self, event):
                eid = event._vid
                step = 0
                for a in prog:
                    k = a[0]
                    if k == 'yld':
                        got = yield a[1]
                        if got is not None:
                            world.side['zsend'].append((eid, hid, step))
                        step += 1
                        world.emit(f'I {eid} {hid} {step}')
                    elif k in ('call', 'wait'):
                        kw = {} if a[3] is None else {'timeout': a[3]}
                        chans = () if a[2] is None else (world.chan_py(a[2]),)
                        if k == 'call':
                            w = self.call(world.mk_event(a[1]), *chans, **kw)
                        else:
                            w = self.wait(py_name(a[1]), *chans, **kw)
                        world.new_gen(w, ('wait', eid, hid, step))
                        world.side['callstart'][(eid, hid, step)] = len(world.log)
                        from circuits.core.manager import TimeoutError as CTimeout
                        try:
                            x = yield w
                            step += 1
                            world.emit(f'R {eid} {hid} {x.event._vid} {world.view(x)} {1 if x.errors else 0}')
                        except CTimeout:
                            step += 1
                            world.emit(f'T {eid} {hid} {1 if a[4] else 0}')
                            if not a[4]:
                                raise
                    elif k == 'ret':
                        return
                    else:
                        r = world.do_act(self, event, a)
                        if r is not None:
                            return

            def body(self, event, *args, **kwargs):
                if noev:
                    event = world.cur_ev[-1]
                world.emit(f'I {event._vid} {hid} 0')
                g = gen(self, event)
                world.new_gen(g, ('user', event._vid, hid))
                world.emit(f'O {event._vid} {hid}')
                return g
        # a handler marked `noev` is declared the way users write handlers that do not want the event object:
        # `def h(self, *args, **kwargs)` (handler() then sets f.event = False and the dispatcher passes only the event's
        # arguments); it performs the same program on the event being dispatched, which it knows from elsewhere
        noev = bool(h.get('noev'))
        if noev:
            inner = body

            def body(self, *args, **kwargs):
                return inner(self, None, *args, **kwargs)
        body.__name__ = f'h{hid}'
        kw = {'priority': h.get('prio', 0)}
        if h.get('chan') is not None:
            kw['channel'] = ('LATE', h['chan'])
        names = [py_name(n) for n in h['names']]
        return names, kw, body

    def build(self):
        from circuits.core.components import BaseComponent
        from circuits.core.handlers import handler
        self.funcs = {}
        late = []
        self.timers = []
        for ci, c in enumerate(self.sc['comps']):
            ns = {'channel': self.chan_py(c.get('chan', '*'))}
            dyn = []
            for h, hid in zip(c.get('handlers', []), self.decl[ci]):
                names, kw, body = self.make_func(hid, h)
                ch = kw.pop('channel', None)
                # instance channels can only be resolved once all components exist
                deco_kw = dict(kw)
                if ch is not None:
                    tok = ch[1]
                    if tok.startswith('i'):
                        deco_kw['channel'] = None
                        late.append((hid, tok))
                    else:
                        deco_kw['channel'] = self.chan_py(tok)
                f = handler(*names, **deco_kw)(body)
                self.funcs[hid] = f
                if h.get('installed', True):
                    ns[f'h{hid}'] = f
                else:
                    dyn.append(hid)
            if c.get('timer') is not None:
                self.comps.append(None)   # created by timerNew
            else:
                cls = type(f'K{ci}', (BaseComponent,), ns)
                self.comps.append(cls())
        # late instance channels: patch the function attribute (bound methods read through)
        for hid, tok in late:
            self.funcs[hid].channel = self.chan_py(tok)
        for ci, c in enumerate(self.sc['comps']):
            if self.comps[ci] is None:
                continue
            for h, hid in zip(c.get('handlers', []), self.decl[ci]):
                if h.get('installed', True):
                    self.bound[hid] = getattr(self.comps[ci], f'h{hid}')
                    self.spec_add(hid)
        import threading as _t
        for c in self.sc.get('setexec', []):
            self.comps[c]._executing_thread = _t.current_thread()

    def timer_new(self, t):
        from circuits.core.timers import Timer
        if t < len(self.timers) and self.timers[t] is not None:
            return
        idx = [i for i, c in enumerate(self.sc['comps']) if c.get('timer') is not None][t]
        spec = self.sc['comps'][idx]['timer']
        ev = self.mk_event(spec['tmpl'])
        chans = () if spec.get('target') is None else (self.chan_py(spec['target']),)
        if spec.get('deadline') is not None:
            import circuits.core.timers as timers_mod
            spec['created_at'] = self.clock
            when = timers_mod.datetime.fromtimestamp(spec['deadline'] * TICK)
            tm = Timer(when, ev, *chans, persist=spec['persist'])
        else:
            tm = Timer(spec['interval'] * TICK, ev, *chans, persist=spec['persist'])
        tm.channel = self.chan_py(self.sc['comps'][idx].get('chan', '*'))
        self.comps[idx] = tm
        while len(self.timers) <= t:
            self.timers.append(None)
        self.timers[t] = tm
        self.side['timer_ev'].append((len(self.log), 'new', t, self.clock))
        tm.register(self.comps[spec['parent']])

    # ---- instrumentation ----------------------------------------------------------------
    @contextlib.contextmanager
    def instrumented(self):
        import circuits.core.helpers as helpers
        import circuits.core.manager as manager
        import circuits.core.timers as timers
        from circuits.core.manager import Manager
        world = self
        o_fire, o_disp, o_pt, o_rt = Manager.fireEvent, Manager._dispatcher, Manager.processTask, Manager.registerTask
        EQ = manager._EventQueue
        o_de = EQ.dispatchEvents

        def dispatchEvents(self, dispatcher):
            if self._flush_batch == 0:
                world.emit(f'B {len(self._queue)}')
            return o_de(self, dispatcher)

        def fireEvent(self, event, *channels, **kwargs):
            if event.name == 'generate_events':
                # loop overhead: every iteration of a running loop takes one clock tick
                world.clock += 1
                world.ge_count += 1
                if world.ge_count > 4000:
                    world.blocked = True
                    for c in world.comps:
                        if c is not None:
                            c._running = False
            if getattr(event, '_vid', None) is not None:
                world.fired_twice.add(id(event))
                vid = event._vid
            else:
                vid = world.next_vid
                world.next_vid += 1
                event._vid = vid
                world.events[vid] = event
            value = o_fire(self, event, *channels, **kwargs)
            chans = ','.join(world.chan_tok(c) for c in event.channels) or '-'
            idx = len(world.log)
            world.side['firectx'][idx] = world.ctx_stack[-1] if world.ctx_stack else ('x', None, None)
            world.side['ftime'][idx] = world.clock
            world.side['froot'][idx] = world.comps.index(self.root) if self.root in world.comps else None
            if type(self).__name__ == 'Timer' and self in world.timers and event is getattr(self, 'event', None):
                world.side['tfires'].append((idx, world.timers.index(self), world.clock))
            if hasattr(event, '_tmpl'):
                world.side['tmpl_of'][vid] = event._tmpl
            if event.name == 'exception' and hasattr(event.kwargs.get('fevent'), '_vid'):
                world.side['parent'][vid] = event.kwargs['fevent']._vid
            par = getattr(event, 'parent', None)
            if par is not None and hasattr(par, '_vid'):
                world.side['parent'][vid] = par._vid
            world.emit(f"F {vid} {name_token(event.name)} {chans} {prio_tok(kwargs.get('priority', 0))}")
            return value

        def _dispatcher(self, event, channels, remaining):
            if not event.cancelled:
                world.side['expect'].append((len(world.log), event._vid, world.expected_handlers(self, event, channels),
                                             frozenset(world.spec_installed), name_token(event.name)))
            world.side['dtime'][len(world.log)] = world.clock
            world.side['droot'][len(world.log)] = world.comps.index(self) if self in world.comps else None
            world.side['running_at'][len(world.log)] = bool(self._running)
            world.emit(f'D {event._vid}')
            event._disp_root = self
            world.cur_ev.append(event)
            try:
                return _dispatch_inner(self, event, channels, remaining)
            finally:
                world.cur_ev.pop()

        def _dispatch_inner(self, event, channels, remaining):
            if event.name == 'generate_events' and self._running and not event.cancelled:
                now = world.clock * TICK
                due = [i for i, t in enumerate(world.timers) if t is not None and t.root is self and t.parent is not t
                       and not t.unregister_pending and t.expiry is not None and now >= t.expiry]
                n0 = len(world.side['tfires'])
                try:
                    return o_disp(self, event, channels, remaining)
                finally:
                    fired = {t for (_i, t, _c) in world.side['tfires'][n0:]}
                    for t in due:
                        if t not in fired:
                            world.side['missed'].append((len(world.log), t, world.clock))
            return o_disp(self, event, channels, remaining)

        def processTask(self, event, task, parent=None):
            world.emit(f'P {event._vid} {world.new_gen(task)}')
            world.ctx_stack.append(('t', event._vid, world.gen_ids.get(id(task))))
            try:
                return o_pt(self, event, task, parent)
            finally:
                world.ctx_stack.pop()

        def registerTask(self, g):
            world.new_gen(g[1])
            return o_rt(self, g)

        KIND = {'_on_event': 1, '_on_done': 2, '_on_tick': 3, '_on_prepare_unregister_complete': 4}

        def handler_get(ev):
            return ev.__dict__.get('_h')

        def handler_set(ev, h):
            ev.__dict__['_h'] = h
            if h is None or not hasattr(ev, '_vid'):
                return
            fname = getattr(h, '__name__', '')
            owner = getattr(h, '__self__', None)
            code = KIND.get(fname)
            if code is None and fname == '_on_generate_events':
                code = 6 if isinstance(owner, helpers.FallBackGenerator) else 5
            if code is None and fname == '_on_exception' and isinstance(owner, helpers.FallBackExceptionHandler):
                code = 7
            if code is not None:
                if code in (1, 2, 3):
                    oi = 0
                    for cell in (getattr(getattr(h, '__func__', h), '__closure__', None) or ()):
                        try:
                            st = cell.cell_contents
                        except ValueError:
                            continue
                        if type(st).__name__ == '_State':
                            oi = world.gen_ids.get(id(st.task), 0)
                elif code in (6, 7):
                    oi = world.comps.index(ev._disp_root) if getattr(ev, '_disp_root', None) in world.comps else 0
                else:
                    oi = world.comps.index(owner) if owner in world.comps else 0
                world.emit(f'H {ev._vid} {code} {oi}')

        class EventDouble:
            def __init__(self):
                self._flag = False

            def set(self):
                self._flag = True

            def clear(self):
                self._flag = False

            def is_set(self):
                return self._flag

            def wait(self, timeout=None):
                if timeout is None or timeout >= 10000:
                    world.blocked = True
                    for c in world.comps:
                        if c is not None and c.running:
                            c._running = False
                    raise KeyboardInterrupt()
                ticks = int(round(timeout / TICK))
                live = [t for t in world.timers if t is not None and t.parent is not t and not t.unregister_pending
                        and t.expiry is not None and t.root.running]
                world.side['wbound'][len(world.log)] = (
                    min(int(round((t.expiry - world.clock * TICK) / TICK)) for t in live) if live else None)
                world.emit(f'W {ticks}')
                world.clock += ticks
                return self._flag

        class Sink:
            def write(self, *_a):
                pass

            def flush(self):
                pass

        saved = (helpers.Event, helpers.stderr, manager.stderr, manager.TIMEOUT, manager.time, timers.time)
        saved_dt = timers.datetime

        class VDateTime(saved_dt):
            """datetime on the virtual clock: now() reads the harness clock (the code may ask either time() or
            datetime.now() for the present)"""
            @classmethod
            def now(cls, tz=None):
                return cls.fromtimestamp(world.clock * TICK, tz)

            @classmethod
            def utcnow(cls):
                return cls.utcfromtimestamp(world.clock * TICK)

        import signal as _signal
        old_int, old_term = _signal.getsignal(_signal.SIGINT), _signal.getsignal(_signal.SIGTERM)
        import circuits.core.events as cevents
        cevents.Event.handler = property(handler_get, handler_set)
        Manager.fireEvent = Manager.fire = fireEvent
        Manager._dispatcher = _dispatcher
        Manager.processTask = processTask
        Manager.registerTask = registerTask
        EQ.dispatchEvents = dispatchEvents
        helpers.Event = EventDouble
        helpers.stderr = Sink()
        manager.stderr = Sink()
        manager.TIMEOUT = self.sc.get('timeoutticks', 8) * TICK
        manager.time = lambda: world.clock * TICK
        timers.time = lambda: world.clock * TICK
        timers.datetime = VDateTime
        try:
            yield
        finally:
            del cevents.Event.handler
            Manager.fireEvent = Manager.fire = o_fire
            Manager._dispatcher = o_disp
            Manager.processTask = o_pt
            Manager.registerTask = o_rt
            EQ.dispatchEvents = o_de
            (helpers.Event, helpers.stderr, manager.stderr, manager.TIMEOUT, manager.time, timers.time) = saved
            timers.datetime = saved_dt
            if threading.current_thread() is threading.main_thread():
                _signal.signal(_signal.SIGINT, old_int)
                _signal.signal(_signal.SIGTERM, old_term)

    # ---- running ------------------------------------------------------------------------
    def expected_handlers(self, root, event, channels):
        """the property's own rule, evaluated on the live handler tables and tree (never on the cache):
        user handler ids that must receive `event` dispatched by `root` on `channels`"""
        out = set()

        def walk(c):
            seen = set()
            for key, hs in c._handlers.items():
                if key == '*' or key == event.name:
                    seen.update(hs)
            for m in seen:
                hc = m.channel if m.channel is not None else getattr(m.__self__, 'channel', None)
                for ch in channels:
                    if ch == '*' or hc == '*' or hc == ch or ch is c:
                        out.add(m)
            out.update(c._globals)
            for k in c.components:
                walk(k)

        walk(root)
        ids = []
        for m in out:
            n = getattr(m, '__name__', '')
            if n.startswith('h') and n[1:].isdigit():
                ids.append(int(n[1:]))
        return sorted(ids)

    def tree_check(self):
        """C07 invariants on the live object graph"""
        bad = []
        comps = [c for c in self.comps if c is not None]
        for c in comps:
            for k in c.components:
                if k.parent is not c:
                    bad.append('links: child lists a component whose parent is another')
                if k is c:
                    bad.append('links: component is its own child')
            if c.parent is not c and c not in c.parent.components:
                bad.append('links: parent does not list the child')
            # root = top of the parent chain, no cycles
            seen = []
            x = c
            while x.parent is not x:
                if x in seen:
                    bad.append('links: cycle')
                    break
                seen.append(x)
                x = x.parent
            else:
                if c.root is not x:
                    bad.append('root: root is not the top of the tree')
        return sorted(set(bad))

    def subtree(self, c):
        out = [c]
        for k in c.components:
            out += self.subtree(k)
        return out

    def installed(self, hid):
        m = self.bound.get(hid)
        if m is None:
            return False
        owner = self.comps[self.owner_of(hid)]
        return m in owner._globals or any(m in s for s in owner._handlers.values())

    def expand(self, op):
        """resolve a conditional op against the live object graph -> list of concrete ops"""
        k = op[0]
        if k == 'maybe_reg':
            c, p = self.comps[op[1]], self.comps[op[2]]
            if c is None or p is None or c is p or c.parent is not c or c.unregister_pending:
                return []
            if p in self.subtree(c):
                return []
            if c._executing_thread is not None and p.root._executing_thread is not None:
                return []
            return [['do', op[1], ['reg', op[1], op[2]]]]
        if k == 'maybe_rmH':
            name = op[2] if len(op) > 2 else None
            if name is None:
                return [['do', 0, ['rmH', op[1], None]]] if self.installed(op[1]) else []
            m = self.bound.get(op[1])
            owner = self.comps[self.owner_of(op[1])]
            ok = m is not None and m in owner._handlers.get(py_name(name), ())
            return [['do', 0, ['rmH', op[1], name]]] if ok else []
        if k == 'quiesce':
            c = self.comps[op[1]]
            if c is None or c.parent is not c:
                return []
            return [['tick', op[1]]] if (len(c._queue) or c._tasks) else []
        return [op]

    def run(self):
        """returns list of per-op results: (status, [log entries]); self.ops = the concrete ops executed"""
        import atexit
        self.ops = []
        with self.instrumented():
            self.build()
            # always settle at the end: tick every root while it has queued events or tasks
            pending = list(self.sc['ops']) + [['quiesce', i] for i in range(len(self.sc['comps']))]
            budget = 400
            while pending and budget > 0:
                raw = pending.pop(0)
                conc = self.expand(raw)
                if raw[0] == 'quiesce' and conc:
                    pending.insert(0, raw)      # keep ticking until idle
                for op in conc:
                    budget -= 1
                    start = len(self.log)
                    status = 'ok'
                    try:
                        if op[0] == 'do':
                            self.do_act(self.comps[op[1]], None, op[2])
                        elif op[0] == 'tick':
                            self.comps[op[1]].tick()
                        elif op[0] == 'flush':
                            self.comps[op[1]].flush()
                        elif op[0] == 'run':
                            m = self.comps[op[1]]
                            try:
                                m.run()
                            finally:
                                atexit.unregister(m.stop)
                        elif op[0] == 'adv':
                            self.clock += op[1]
                    except SystemExit as e:
                        status = f'exn sysexit {opt(e.code)}'
                    except BaseException as e:  # an exception of user code must never leave the loop
                        if op[0] == 'do' and op[2][0] in ('rmH', 'addH', 'reg', 'unreg'):
                            status = 'exn raised'      # the API call itself raised (e.g. KeyError of removeHandler)
                        else:
                            status = f'exn escaped {type(e).__name__}'
                            self.side['escaped'].append((len(self.log), type(e).__name__))
                    self.scan_moves()
                    self.ops.append(op)
                    self.oplogs.append((status, self.log[start:]))
                    self.side['qlen_after'].append([len(c._queue) if c is not None else 0 for c in self.comps])
                    self.side['treechk'].append(self.tree_check())
                    self.side['optimes'].append(self.clock)
                    if self.blocked:
                        pending = []
                        break
        return self.oplogs

    def tree(self):
        rows = []
        for i, c in enumerate(self.comps):
            if c is None:
                rows.append(f'{i}:{i}:{i}::0:0')
                continue
            kids = sorted(self.comps.index(k) for k in c.components)
            rows.append(f"{i}:{self.comps.index(c.parent)}:{self.comps.index(c.root)}:{','.join(map(str, kids))}:"
                        f"{1 if c.unregister_pending else 0}:{len(c._queue)}")
        return ' '.join(rows)

    def values(self):
        rows = {}
        for vid, ev in self.events.items():
            if id(ev) in self.fired_twice or ev.value is None:
                continue
            v = ev.value
            rows[vid] = f'{vid}:{self.view(v)}:{1 if v.errors else 0}:{1 if v.result else 0}'
        return rows

    def residue(self):
        rows = []
        for i, c in enumerate(self.comps):
            if c is None:
                rows.append(None)
                continue
            rows.append(f'{i}:{sum(len(s) for s in c._handlers.values())}:{len(c._globals)}:{len(c._tasks)}')
        return rows


def run_both(ctx, scenarios):
    """run each scenario on the implementation and on the model.
    returns list of dict(sc, impl=[(status, entries)], model=[(status, entries)], tree=(i, m), values=(i, m),
    residue=(i, m), blocked, error)"""
    results = []
    cases_lines = []
    for sc in scenarios:
        w = World(sc)
        rec = {'sc': sc, 'world': w, 'error': None}
        try:
            with ctx.guard({'kind': 'scenario', 'scenario': sc}, what='Manager (ticks / run() of this scenario)'):
                rec['impl'] = w.run()
            rec['blocked'] = w.blocked
            rec['itree'] = w.tree()
            rec['ivalues'] = w.values()
            rec['iresidue'] = w.residue()
        except Exception as e:  # harness / scenario problem, reported by the caller
            import traceback
            rec['error'] = f'{type(e).__name__}: {e}\n{traceback.format_exc()[-1500:]}'
            rec['impl'] = w.oplogs
            rec['blocked'] = w.blocked
        if len(w.log) > MAX_LOG:
            # a run that produced an enormous log (e.g. a loop that no longer ends its idle iterations) would keep the
            # model driver busy for minutes: the oracles still judge the implementation's log, the model is not asked
            rec['oversize'] = True
            w.ops_model = []
            lines, first = model_lines(sc, [], [])
        else:
            lines, first = model_lines(sc, w.log, getattr(w, 'ops', []))
        rec['first'] = first
        rec['lines'] = lines
        cases_lines.append(lines)
        results.append(rec)
    answers = ctx.driver.batch(os.environ.get('CORE_MODEL', 'core2'), cases_lines)
    for rec, ans in zip(results, answers):
        first = rec['first']
        setup = ans[:first]
        bad = [(l, a) for l, a in zip(rec['lines'][:first], setup) if not a.startswith('ok')]
        if bad:
            rec['error'] = (rec['error'] or '') + f' model setup rejected: {bad[:3]}'
        nops = 0 if rec.get('oversize') else len(getattr(rec['world'], 'ops', []))
        model_ops = []
        for a in ans[first:first + nops]:
            head, _, tail = a.partition(' | ')
            entries = [x.strip() for x in tail.split(' | ') if x.strip()] if tail else []
            model_ops.append((head.strip(), entries))
        rec['model'] = model_ops
        rec['mtree'], rec['mvalues'], rec['mresidue'] = ans[first + nops:first + nops + 3]
        rec['leanspec'] = dict(zip(['pass_impl', 'horder_impl', 'pass_model', 'horder_model'], ans[first + nops + 3:first + nops + 7]))
    return results


def compare(rec):
    """first difference between implementation and model, or None"""
    if rec['error']:
        return {'where': 'harness', 'detail': rec['error']}
    if rec.get('blocked'):
        return None
    for i, ((ist, ilog), (mst, mlog)) in enumerate(zip(rec['impl'], rec['model'])):
        if ilog != mlog:
            k = next((j for j, (a, b) in enumerate(zip(ilog, mlog)) if a != b), min(len(ilog), len(mlog)))
            return {'where': 'log', 'op': i, 'pos': k, 'impl': ilog[k:k + 4], 'model': mlog[k:k + 4],
                    'context': ilog[max(0, k - 4):k]}
        if ist != mst:
            return {'where': 'status', 'op': i, 'impl': ist, 'model': mst}
    if len(rec['impl']) != len(rec['model']):
        return {'where': 'ops', 'impl': len(rec['impl']), 'model': len(rec['model'])}
    if rec['itree'] != rec['mtree']:
        return {'where': 'tree', 'impl': rec['itree'], 'model': rec['mtree']}
    mvals = {int(r.split(':')[0]): r for r in rec['mvalues'].split(' ') if r}
    for vid, row in rec['ivalues'].items():
        if mvals.get(vid) != row:
            return {'where': 'values', 'impl': row, 'model': mvals.get(vid)}
    mres = rec['mresidue'].split(' ')
    for i, row in enumerate(rec['iresidue']):
        if row is not None and i < len(mres) and mres[i] != row:
            return {'where': 'residue', 'impl': row, 'model': mres[i]}
    return None

"""Small helpers for driving real circuits components in-process."""
import itertools

from circuits import BaseComponent, Event, Manager, handler  # noqa: F401


class Capture(BaseComponent):
    """records every event dispatched in the tree: (name, args, kwargs, channels)"""

    channel = '*'

    def __init__(self, names=None):
        super().__init__()
        self.names = names
        self.log = []

    @handler(channel='*', priority=1000)
    def _on_any(self, event, *args, **kwargs):
        if self.names is None or event.name in self.names:
            self.log.append((event.name, args, kwargs, event.channels))


def drain(m, limit=10000):
    """flush until the queue is empty (no generate_events, no sleeping)"""
    n = 0
    while len(m):
        m.flush()
        n += 1
        if n > limit:
            raise RuntimeError('queue does not drain')
    return n


def all_cuts(n, k):
    """all k-subsets of cut positions 1..n-1"""
    return itertools.combinations(range(1, n), k)


def random_cuts(rng, n, maxk=6):
    if n <= 1:
        return []
    k = rng.randint(0, min(maxk, n - 1))
    return sorted(rng.sample(range(1, n), k))

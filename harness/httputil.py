"""
In-process HTTP harness helpers (shared by C13 / C14 / C15).

Drives the real `circuits.web.http.HTTP` component (server side) and the real
`circuits.protocols.http.HTTP` component (client side) without any network:

  * `ServerRig`  - a BaseComponent "fake server" (host/port/secure/display_banner attributes)
    with a real `HTTP(self)` child on channel 'web'; `rig.read(sock, data)` fires the
    `read(sock, data)` event and drains the queue; `request` events are recorded by a probe
    handler (method, path, qs, protocol, headers, body), `write` / `close` events are
    captured per socket in order.
  * `SockToken`  - identity-token sockets; they subclass `socket.socket` (required by
    `HTTP._on_exception` for the 500 path) and answer `getpeername()`.
  * `ClientRig`  - the client-side protocol component; `rig.read(data)` fires `read(data)`;
    `response` events are recorded (status, version, headers, body).
  * `recording_parser()` - a subclass of the real HttpParser that records the byte strings
    handed to the lexical leaf functions (first line, header block, chunk-size lines) together
    with the leaf's verdict; substituted for the module global from outside (no source hooks).

Nothing here looks at private state of the components except `_buffers` / `_clients` *sizes*
(the property record names those tables as retained state).
"""
import socket

from circuits import BaseComponent, handler
from circuits.net.events import read

FIXED_DATE = 'Thu, 01 Jan 1970 00:00:00 GMT'


class SockToken(socket.socket):
    """identity token standing for one TCP connection"""

    def __init__(self, ident):
        # deliberately no super().__init__(): no file descriptor is allocated (fileno() == -1)
        self.ident = ident

    def getpeername(self):
        return ('10.0.0.%d' % (self.ident % 250 + 1), 40000 + self.ident)

    def __repr__(self):
        return f'<sock {self.ident}>'


def drain(m, limit=100000):
    n = 0
    while len(m):
        m.flush()
        n += 1
        if n > limit:
            raise RuntimeError('queue does not drain')
    return n


def canon_headers(h):
    """Headers object -> sorted list of (lower-case name, value)"""
    return sorted((k.lower(), str(v)) for k, v in h.items())


class ServerRig(BaseComponent):
    channel = 'web'

    host = '127.0.0.1'
    port = 8000
    secure = False
    display_banner = False

    def __init__(self, reply=b'ok', parser_cls=None):
        super().__init__()
        import circuits.web.http as webhttp
        import circuits.web.wrappers as wrappers
        self._webhttp = webhttp
        self._saved = (webhttp.HttpParser, wrappers.formatdate)
        if parser_cls is not None:
            webhttp.HttpParser = parser_cls          # module global substituted from outside
        wrappers.formatdate = lambda *a, **k: FIXED_DATE
        self.http = webhttp.HTTP(self).register(self)
        self.reply = reply
        self.requests = []    # (sock ident, dict)
        self.out = []         # ('write', ident, bytes) | ('close', ident)
        self.errors = []      # exception events
        self.log = []         # merged order of everything above: ('request', i) ...
        drain(self)

    def restore(self):
        import circuits.web.wrappers as wrappers
        self._webhttp.HttpParser, wrappers.formatdate = self._saved

    def sock(self, ident):
        if not hasattr(self, '_socks'):
            self._socks = {}
        if ident not in self._socks:
            self._socks[ident] = SockToken(ident)
        return self._socks[ident]

    # probe handler: what a request handler sees
    @handler('request', priority=0.5)
    def _probe_request(self, event, req, res, *a):
        body = req.body.read()
        req.body.seek(0)
        rec = {
            'method': req.method, 'path': req.path, 'qs': req.qs,
            'protocol': list(req.protocol), 'headers': canon_headers(req.headers), 'body': body,
        }
        self.requests.append((req.sock.ident, rec))
        self.log.append(('request', req.sock.ident))
        return self.reply if not callable(self.reply) else self.reply(req, res)

    @handler('write', priority=10)
    def _cap_write(self, event, sock, data):
        self.out.append(('write', sock.ident, bytes(data)))
        self.log.append(('write', sock.ident))
        event.stop()

    @handler('close', priority=10)
    def _cap_close(self, event, sock=None):
        self.out.append(('close', getattr(sock, 'ident', None)))
        self.log.append(('close', getattr(sock, 'ident', None)))
        event.stop()

    @handler('exception', channel='*', priority=10)
    def _cap_exc(self, etype, evalue, tb, handler=None, fevent=None):
        self.errors.append((etype.__name__, str(evalue)))

    def read(self, ident, data):
        """deliver one read event; returns (#requests, output events) produced by it"""
        r0, o0 = len(self.requests), len(self.out)
        self.fire(read(self.sock(ident), data), 'web')
        drain(self)
        return self.requests[r0:], self.out[o0:]

    def tables(self):
        return len(self.http._buffers), len(self.http._clients)


class ClientRig(BaseComponent):
    channel = 'web'

    def __init__(self, parser_cls=None):
        super().__init__()
        import circuits.protocols.http as phttp
        import circuits.web.parsers as parsers
        self._parsers = parsers
        self._saved = parsers.HttpParser
        if parser_cls is not None:
            parsers.HttpParser = parser_cls   # protocols.http imports it from circuits.web.parsers at call time
        self.http = phttp.HTTP().register(self)
        self.responses = []
        self.errors = []
        drain(self)

    def restore(self):
        self._parsers.HttpParser = self._saved

    @handler('response', priority=0.5)
    def _probe_response(self, res):
        self.responses.append({
            'status': res.status, 'version': list(res.version) if res.version else None,
            'headers': canon_headers(res.headers), 'body': res.body.getvalue(),
        })

    @handler('exception', channel='*', priority=10)
    def _cap_exc(self, etype, evalue, tb, handler=None, fevent=None):
        self.errors.append((etype.__name__, str(evalue)))

    def read(self, data):
        r0 = len(self.responses)
        self.fire(read(data), 'web')
        drain(self)
        return self.responses[r0:]


def recording_parser():
    """
    -> (subclass of the real HttpParser, log)
    log entries: ('first', kind, bytes, ok) | ('hdrs', bytes, verdict) | ('chunk', line bytes, size|None)
    The subclass only observes arguments and results of the leaf methods.
    """
    from circuits.web.parsers.http import HttpParser, InvalidChunkSize, InvalidHeader
    log = []

    class RecParser(HttpParser):
        def _parse_firstline(self, line):
            ok = super()._parse_firstline(line)
            log.append(('first', self.kind, line, bool(ok)))
            return ok

        def _parse_headers(self, data):
            try:
                r = super()._parse_headers(data)
            except InvalidHeader:
                log.append(('hdrs', bytes(data), 'invalid'))
                raise
            log.append(('hdrs', bytes(data), r))
            return r

        def _parse_chunk_size(self, data):
            try:
                r = super()._parse_chunk_size(data)
            except InvalidChunkSize:
                log.append(('chunk', bytes(data), 'invalid'))
                raise
            log.append(('chunk', bytes(data), r[0]))
            return r

    return RecParser, log

"""
In-process driver for the real circuits.web HTTP component (C15; no network).

A BaseComponent "fake server" carries the attributes `HTTP` reads from its server
(host/port/secure/display_banner) and an `HTTP(self)` child.  An `App` component answers
`request` events from a table {path: spec}; `read(sock, data)` events are fired on channel
'web'; every `write`/`close` event for a socket token is recorded in order.

Socket tokens subclass socket.socket (HTTP._on_exception needs isinstance(..., socket)).
"""
import io
import socket

from circuits import BaseComponent, handler
from circuits.net.events import read
from circuits.web.http import HTTP


class Tok(socket.socket):
    """identity token standing for one TCP connection"""

    def __init__(self, n):  # no real fd is created
        self.n = n

    def getpeername(self):
        return ('127.0.0.1', 40000 + self.n)

    def __repr__(self):
        return f'<Tok {self.n}>'

    def __hash__(self):
        return hash(('tok', self.n))

    def __eq__(self, other):
        return self is other

    def __del__(self):
        pass

    def close(self):
        pass


class FakeServer(BaseComponent):
    channel = 'web'
    host = '127.0.0.1'
    port = 8000
    secure = False
    display_banner = False

    def __init__(self):
        super().__init__()
        self.http = HTTP(self).register(self)
        self.wire = {}      # tok -> list of ('w', bytes) | ('c',)
        self.errors = []

    @handler('write', channel='web', priority=100)
    def _cap_write(self, sock, data):
        self.wire.setdefault(sock, []).append(('w', bytes(data)))

    @handler('close', channel='web', priority=100)
    def _cap_close(self, sock=None):
        self.wire.setdefault(sock, []).append(('c',))

    @handler('exception', channel='*', priority=100)
    def _cap_exc(self, etype, evalue, tb, handler=None, fevent=None):
        self.errors.append(f'{etype.__name__}: {evalue}')


def make_body(spec, counters=None):
    """build the object the application hands to the framework for body `spec`
       spec = {'kind': ..., 'parts': [bytes|str, ...]}"""
    kind = spec['kind']
    parts = spec['parts']
    if kind == 'str':
        return ''.join(p if isinstance(p, str) else p.decode('latin1') for p in parts)
    if kind == 'bytes':
        return b''.join(p if isinstance(p, bytes) else p.encode('utf-8') for p in parts)
    if kind == 'list':
        return list(parts)
    if kind in ('gen', 'sgen'):
        def g():
            for p in parts:
                yield p
        return g()
    if kind == 'file':
        return io.BytesIO(b''.join(p if isinstance(p, bytes) else p.encode('utf-8') for p in parts))
    raise ValueError(kind)


class App(BaseComponent):
    """answers request events from self.table[path]"""
    channel = 'web'

    def __init__(self):
        super().__init__()
        self.table = {}
        self.produced = {}
        self.seen = []

    @handler('request', priority=0.5)
    def _on_request(self, event, req, res):
        spec = self.table.get(req.path)
        if spec is None:
            return None
        self.seen.append((req.path, req.method))
        event.stop()
        if spec.get('status') is not None:
            res.status = spec['status']
        res.headers['X-Case'] = spec.get('tag', 'x')
        if spec.get('ctype'):
            res.headers['Content-Type'] = spec['ctype']
        body = spec['body']
        kind = body['kind']
        if kind in ('str', 'bytes', 'list', 'file'):
            return make_body(body)          # the ordinary way: return the value
        if kind == 'gen':                   # iterable body, not streamed
            res.body = make_body(body)
            return res
        if kind == 'sgen':                  # streamed generator (what wsgi.Gateway does)
            res.body = make_body(body)
            res.stream = True
            return res
        if kind == 'httperror':             # application signals an error page
            from circuits.web.errors import httperror
            ev = httperror(req, res, spec['status'])
            self.produced[req.path] = str(ev).encode('utf-8')
            return ev
        raise ValueError(kind)


def drain(m, limit=3000):
    n = 0
    while len(m):
        m.flush()
        n += 1
        if n > limit:
            raise RuntimeError('queue does not drain')


class Rig:
    def __init__(self):
        self.srv = FakeServer()
        self.app = App().register(self.srv)
        drain(self.srv)
        self.ntok = 0

    def tok(self):
        self.ntok += 1
        return Tok(self.ntok)

    def feed(self, tok, data):
        self.srv.fire(read(tok, data), 'web')
        drain(self.srv)

    def wire(self, tok):
        return self.srv.wire.get(tok, [])

    def clients(self, tok):
        return tok in self.srv.http._clients

"""
In-process driver for the real circuits.web HTTP component (C15; no network), and - last part of
the file - the rig of the end-to-end group (a real circuits.web.Server on a loopback socket).

A BaseComponent "fake server" carries the attributes `HTTP` reads from its server
(host/port/secure/display_banner) and an `HTTP(self)` child.  An `App` component answers
`request` events from a table {path: spec}; `read(sock, data)` events are fired on channel
'web'; every `write`/`close` event for a socket token is recorded in order.

Socket tokens subclass socket.socket (HTTP._on_exception needs isinstance(..., socket)).
"""
import hashlib
import io
import os
import socket
import threading

from circuits import BaseComponent, handler
from circuits.net.events import read
from circuits.web.http import HTTP


class Tok(socket.socket):
    """identity token standing for one TCP connection"""

    def __init__(self, n):  # no real fd is created
        self.n = n

    def getpeername(self):
        return ('127.0.0.1', 40000 + self.n)

    def __repr__(self):
        return f'<Tok {self.n}>'

    def __hash__(self):
        return hash(('tok', self.n))

    def __eq__(self, other):
        return self is other

    def __del__(self):
        pass

    def close(self):
        pass


class FakeServer(BaseComponent):
    channel = 'web'
    host = '127.0.0.1'
    port = 8000
    secure = False
    display_banner = False

    def __init__(self):
        super().__init__()
        self.http = HTTP(self).register(self)
        self.wire = {}      # tok -> list of ('w', bytes) | ('c',)
        self.errors = []
        self.errpages = []  # body text of every error / redirect page, in the order the events were fired

    @handler('write', channel='web', priority=100)
    def _cap_write(self, sock, data):
        self.wire.setdefault(sock, []).append(('w', bytes(data)))

    @handler('close', channel='web', priority=100)
    def _cap_close(self, sock=None):
        self.wire.setdefault(sock, []).append(('c',))

    @handler('httperror', channel='web', priority=100)
    def _cap_page(self, event, *args, **kwargs):
        # what HTTP._on_httperror is about to make the body (str(event) is idempotent)
        self.errpages.append(str(event).encode('utf-8'))

    @handler('exception', channel='*', priority=100)
    def _cap_exc(self, etype, evalue, tb, handler=None, fevent=None):
        self.errors.append(f'{etype.__name__}: {evalue}')


# ---- file-like bodies whose read(n) legally returns fewer than n bytes before the end ----------------
# (only an empty result means end of data: raw pipes, unbuffered sockets, proxied upstream bodies ...)
FILE_LIKE = ('trickle', 'ragged', 'pipe')
E2E_RAGGED = (4096, 1, 5000, 4095, 2, 4096, 1000)      # limits after the first one (which is the `piece`)
E2E_PACKETS = (4096, 1, 4095, 1000)


class ShortReader:
    """read(n) hands out at most `limits[i]` bytes on its i-th call (limits are cycled), never more than n;
       b'' only at the end of the data"""

    def __init__(self, data, limits):
        self.data = bytes(data)
        self.limits = [max(1, int(x)) for x in limits] or [1]
        self.pos = 0
        self.calls = 0
        self.closed = False

    def read(self, n=-1):
        left = len(self.data) - self.pos
        if left <= 0:
            return b''
        m = min(self.limits[self.calls % len(self.limits)], left)
        if n is not None and n >= 0:
            m = min(m, n)
        self.calls += 1
        out = self.data[self.pos:self.pos + m]
        self.pos += m
        return out

    def close(self):
        self.closed = True


def packet_reader(data, limits, maxmsg=4096):
    """a real kernel object: the read end (socket.makefile('rb', buffering=0)) of an AF_UNIX SOCK_SEQPACKET
       pair that the harness has filled with the data as messages of limits[i] (cycled, <= maxmsg) bytes and
       then shut; every read(n >= maxmsg) returns exactly one message, b'' after the last one"""
    a, b = socket.socketpair(socket.AF_UNIX, socket.SOCK_SEQPACKET)
    try:
        try:
            b.setsockopt(socket.SOL_SOCKET, socket.SO_SNDBUF, 1 << 20)
        except OSError:
            pass
        b.setblocking(False)
        limits = [max(1, min(int(x), maxmsg)) for x in limits] or [maxmsg]
        pos = i = 0
        while pos < len(data):
            m = min(limits[i % len(limits)], len(data) - pos)
            b.send(data[pos:pos + m])       # BlockingIOError: the case is too big for the socket buffer
            pos += m
            i += 1
    except BaseException:
        a.close()
        b.close()
        raise
    b.close()
    f = a.makefile('rb', buffering=0)
    a.close()                               # the file object keeps the socket open until it is closed
    return f


def file_like(kind, data, limits):
    if kind == 'pipe':
        return packet_reader(data, limits)
    return ShortReader(data, limits)


# body kinds with response.stream = True although the body is complete (str / bytes / list):
# 'slistb' sets response.body itself and returns the response, the others return the value
SIZED_STREAM_FLAG = {'sstr': 'str', 'sbytes': 'bytes', 'slist': 'list', 'slistb': 'list'}


def make_body(spec, counters=None):
    """build the object the application hands to the framework for body `spec`
       spec = {'kind': ..., 'parts': [bytes|str, ...]}"""
    kind = SIZED_STREAM_FLAG.get(spec['kind'], spec['kind'])
    parts = spec['parts']
    if kind == 'str':
        return ''.join(p if isinstance(p, str) else p.decode('latin1') for p in parts)
    if kind == 'bytes':
        return b''.join(p if isinstance(p, bytes) else p.encode('utf-8') for p in parts)
    if kind == 'list':
        return list(parts)
    if kind in ('gen', 'sgen'):
        def g():
            for p in parts:
                yield p
        return g()
    if kind == 'file':
        f = io.BytesIO(b''.join(p if isinstance(p, bytes) else p.encode('utf-8') for p in parts))
        f.read(spec.get('skip', 0))      # the handler consumed a preamble (or everything) before returning the object
        return f
    if kind in FILE_LIKE:
        data = b''.join(p if isinstance(p, bytes) else p.encode('utf-8') for p in parts if p is not None)
        return file_like(kind, data, spec['limits'])
    raise ValueError(kind)


class App(BaseComponent):
    """answers request events from self.table[path]"""
    channel = 'web'

    def __init__(self):
        super().__init__()
        self.table = {}
        self.produced = {}
        self.seen = []
        self.opened = []        # file-like bodies handed out (a HEAD response never reads or closes its body)

    def close_opened(self):
        for f in self.opened:
            try:
                f.close()
            except OSError:
                pass
        del self.opened[:]

    @handler('request', priority=0.5)
    def _on_request(self, event, req, res):
        spec = self.table.get(req.path)
        if spec is None:
            return None
        self.seen.append((req.path, req.method))
        event.stop()
        if spec.get('status') is not None:
            res.status = spec['status']
        res.headers['X-Case'] = spec.get('tag', 'x')
        if spec.get('ctype'):
            res.headers['Content-Type'] = spec['ctype']
        body = spec['body']
        kind = body['kind']
        if kind in ('str', 'bytes', 'list', 'file'):
            return make_body(body)          # the ordinary way: return the value
        if kind in FILE_LIKE:               # a stream object; optionally the handler announces its length
            f = make_body(body)
            self.opened.append(f)
            if body.get('clen') is not None:
                res.headers['Content-Length'] = str(body['clen'])
            return f
        if kind == 'gen':                   # iterable body, not streamed
            res.body = make_body(body)
            return res
        if kind == 'sgen':                  # streamed generator (what wsgi.Gateway does)
            res.body = make_body(body)
            res.stream = True
            return res
        if kind in ('sstr', 'sbytes', 'slist'):   # stream flag set, a complete (sized) value returned
            res.stream = True
            return make_body(body)
        if kind == 'slistb':                # stream flag set, list assigned to response.body
            res.stream = True
            res.body = make_body(body)
            return res
        if kind == 'httperror':             # application signals an error page
            from circuits.web.errors import httperror
            ev = httperror(req, res, spec['status'])
            self.produced[req.path] = str(ev).encode('utf-8')
            return ev
        raise ValueError(kind)


def drain(m, limit=10000):
    n = 0
    while len(m):
        m.flush()
        n += 1
        if n > limit:
            raise RuntimeError('queue does not drain')


class Rig:
    def __init__(self):
        self.srv = FakeServer()
        self.app = App().register(self.srv)
        drain(self.srv)
        self.ntok = 0

    def tok(self):
        self.ntok += 1
        return Tok(self.ntok)

    def feed(self, tok, data):
        self.srv.fire(read(tok, data), 'web')
        drain(self.srv)

    def wire(self, tok):
        return self.srv.wire.get(tok, [])

    def clients(self, tok):
        return tok in self.srv.http._clients


# ---------------------------------------------------------------------------------------
# end-to-end rig (C15 e2e tier): a real circuits.web.Server on a loopback socket
# ---------------------------------------------------------------------------------------
# Unlike everything above this part does use the network stack: `E2EServer` starts a real
# `circuits.web.Server` (TCPServer + HTTP + Dispatcher) on 127.0.0.1, port 0, in a background
# thread; `E2ERoot` is a `Controller` whose exposed methods return the body kinds of the
# property.  The client side (http.client) lives in c15.py.

_E2E_CACHE = {}


def e2e_pattern(n):
    """n position dependent bytes (numbered 16 byte lines): any re-ordering, loss or duplication
       of a part of the body changes the content, not only the hash.  The lines end in '##' LF so that
       body bytes taken for a chunk-size line are rejected at once instead of being waited for."""
    if n not in _E2E_CACHE:
        blocks = (n >> 10) + 1
        data = b''.join(b'%013d##\n' % i * 64 for i in range(blocks))[:n]
        if len(_E2E_CACHE) > 12:
            _E2E_CACHE.clear()
        _E2E_CACHE[n] = data
    return _E2E_CACHE[n]


def e2e_pieces(kind, size, piece):
    """the parts a body of `kind` and `size` bytes is handed to the framework in
       (str for kind 'str' and for every second part of the multi-part kinds)"""
    data = e2e_pattern(size)
    kind = SIZED_STREAM_FLAG.get(kind, kind)
    if kind == 'bytes' or kind == 'file':
        return [data]
    if kind == 'str':
        text = data.decode('ascii')
        if size >= 5:
            text = 'é€' + text[5:]      # 2 + 3 bytes in utf-8: the byte size stays `size`
        return [text]
    piece = max(1, piece or size or 1)
    parts = [data[i:i + piece] for i in range(0, size, piece)]
    return [p.decode('ascii') if k % 2 else p for k, p in enumerate(parts)]


def e2e_encode(parts):
    return b''.join(p.encode('utf-8') if isinstance(p, str) else p for p in parts)


def _e2e_controller():
    from circuits.web import Controller

    class E2ERoot(Controller):
        """/k<kind>/<size>/<piece>/<status>/<tag> -> a body of that kind, size and partition"""

        def _begin(self, kind, size, piece, status, tag):
            self._close_opened()
            parts = e2e_pieces(kind, int(size), int(piece))
            body = e2e_encode(parts)
            self.produced[tag] = (len(body), hashlib.sha256(body).hexdigest())
            if int(status) != 200:
                self.response.status = int(status)
            self.response.headers['X-Case'] = tag
            self.response.headers['Content-Type'] = 'application/octet-stream'
            return parts

        def kbytes(self, size, piece, status, tag):
            return self._begin('bytes', size, piece, status, tag)[0]

        def kstr(self, size, piece, status, tag):
            self.response.headers['Content-Type'] = 'text/plain; charset=utf-8'
            return self._begin('str', size, piece, status, tag)[0]

        def klist(self, size, piece, status, tag):
            return self._begin('list', size, piece, status, tag)

        def kgen(self, size, piece, status, tag):          # generator result, streaming off
            parts = self._begin('gen', size, piece, status, tag)
            self.response.body = (p for p in parts)
            return self.response

        def ksgen(self, size, piece, status, tag):         # generator result, streaming on
            parts = self._begin('sgen', size, piece, status, tag)
            self.response.body = (p for p in parts)
            self.response.stream = True
            return self.response

        def kfile(self, size, piece, status, tag):         # file object (streamed in BUFSIZE pieces)
            return io.BytesIO(self._begin('file', size, piece, status, tag)[0])

        # file-like results whose read(n) returns fewer than n bytes before the end; the ...L forms announce
        # Content-Length themselves (as tools.serve_file does)
        def _close_opened(self):            # bodies of earlier requests (a HEAD response never closes its body)
            for f in self.opened:
                try:
                    f.close()
                except OSError:
                    pass
            del self.opened[:]

        def _file_like(self, kind, size, piece, status, tag, announce):
            data = self._begin('bytes', size, 0, status, tag)[0]
            piece = int(piece) or 1000
            limits = {'trickle': (piece,), 'ragged': (piece,) + E2E_RAGGED, 'pipe': (piece,) + E2E_PACKETS}[kind]
            f = file_like(kind, data, limits)
            self.opened.append(f)
            if announce:
                self.response.headers['Content-Length'] = str(len(data))
            return f

        def ktrickle(self, size, piece, status, tag):
            return self._file_like('trickle', size, piece, status, tag, False)

        def ktrickleL(self, size, piece, status, tag):
            return self._file_like('trickle', size, piece, status, tag, True)

        def kragged(self, size, piece, status, tag):
            return self._file_like('ragged', size, piece, status, tag, False)

        def kraggedL(self, size, piece, status, tag):
            return self._file_like('ragged', size, piece, status, tag, True)

        def kpipe(self, size, piece, status, tag):
            return self._file_like('pipe', size, piece, status, tag, False)

        def kpipeL(self, size, piece, status, tag):
            return self._file_like('pipe', size, piece, status, tag, True)

        # response.stream = True with a body that is complete already (nothing to stream)
        def ksstr(self, size, piece, status, tag):
            self.response.stream = True
            parts = self._begin('sstr', size, piece, status, tag)
            self.response.headers['Content-Type'] = 'text/plain; charset=utf-8'
            return parts[0]

        def ksbytes(self, size, piece, status, tag):
            self.response.stream = True
            return self._begin('sbytes', size, piece, status, tag)[0]

        def kslist(self, size, piece, status, tag):
            self.response.stream = True
            return self._begin('slist', size, piece, status, tag)

        def kslistb(self, size, piece, status, tag):       # the list is assigned to response.body
            self.response.stream = True
            self.response.body = self._begin('slistb', size, piece, status, tag)
            return self.response

        def kanswer(self, how, status, tag):
            """answers that are error / redirect events made by the handler (they carry the request's tag in
               X-Case; the redirect points at /kbytes/1/0/200/<tag>)"""
            from circuits.web.errors import httperror
            self.produced[tag] = ('handler', how)
            self.response.headers['X-Case'] = tag
            if how == 'event':                             # return httperror(...) with any status
                return httperror(self.request, self.response, int(status), description=tag)
            if how == 'notfound':
                return self.notfound(description=tag)
            if how == 'forbidden':
                return self.forbidden(description=tag)
            if how == 'redirect':
                return self.redirect('/kbytes/1/0/200/' + tag)
            raise ValueError(how)

    E2ERoot.produced = {}
    E2ERoot.opened = []
    return E2ERoot


class _E2EWatch(BaseComponent):
    """learns the port from the server's `ready` event; records server side exceptions"""
    channel = 'web'

    def __init__(self):
        super().__init__()
        self.ready = threading.Event()
        self.bind = None
        self.errors = []

    @handler('ready')
    def _on_ready(self, server, bind):
        self.bind = bind
        self.ready.set()

    @handler('exception', channel='*')
    def _on_exc(self, etype, evalue, tb, handler=None, fevent=None):
        if len(self.errors) < 20:
            self.errors.append(f'{etype.__name__}: {evalue}')


class E2EServer:
    """with E2EServer(sndbuf) as srv: srv.host, srv.port, srv.produced, srv.errors"""

    def __init__(self, sndbuf=65536, timeout=20):
        import atexit
        from socket import SO_SNDBUF, SOL_SOCKET

        import circuits.web.servers as servers
        from circuits.web import Server

        class _Sink:
            def write(self, s):
                return len(s)

            def flush(self):
                pass
        servers.stderr = _Sink()          # BaseServer._on_ready prints a banner there
        opts = [(SOL_SOCKET, SO_SNDBUF, sndbuf)] if sndbuf else []
        self.server = Server(('127.0.0.1', 0), socket_options=opts, display_banner=False)
        self.root = _e2e_controller()()
        self.root.produced = {}
        self.root.opened = []
        self.root.register(self.server)
        self.watch = _E2EWatch().register(self.server)
        self.thread = None
        self._atexit = atexit
        try:
            self.thread, _ = self.server.start()
            if not self.watch.ready.wait(timeout):
                raise RuntimeError('e2e server did not become ready')
            self.host, self.port = '127.0.0.1', self.watch.bind[1]
            if not self.port:
                raise RuntimeError(f'e2e server has no port: {self.watch.bind!r}')
        except BaseException:
            self.stop()
            raise

    @property
    def produced(self):
        return self.root.produced

    @property
    def errors(self):
        return self.watch.errors

    def stop(self, timeout=20):
        srv, self.server = self.server, None
        if srv is None:
            return True
        try:
            srv.stop()
        finally:
            t = self.thread
            if t is not None:
                t.join(timeout)
            self._atexit.unregister(srv.stop)      # run() registered it
            done = t is None or not t.is_alive()
            if done:
                self.root._close_opened()
            tcp = getattr(srv, 'server', None)
            ls = getattr(tcp, '_sock', None)
            if ls is not None:                     # normally closed by the `stopped` handler
                try:
                    ls.close()
                except OSError:
                    pass
            if done:                               # the poller never closes its wake-up pipe: do it for it
                poller = getattr(tcp, '_poller', None)
                for name in ('_ctrl_recv', '_ctrl_send'):
                    fd = getattr(poller, name, None)
                    try:
                        if isinstance(fd, int):
                            os.close(fd)
                        elif fd is not None:
                            fd.close()
                    except OSError:
                        pass
        return done

    def __enter__(self):
        return self

    def __exit__(self, *a):
        self.stop()
        return False

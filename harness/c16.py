"""
C16 - Static files: only contents from inside the document root, exact byte ranges.

Correspondence (B): the real `Static._on_request` (called directly, and behind the real `HTTP`
component driven in-process) and `serve_file`/`get_ranges`  vs.  CV.Model.StaticPath / CV.Model.Ranges;
the stdlib leaves re-implemented in Lean (`unquote`, `normpath`, `join`, `strip`) vs. the real ones.
Spec on impl (C), evaluated by the Lean driver on what the implementation did:
  * `StaticPath.specOk`  - every file opened / directory listed for a request lies in the document
    root as a tree node and is the node the request path denotes;
  * `Ranges.respOk`      - the response to a Range request is the whole file / 416 / exactly the
    requested satisfiable intervals with matching Content-Range and Content-Length;
plus plain comparisons done here: body == contents of the opened file, listing == entries of the
listed directory, no marker of a file outside the root in any response, no exception.
"""
import inspect
import itertools
import os
import re
import shutil
import socket
import sys
import tempfile

from framework import hx, sx
import c16_listing

# ---------------------------------------------------------------------------------------
# audit hook: which paths does the implementation open / list
# ---------------------------------------------------------------------------------------

_AUDIT = {'on': False, 'log': [], 'installed': False}


def _hook(event, args):
    if not _AUDIT['on']:
        return
    if event == 'open':
        p = args[0]
        if isinstance(p, bytes):
            p = os.fsdecode(p)
        if isinstance(p, str):
            _AUDIT['log'].append(('open', p))
    elif event in ('os.listdir', 'os.scandir'):
        p = args[0]
        if isinstance(p, bytes):
            p = os.fsdecode(p)
        if isinstance(p, str):
            _AUDIT['log'].append(('list', p))


def audit_start():
    if not _AUDIT['installed']:
        sys.addaudithook(_hook)
        _AUDIT['installed'] = True
    _AUDIT['log'] = []
    _AUDIT['on'] = True


def audit_stop():
    _AUDIT['on'] = False
    return _AUDIT['log']


# ---------------------------------------------------------------------------------------
# the world: a temp tree with markers, several document-root configurations
# ---------------------------------------------------------------------------------------

SIZES = [0, 1, 7, 100, 4096, 10000]
# text files for the multipart family: tiny files and sizes around a change of the decimal width
MP_SIZES = [0, 1, 2, 9, 10, 11, 99, 100, 101, 999, 1000, 1001]


def pattern(n):
    return bytes((i * 7 + 3 + (i >> 8)) % 251 for i in range(n))


TREE_FILES = [
    'secret.txt', 'root-evil/e.txt', 'root-evil/index.html', 'rootx', 'index.html',
    'root/a.txt', 'root/.hidden', 'root/sub/index.html', 'root/sub/c.txt', 'root/d2/x y.txt',
    'root/d2/deep/z.txt', 'root/pA.txt', 'root/p%41.txt', 'root/é.txt', 'root/odd/index.html/k.txt',
    'root/sub-evil/s.txt', 'root/subx', 'root/secret.txt', 'root/e.txt', 'root/root/a.txt',
    # sub-directories named like the mount prefixes ('/static', '/m/'): the same file names as at the top level with
    # other contents, and one file that exists only there (the mount string occurring again inside the request path)
    'root/static/a.txt', 'root/static/e.txt', 'root/static/secret.txt', 'root/static/only-here.txt', 'root/static/f',
    'root/static/static/a.txt', 'root/static/y', 'root/m/a.txt', 'root/m/e.txt', 'root/m/secret.txt', 'root/m/only-here.txt',
    'root/m/f', 'root/m/m/a.txt', 'root/m/y', 'root/f', 'root/x/static/y', 'root/x/m/y', 'root/x/y', 'root/y',
]
TREE_DIRS = ['root/emp']


class World:
    def __init__(self):
        self.base = os.path.realpath(tempfile.mkdtemp(prefix='c16-'))
        self.content = {}
        for rel in TREE_FILES:
            p = os.path.join(self.base, rel)
            os.makedirs(os.path.dirname(p), exist_ok=True)
            data = ('MARK<%s>' % rel).encode('utf-8') + b' lorem ipsum\n'
            with open(p, 'wb') as fh:
                fh.write(data)
            self.content[p] = data
        for rel in TREE_DIRS:
            os.makedirs(os.path.join(self.base, rel), exist_ok=True)
        for n in SIZES:
            p = os.path.join(self.base, 'root', 'f%d.bin' % n)
            with open(p, 'wb') as fh:
                fh.write(pattern(n))
            self.content[p] = pattern(n)
        for n in MP_SIZES:
            p = os.path.join(self.base, 'root', 'm%d.txt' % n)
            with open(p, 'wb') as fh:
                fh.write(pattern(n))
            self.content[p] = pattern(n)
        root = os.path.join(self.base, 'root')
        # (docroot, mount prefix, dirlisting)
        self.cfgs = [
            (root, None, True),
            (root, '/static', False),
            (os.path.join(root, 'sub'), None, True),
            (root, '/m/', True),
        ]
        self.table = self.fs_table()
        self.statics = {}

    def fs_table(self):
        tbl = []
        p = self.base
        while True:
            tbl.append((p, 'd'))
            if p == '/':
                break
            p = os.path.dirname(p)
        for d, dirs, files in os.walk(self.base):
            for x in dirs:
                tbl.append((os.path.join(d, x), 'd'))
            for x in files:
                tbl.append((os.path.join(d, x), 'f'))
        return tbl

    def outside_markers(self, docroot):
        res = []
        for p, data in self.content.items():
            if not (p.startswith(docroot + '/')) and data.startswith(b'MARK<'):
                res.append((p, data[:data.index(b'>') + 1]))
        return res

    def static(self, i):
        from circuits.web.dispatchers.static import Static
        if i not in self.statics:
            d, pfx, listing = self.cfgs[i]
            self.statics[i] = Static(path=pfx, docroot=d, dirlisting=listing)
        return self.statics[i]

    def cfg_lines(self, i):
        st = self.static(i)
        d, pfx, listing = self.cfgs[i]
        lines = ['cfg %s %s %d %s' % (sx(st.docroot), '~' if pfx is None else sx(pfx), 1 if listing else 0,
                                      ' '.join(sx(x) for x in st.defaults))]
        lines += ['fs %s %s' % (sx(p), k) for p, k in self.table]
        return lines

    def close(self):
        shutil.rmtree(self.base, ignore_errors=True)


# ---------------------------------------------------------------------------------------
# implementation runners
# ---------------------------------------------------------------------------------------

class _Srv:
    host = 'localhost'
    port = 8000
    secure = False
    display_banner = False


def _join_body(body):
    out = []
    for x in body:
        if x is None:
            continue
        out.append(x if isinstance(x, bytes) else x.encode('utf-8'))
    return b''.join(out)


def impl_direct(static, path, rng=None, proto=(1, 1), extra=(), method='GET'):
    """call the dispatcher's handler directly with a constructed request; returns an observation dict"""
    from circuits.web.errors import httperror
    from circuits.web.events import request as RequestEvent
    from circuits.web.exceptions import HTTPException
    from circuits.web.headers import Headers
    from circuits.web.wrappers import Request, Response
    h = Headers([('Host', 'localhost')] + ([('Range', rng)] if rng is not None else []) + list(extra))
    try:
        req = Request(None, method, 'http', path, proto, '', headers=h, server=_Srv)
    except UnicodeError:
        return {'kind': 'unconstructible', 'audit': []}   # no front end can hand this path on
    res = Response(req)
    ev = RequestEvent(req, res)
    obs = {}
    audit_start()
    try:
        try:
            r = static._on_request(ev, req, res)
        except HTTPException as e:
            obs.update(kind='status', status=int(e.code), headers={}, body=b'')
            return obs
        except Exception as e:  # noqa: BLE001 - "never an internal error"
            obs.update(kind='exception', exc=type(e).__name__, detail=str(e)[:200])
            return obs
        if r is None:
            obs.update(kind='pass')
        elif isinstance(r, httperror):
            obs.update(kind='status', status=int(r.code), headers=dict(res.headers.items()), body=b'')
        elif isinstance(r, str):
            obs.update(kind='status', status=200, headers={}, body=r.encode('utf-8'), listing=True)
        else:
            try:
                if isinstance(res.body, (list, bytes, str)):
                    body = _join_body(res.body)
                else:
                    # a generator / file iterator: keep what each step yields (as it is written: str -> UTF-8)
                    chunks = [x if isinstance(x, bytes) else x.encode('utf-8') for x in res.body if x is not None]
                    obs['chunks'] = chunks
                    body = b''.join(chunks)
            except Exception as e:  # noqa: BLE001
                obs.update(kind='exception', exc=type(e).__name__, detail=str(e)[:200])
                return obs
            obs.update(kind='status', status=int(res.status), headers=dict(res.headers.items()), body=body)
        return obs
    finally:
        obs['audit'] = list(audit_stop())


class _Sock(socket.socket):
    def __init__(self):  # no real descriptor
        pass

    def getpeername(self):
        return ('127.0.0.1', 5555)

    def __del__(self):
        pass

    def __repr__(self):
        return '<sock>'


class HttpRig:
    """the real HTTP component + the real Static, driven in-process (no network)"""

    def __init__(self, docroot, pfx, listing):
        from circuits import BaseComponent, Manager, handler
        from circuits.web.dispatchers.static import Static
        from circuits.web.http import HTTP
        from cutil import drain
        self.drain = drain

        rig = self

        class FakeServer(BaseComponent):
            channel = 'web'
            host = 'localhost'
            port = 8000
            secure = False
            display_banner = False

            def __init__(self):
                super().__init__()
                self.http = HTTP(self).register(self)

            @handler('write')
            def _w(self, sock, data):
                rig.out.append(data)

            @handler('request', priority=5)
            def _r(self, event, req, res):
                rig.reqpaths.append(req.path)

        self.m = Manager()
        self.srv = FakeServer().register(self.m)
        Static(path=pfx, docroot=docroot, dirlisting=listing).register(self.srv)
        self.out = []
        self.reqpaths = []
        drain(self.m)

    def get(self, target, rng=None, version='1.1', extra=(), method='GET'):
        from circuits.net.events import disconnect, read
        self.out = []
        self.reqpaths = []
        s = _Sock()
        head = '%s %s HTTP/%s\r\nHost: localhost\r\n' % (method, target, version)
        if rng is not None:
            head += 'Range: %s\r\n' % rng
        for k, v in extra:
            head += '%s: %s\r\n' % (k, v)
        data = (head + '\r\n').encode('utf-8')
        obs = {}
        audit_start()
        try:
            self.m.fire(read(s, data), 'web')
            self.drain(self.m)
            self.m.fire(disconnect(s), 'web')
            self.drain(self.m)
        except Exception as e:  # noqa: BLE001
            obs.update(kind='exception', exc=type(e).__name__, detail=str(e)[:200])
        finally:
            obs['audit'] = list(audit_stop())
        obs['reqpaths'] = list(self.reqpaths)
        raw = b''.join(self.out)
        if 'kind' not in obs:
            parsed = parse_response(raw)
            if parsed is None:
                obs.update(kind='garbled', raw=raw[:200])
            else:
                obs.update(kind='status', status=parsed[0], headers=parsed[1], body=parsed[2])
        return obs


def parse_response(raw):
    if b'\r\n\r\n' not in raw:
        return None
    head, body = raw.split(b'\r\n\r\n', 1)
    lines = head.decode('latin-1').split('\r\n')
    m = re.match(r'HTTP/1\.[01] (\d{3})', lines[0])
    if not m:
        return None
    headers = {}
    for ln in lines[1:]:
        if ':' in ln:
            k, v = ln.split(':', 1)
            headers[k.strip().title().replace('Content-Type', 'Content-Type')] = v.strip()
    if headers.get('Transfer-Encoding', '').lower() == 'chunked':
        out = b''
        while True:
            if b'\r\n' not in body:
                return None
            size, body = body.split(b'\r\n', 1)
            try:
                n = int(size.split(b';')[0], 16)
            except ValueError:
                return None
            if n == 0:
                break
            out += body[:n]
            body = body[n + 2:]
        body = out
    elif 'Content-Length' in headers:
        try:
            n = int(headers['Content-Length'])
        except ValueError:
            return None
        if len(body) < n:
            return None
        body = body[:n]   # a second response on the same connection is C15's business, not ours
    return int(m.group(1)), headers, body


# ---------------------------------------------------------------------------------------
# path cases
# ---------------------------------------------------------------------------------------

def under(p, d):
    return p == d or p.startswith(d.rstrip('/') + '/')


def escape_signature(world, docroot, loc):
    loc = os.path.normpath(loc)
    if loc.startswith(docroot) and not under(loc, docroot):
        return 'escape(sibling-prefix)'
    if under(loc, os.path.dirname(docroot)):
        return 'escape(parent)'
    return 'escape(other)'


def listing_names(html):
    names = re.findall(r'<li><a href="[^"]*">([^<]*)</a></li>', html)
    import html as _h
    return sorted(_h.unescape(n).rstrip('/') for n in names if n != '..')


def observe_path(world, cfg_i, obs):
    """turn an implementation observation into (outcome token list | None, problems[])
    problems: (signature, what) judged by plain comparison here"""
    docroot = world.cfgs[cfg_i][0]
    problems = []
    base_events = [(k, p) for k, p in obs.get('audit', []) if under(os.path.normpath(p), world.base)]
    opened = [p for k, p in base_events if k == 'open']
    listed = [p for k, p in base_events if k == 'list']
    if obs['kind'] == 'exception':
        problems.append(('path-exception(%s)' % obs['exc'], 'the dispatcher raised %s: %s' % (obs['exc'], obs.get('detail'))))
        return None, problems
    if obs['kind'] in ('garbled', 'unconstructible'):
        return None, problems
    body = obs.get('body', b'') if obs['kind'] == 'status' else b''
    for p, mark in world.outside_markers(docroot):
        if mark in body:
            problems.append((escape_signature(world, docroot, p), 'response contains the contents of %s (document root %s)' % (p, docroot)))
            break
    for p in opened + listed:
        if not under(os.path.normpath(p), docroot) and not problems:
            problems.append((escape_signature(world, docroot, p), 'the dispatcher opened %s (document root %s)' % (p, docroot)))
    if obs['kind'] == 'pass':
        return ['pass'], problems
    st = obs['status']
    if st == 200 and (obs.get('listing') or (listed and not opened)):
        if not listed:
            return ['listing', '?'], problems
        loc = listed[0]
        try:
            want = sorted(n for n in os.listdir(loc) if not n.startswith('.'))
        except OSError:
            want = None
        got = listing_names(body.decode('utf-8', 'replace'))
        if want is not None and got != want:
            problems.append(('wrong-listing', 'listing of %s shows %r, directory has %r' % (loc, got, want)))
        return ['listing', loc], problems
    if st in (200, 206):
        if len(opened) != 1:
            return ['file', '?'], problems
        loc = opened[0]
        if st == 200 and body != world.content.get(os.path.normpath(loc), None):
            try:
                real = open(loc, 'rb').read()
            except OSError:
                real = None
            if body != real:
                problems.append(('wrong-bytes', 'body is not the contents of the opened file %s' % loc))
        return ['file', loc], problems
    if st == 404:
        return (['notfound'] if obs.get('direct') else ['pass404']), problems
    return ['status', str(st)], problems


HOSTILE = ('..', '%', '\\', '//', '/./', '\x00')


def _prefix_repeated(pfx, path):
    """the mount string occurs again behind the leading occurrence"""
    if not pfx or not path.startswith(pfx):
        return False
    return pfx.strip('/') in path[len(pfx):]


def eval_paths(ctx, world, cases):
    """cases: dict(kind='path', mode='direct'|'http', cfg=i, path=str)"""
    by_cfg = {}
    for c in cases:
        by_cfg.setdefault((c['cfg'], c['mode']), []).append(c)
    for (cfg_i, mode), group in by_cfg.items():
        docroot, pfx, listing = world.cfgs[cfg_i]
        static = world.static(cfg_i)
        rig = HttpRig(docroot, pfx, listing) if mode == 'http' else None
        lines = list(world.cfg_lines(cfg_i))
        nsetup = len(lines)
        recs = []
        for c in group:
            path = c['path']
            if mode == 'direct':
                obs = impl_direct(static, path)
                obs['direct'] = True
                handed = path
            else:
                obs = rig.get(path)
                handed = obs['reqpaths'][0] if obs.get('reqpaths') else None
            outcome, problems = observe_path(world, cfg_i, obs)
            rec = {'case': c, 'obs': obs, 'outcome': outcome, 'problems': problems, 'handed': handed, 'ops': []}
            if handed is not None and not _encodable(handed):
                handed = None
                rec['handed'] = None
            if handed is not None:
                rec['ops'].append(('serve', len(lines)))
                lines.append('serve %s' % sx(handed))
                if outcome and outcome[0] in ('file', 'listing') and outcome[1] != '?':
                    rec['ops'].append(('spec', len(lines)))
                    lines.append('spec %s | %s %s' % (sx(handed), outcome[0], sx(outcome[1])))
            elif outcome and outcome[0] in ('file', 'listing') and outcome[1] != '?':
                # HTTP mode without a request event and yet something was opened: judge against the sent path
                rec['ops'].append(('spec', len(lines)))
                lines.append('spec %s | %s %s' % (sx(path.split('?')[0]), outcome[0], sx(outcome[1])))
            recs.append(rec)
        answers = ctx.driver.run('staticpath', ['reset'] + lines)[1:]
        if any(a != 'ok' for a in answers[:nsetup]):
            from framework import Infra
            raise Infra('staticpath: configuration lines refused')
        for rec in recs:
            c, obs, outcome = rec['case'], rec['obs'], rec['outcome']
            ok = True
            for sig, what in rec['problems']:
                ctx.violate(c, sig, what)
            ans = {k: answers[i] for k, i in rec['ops']}
            if 'spec' in ans and ans['spec'] != 'ok':
                if ans['spec'] == 'fail inroot':
                    ctx.violate(c, escape_signature(world, world.static(cfg_i).docroot, outcome[1]),
                                'request path %r is answered from %s, outside the document root %s' % (c['path'], outcome[1], docroot))
                elif ans['spec'] == 'fail denotes':
                    ctx.violate(c, 'wrong-file(prefix-repeated)' if _prefix_repeated(pfx, c['path']) else 'wrong-file', 'request path %r is answered from %s, which is not the node it denotes' % (c['path'], outcome[1]))
                else:
                    ctx.disagree(c, {'where': 'staticpath.spec', 'impl': outcome, 'model': ans['spec']})
            # correspondence
            if obs['kind'] == 'unconstructible':
                ctx.count('path_outcome(%s)' % mode, 'unconstructible')
                ctx.case(c, nontrivial=False, validated=False)
                continue
            if outcome is None:
                ok = False
            elif 'serve' in ans:
                model = ans['serve'].split(' ')
                if model[0] in ('file', 'listing'):
                    model[1] = bytes.fromhex(model[1]).decode('utf-8')
                if mode == 'direct':
                    same = model == outcome
                else:
                    # behind HTTP a refusal by the dispatcher ends as 404
                    same = (model == outcome) or (model[0] in ('pass', 'notfound') and outcome[0] == 'pass404')
                if not same:
                    ok = False
                    ctx.disagree(c, {'where': 'static.serve(%s)' % mode, 'handed': rec['handed'], 'impl': outcome, 'model': model})
                if mode == 'http':
                    # `//x/..` is an authority to the request parser: what is handed on is the URL's path
                    ctx.count('http_handed_path', 'as sent' if rec['handed'] == c['path'] else 'reparsed')
            else:
                # front end did not hand the request on: must be a redirect / client error, nothing opened
                if not (outcome[0] == 'status' and outcome[1] in ('301', '400', '404', '505')) and outcome[0] != 'pass404':
                    ok = False
                    ctx.disagree(c, {'where': 'http.front-end', 'impl': outcome, 'model': 'redirect-or-error'})
            ctx.count('path_mode', mode)
            ctx.count('path_outcome(%s)' % mode, outcome[0] if outcome else obs['kind'])
            ctx.count('path_segments', min(c['path'].count('/'), 9))
            hostile = any(h in c['path'] for h in HOSTILE)
            ctx.count('path_hostile', hostile)
            if pfx:
                ctx.count('path_mount_string_again(%s)' % mode, _prefix_repeated(pfx, c['path']))
            ctx.case(c, nontrivial=hostile or (outcome is not None and outcome[0] in ('file', 'listing')), validated=ok)


def _encodable(s):
    try:
        s.encode('utf-8')
        return True
    except UnicodeError:
        return False


CORE9 = ['..', '.', '', '%2e%2e', 'a.txt', 'sub', 'secret.txt', 'root-evil', 'e.txt']
WIDE = CORE9 + ['%2E%2e', '%252e%252e', '..%2f', '%2f', '\\', '..\\', '%5c..', 'root', 'index.html', 'd2', 'x%20y.txt',
                'x y.txt', '%00', 'nonexist', 'é.txt', '%c3%a9.txt', '%e9.txt', '.hidden', 'p%2541.txt', 'p%41.txt', 'pA.txt',
                'deep', 'z.txt', 'emp', 'sub-evil', 's.txt', 'subx', 'rootx', 'c.txt', 'odd', 'k.txt', '%2e', '%2e%2e%2f',
                '..;', '...', '%c0%ae%c0%ae', '%uff0e%uff0e', 'f7.bin', 'static', 'm']


def path_cases(ctx, world):
    rng = ctx.rng
    cases = []
    thorough = ctx.tier == 'thorough' or ctx.searching

    def mk(cfg, mode, segs, lead=None):
        pfx = world.cfgs[cfg][1]
        if lead is None:
            lead = (pfx.rstrip('/') if pfx else '')
        return {'kind': 'path', 'mode': mode, 'cfg': cfg, 'path': lead + '/' + '/'.join(segs)}

    # exhaustive small scope, direct mode: all paths of <= 4 segments over the 9-segment alphabet
    for n in range(0, 5):
        for segs in itertools.product(CORE9, repeat=n):
            cases.append(mk(0, 'direct', segs))
            if n <= 3 or thorough:
                cases.append(mk(1, 'direct', segs))
    # docroot = root/sub (siblings sub-evil, subx; parent files are outside)
    alpha3 = ['..', '.', '%2e%2e', 'c.txt', 'sub-evil', 's.txt', 'a.txt', 'sub', 'subx']
    for n in range(0, 4 if not thorough else 5):
        for segs in itertools.product(alpha3, repeat=n):
            cases.append(mk(2, 'direct', segs))
    # behind the HTTP front end: the same exhaustive set
    for n in range(0, 5):
        for segs in itertools.product(CORE9, repeat=n):
            cases.append(mk(0, 'http', segs))
    for n in range(0, 3):
        for segs in itertools.product(alpha3, repeat=n):
            cases.append(mk(2, 'http', segs))
    # single / double / triple percent-encoding must be undone exactly once
    for cfg in (0, 1, 3):
        for mode in ('direct', 'http'):
            for seg in ('p%2541.txt', 'p%41.txt', 'pA.txt', 'p%252541.txt', '%70A.txt', '%2570A.txt', 'd2/x%2520y.txt',
                        'd2/x%20y.txt', 'sub/%2e%2e/a.txt', 'sub/%252e%252e/a.txt', 'sub%2f..%2fa.txt', 'sub%252f..%252fa.txt'):
                cases.append(mk(cfg, mode, seg.split('/')))
    # the mount string occurring again behind the leading one: only the leading occurrence is the mount point
    for cfg in (1, 3):
        pfx = world.cfgs[cfg][1]
        name = pfx.strip('/')
        for mode in ('direct', 'http'):
            for segs in ([name, 'a.txt'], [name, 'e.txt'], [name, 'secret.txt'], [name, 'only-here.txt'], ['only-here.txt'],
                         [name, name, 'a.txt'], [name, name, name, 'a.txt'], ['x', name, 'y'], ['x', 'y'], [name, 'y'], ['y'],
                         [name], [name, ''], [name, name], ['sub', name, 'c.txt'], [name, 'f'], ['f'],
                         [name, '..', name, 'a.txt'], ['%2e', name, 'a.txt'], [name + '%2fa.txt']):
                cases.append(mk(cfg, mode, segs))
            # glued: '/staticstatic/f', '/static/xstatic/y' (the second occurrence is part of a name)
            cases.append(mk(cfg, mode, ['f'], lead=pfx.rstrip('/') + pfx.rstrip('/').lstrip('/')))
            cases.append(mk(cfg, mode, ['a.txt'], lead=pfx.rstrip('/') + pfx.rstrip('/')))
            cases.append(mk(cfg, mode, ['x' + name, 'y']))
            cases.append(mk(cfg, mode, ['x' + pfx.rstrip('/'), 'y']))
    # absolute paths smuggled in through %2f, and the docroot's own name as text
    b = world.base
    enc = b.replace('/', '%2f')
    for cfg in (0, 1, 2, 3):
        for mode in ('direct', 'http'):
            for tail in ('secret.txt', 'root/a.txt', 'root-evil/e.txt', 'root/sub/c.txt', 'rootx'):
                cases.append(mk(cfg, mode, [enc + '%2f' + tail.replace('/', '%2f')]))
                cases.append(mk(cfg, mode, ['%2f' + enc + '%2f' + tail.replace('/', '%2f')]))
                cases.append(mk(cfg, mode, ['', b.strip('/'), tail]))
    # random longer paths over the wide alphabet, all configurations, both modes; wrong / sloppy mount prefixes
    for _ in range(500 * ctx.scale):
        cfg = rng.randrange(len(world.cfgs))
        mode = 'direct' if rng.random() < 0.7 else 'http'
        n = rng.randint(1, 7)
        segs = [rng.choice(WIDE if rng.random() < 0.7 else CORE9) for _ in range(n)]
        if mode == 'http':
            # a request line is ASCII (RFC 7230); what the front end does with raw 8-bit bytes is C14's subject
            segs = [x for x in segs if x.isascii()]
        pfx = world.cfgs[cfg][1]
        if pfx and rng.random() < 0.25:
            # the mount string again, somewhere behind the leading one
            for _ in range(rng.randint(1, 2)):
                segs.insert(rng.randrange(len(segs) + 1), pfx.strip('/'))
        lead = None
        r = rng.random()
        if r < 0.1:
            lead = rng.choice(['', '/static', '/staticx', '/m', '/m/', '/stat', '/static/..', '/STATIC'])
        cases.append(mk(cfg, mode, segs, lead))
    return cases


# ---------------------------------------------------------------------------------------
# range cases
# ---------------------------------------------------------------------------------------

CR_RE = re.compile(r'^bytes (-?\d+)-(-?\d+)/(-?\d+)$')


def resp_tokens(obs, filedata):
    """observation -> (token string for the driver | None, problems[])"""
    problems = []
    if obs['kind'] == 'exception':
        return None, [('range-exception(%s)' % obs['exc'], 'serve_file raised %s: %s' % (obs['exc'], obs.get('detail')))]
    if obs['kind'] != 'status':
        return None, [('range-no-response', 'no parsable response: %r' % (obs.get('raw'),))]
    st, hd, body = obs['status'], obs['headers'], obs['body']
    cr = hd.get('Content-Range')
    if st == 200:
        clen = hd.get('Content-Length')
        if cr is not None or clen is None or not str(clen).isdigit():
            return None, [('range-bad-200', '200 with Content-Range %r / Content-Length %r' % (cr, clen))]
        return 'full %s %s' % (clen, hx(body)), problems
    if st == 416:
        if cr is None:
            return 'e416 ~', problems
        m = re.match(r'^bytes \*/(\d+)$', cr)
        if not m:
            return None, [('range-bad-416', '416 with Content-Range %r' % cr)]
        return 'e416 %s' % m.group(1), problems
    if st == 206:
        ct = hd.get('Content-Type', '')
        if ct.startswith('multipart/byteranges'):
            m = re.search(r'boundary=(\S+)', ct)
            if not m:
                return None, [('range-bad-multipart', 'no boundary')]
            bnd = m.group(1).encode()
            chunks = body.split(b'--' + bnd)
            # (a body may start with the dash-boundary itself or with CRLF dash-boundary: RFC 2046 5.1.1)
            if len(chunks) < 3 or chunks[0] not in (b'', b'\r\n') or not chunks[-1].startswith(b'--'):
                return None, [('range-bad-multipart', 'framing of the multipart body')]
            parts = []
            for ch in chunks[1:-1]:
                if b'\r\n\r\n' not in ch or not ch.endswith(b'\r\n'):
                    return None, [('range-bad-multipart', 'framing of a part')]
                phead, pbody = ch.split(b'\r\n\r\n', 1)
                pbody = pbody[:-2]
                pcr = None
                for ln in phead.decode('latin-1').split('\r\n'):
                    if ln.lower().startswith('content-range:'):
                        pcr = ln.split(':', 1)[1].strip()
                mm = CR_RE.match(pcr or '')
                if not mm:
                    return None, [('range-bad-content-range', 'part Content-Range %r' % pcr)]
                parts.append((mm.group(1), mm.group(2), mm.group(3), pbody))
            sig = _neg_sig(parts, len(filedata))
            if sig:
                return None, [sig]
            return 'multi ' + ' ; '.join('%s %s %s %s' % (a, b_, t, hx(pb)) for a, b_, t, pb in parts), problems
        mm = CR_RE.match(cr or '')
        clen = hd.get('Content-Length')
        if not mm:
            return None, [('range-bad-content-range', '206 with Content-Range %r' % cr)]
        sig = _neg_sig([(mm.group(1), mm.group(2), mm.group(3), body)], len(filedata))
        if sig:
            return None, [sig]
        if clen is None or not str(clen).isdigit():
            return None, [('range-bad-content-length', '206 with Content-Length %r' % clen)]
        return 'single %s %s %s %s %s' % (clen, mm.group(1), mm.group(2), mm.group(3), hx(body)), problems
    return None, [('range-status(%d)' % st, 'unexpected status %d for a Range request' % st)]


def _neg_sig(parts, flen):
    for a, b_, t, _pb in parts:
        if int(a) < 0 or int(t) < 0:
            return ('range-negative-start', 'Content-Range bytes %s-%s/%s' % (a, b_, t))
        if int(b_) < 0:
            return ('range-negative-end', 'Content-Range bytes %s-%s/%s' % (a, b_, t))
    return None


def classify_range(tok, filedata):
    """signature of a response the spec predicate refused"""
    t = tok.split(' ')
    n = len(filedata)
    if t[0] in ('single', 'multi'):
        parts = []
        if t[0] == 'single':
            parts = [t[2:6]]
        else:
            cur = []
            for x in t[1:] + [';']:
                if x == ';':
                    parts.append(cur)
                    cur = []
                else:
                    cur.append(x)
        for a, b_, tot, body in parts:
            a, b_, tot = int(a), int(b_), int(tot)
            if b_ >= n or tot != n:
                return 'range-end-beyond-file'
            if a > b_:
                return 'range-reversed'
        for a, b_, tot, body in parts:
            if (b'' if body == '-' else bytes.fromhex(body)) != filedata[int(a):int(b_) + 1]:
                return 'wrong-bytes'
        if t[0] == 'single' and int(t[1]) != int(t[3]) + 1 - int(t[2]):
            return 'range-content-length'
        return 'range-206-not-requested'
    if t[0] == 'full':
        if (b'' if t[2] == '-' else bytes.fromhex(t[2])) != filedata or int(t[1]) != n:
            return 'wrong-bytes'
        return 'range-ignored'
    return 'range-416-unjustified'


def eval_ranges(ctx, world, cases):
    """cases: dict(kind='range', mode='direct'|'http', size=n, proto='11'|'10', range=str|None)"""
    by = {}
    for c in cases:
        by.setdefault((c['size'], c['mode'], c.get('ext', 'bin')), []).append(c)
    import sys as _s
    md = _s.get_int_max_str_digits() if hasattr(_s, 'get_int_max_str_digits') else 0
    for (size, mode, ext), group in by.items():
        filedata = pattern(size)
        path = ('/f%d.bin' if ext == 'bin' else '/m%d.txt') % size
        ctype = file_ctype(path)
        static = world.static(0)
        rig = HttpRig(*world.cfgs[0]) if mode == 'http' else None
        lines = ['maxdigits %d' % md, 'file %s' % hx(filedata)]
        recs = []
        for c in group:
            rng = c['range']
            if mode == 'direct':
                obs = impl_direct(static, path, rng, (1, 1) if c['proto'] == '11' else (1, 0))
            else:
                obs = rig.get(path, rng, '1.1' if c['proto'] == '11' else '1.0')
            if obs['kind'] == 'pass':
                obs = {'kind': 'exception', 'exc': 'NotServed', 'detail': 'dispatcher passed on an existing file'}
            tok, problems = resp_tokens(obs, filedata)
            rec = {'case': c, 'tok': tok, 'problems': problems, 'ops': {}, 'obs': obs}
            hv = '~' if rng is None else sx(rng)
            rec['ops']['serve'] = len(lines)
            lines.append('serve %s %s' % (c['proto'], hv))
            if tok is not None:
                rec['ops']['spec'] = len(lines)
                lines.append('spec %s %s | %s' % (c['proto'], hv, tok))
            mp_lines(rec, lines, c, hv, ctype, size)
            recs.append(rec)
        answers = ctx.driver.run('ranges', ['reset'] + lines)[1:]
        for rec in recs:
            c, tok = rec['case'], rec['tok']
            for sig, what in rec['problems']:
                ctx.violate(c, sig, 'Range %r on a %d-byte file: %s' % (c['range'], size, what))
            model = answers[rec['ops']['serve']]
            ok = tok is not None and model.strip() == tok.strip()
            if tok is not None:
                sp = answers[rec['ops']['spec']]
                if sp != 'ok':
                    if sp.startswith('fail'):
                        ctx.violate(c, classify_range(tok, filedata),
                                    'Range %r on a %d-byte file (HTTP/%s) answered %s' % (c['range'], size, c['proto'], _short(tok)))
                    else:
                        ctx.disagree(c, {'where': 'ranges.spec', 'impl': _short(tok), 'model': sp})
                if not ok:
                    ctx.disagree(c, {'where': 'serve_file.range(%s)' % mode, 'range': c['range'], 'size': size,
                                     'impl': _short(tok), 'model': _short(model)})
            ok = mp_judge(ctx, rec, answers, c, size, mode, filedata, ctype) and ok
            ctx.count('range_mode', mode)
            ctx.count('range_size', size)
            ctx.count('range_answer', (tok or 'none').split(' ')[0])
            ctx.case(c, nontrivial=c['range'] is not None, validated=ok)


# ---------------------------------------------------------------------------------------
# multipart/byteranges on the wire: the model's byte stream, the RFC reader on the real bytes
# ---------------------------------------------------------------------------------------

def file_ctype(path):
    """the media type `serve_file` derives from the extension (input of the model, as the code derives it)"""
    from circuits.web import tools
    return tools.mimetypes.types_map.get(os.path.splitext(path)[-1].lower(), 'text/plain')


MP_CT_RE = re.compile(r'^multipart/byteranges; boundary=(\S+)$')


def _is_multi(obs):
    return (obs.get('kind') == 'status' and obs.get('status') == 206
            and str(obs['headers'].get('Content-Type', '')).startswith('multipart/byteranges'))


def mp_lines(rec, lines, c, hv, ctype, size):
    """driver lines for a request with several range specs: what the model puts on the wire, and the spec
    reader (RFC 2046 / 7233) on what the implementation put there"""
    obs = rec['obs']
    rng = c['range']
    if rng is not None and ',' in rng:
        rec['ops']['getranges'] = len(lines)
        lines.append('getranges %s %d' % (hv, size))
    if not _is_multi(obs):
        if rng is not None and ',' in rng:
            # the model must not answer multipart either (any boundary will do)
            rec['ops']['mpserve'] = len(lines)
            lines.append('mpserve %s %s %s %s' % (c['proto'], hv, hx(ctype.encode('utf-8')), hx(b'x')))
        return
    cth = str(obs['headers'].get('Content-Type'))
    m = MP_CT_RE.match(cth)
    rec['mp_ct'] = cth
    rec['ops']['mpspec'] = len(lines)
    lines.append('mpspec %s %s %s %s' % (c['proto'], hv, hx(cth.encode('latin-1')), hx(obs['body'])))
    if m:
        bnd = m.group(1).encode('latin-1')
        rec['mp_bnd'] = bnd
        rec['ops']['mpserve'] = len(lines)
        lines.append('mpserve %s %s %s %s' % (c['proto'], hv, hx(ctype.encode('utf-8')), hx(bnd)))
        rec['ops']['mpread'] = len(lines)
        lines.append('mpread %s %s' % (hx(bnd), hx(obs['body'])))


def range_shape(hv, ans):
    """histogram key for the list `get_ranges` makes of a header (the model's reading of it)"""
    if not ans.startswith('ranges'):
        return ans.split(' ')[0]
    rs = [tuple(int(x) for x in t.split(':')) for t in ans.split(' ')[1:] if t]
    if len(rs) < 2:
        return 'ranges:%d' % len(rs)
    tags = []
    if any(a < d and c < b for i, (a, b) in enumerate(rs) for (c, d) in rs[i + 1:]):
        tags.append('overlap')
    if any(rs[i + 1][0] < rs[i][0] for i in range(len(rs) - 1)):
        tags.append('out-of-order')
    if any(b == c for (a, b) in rs for (c, d) in rs):
        tags.append('adjacent')
    return 'ranges:%d%s' % (min(len(rs), 5), ''.join('+' + t for t in tags))


def spec_shape(rng):
    specs = [x.strip() for x in rng.split('=', 1)[-1].split(',')]
    kinds = set()
    for sp in specs:
        if re.fullmatch(r'\d+-\d+', sp):
            kinds.add('a-b')
        elif re.fullmatch(r'\d+-', sp):
            kinds.add('a-')
        elif re.fullmatch(r'-\d+', sp):
            kinds.add('-n')
        else:
            kinds.add('bad')
    if len(set(specs)) < len(specs):
        kinds.add('dup')
    return ','.join(sorted(kinds))


def mp_judge(ctx, rec, answers, c, size, mode, filedata, ctype):
    """multipart part of the verdict on one range case; returns False if a correspondence failed"""
    ops, obs = rec['ops'], rec['obs']
    ok = True
    if 'getranges' in ops:
        ctx.count('rangelist_shape', range_shape(c['range'], answers[ops['getranges']]))
        ctx.count('rangelist_specs', spec_shape(c['range']))
    if 'mpspec' not in ops:
        if 'mpserve' in ops and answers[ops['mpserve']] != 'notmulti' and rec['tok'] is not None:
            ok = False
            ctx.disagree(c, {'where': 'serve_file.multipart(%s)' % mode, 'range': c['range'], 'size': size,
                             'impl': _short(rec['tok']), 'model': _short(answers[ops['mpserve']])})
        return ok
    what = 'Range %r on a %d-byte file (HTTP/%s)' % (c['range'], size, '.'.join(c['proto']))
    body = obs['body']
    # (C) the spec, evaluated by the driver on the bytes on the wire
    sp = answers[ops['mpspec']]
    if sp == 'fail no-boundary' or 'mp_bnd' not in rec:
        ctx.violate(c, 'multipart-no-boundary', '%s: 206 multipart without a usable boundary: Content-Type %r' % (what, rec.get('mp_ct')))
        return False
    bnd = rec['mp_bnd']
    payload_clash = (b'--' + bnd) in filedata    # hypothesis of C16.multipart_roundtrip (the code does not check it)
    ctx.count('multipart_boundary_in_file', payload_clash)
    if sp == 'fail unreadable':
        if not payload_clash:
            ctx.violate(c, 'multipart-unreadable', '%s: the multipart body cannot be read with its boundary (RFC 2046): %r'
                        % (what, body[:120]))
        return False
    rd = answers[ops['mpread']]
    if sp == 'fail range-exact':
        if not payload_clash:
            tok = 'multi ' + ' ; '.join(' '.join(p.split(' ')[1:]) for p in rd[len('parts '):].split(' ; '))
            ctx.violate(c, classify_range(tok, filedata), '%s: read off the wire: %s' % (what, _short(tok)))
        return False
    if sp != 'ok':
        ctx.disagree(c, {'where': 'ranges.mpspec', 'impl': body[:80].hex(), 'model': sp})
        return False
    # the harness's own reading of the body (oracle) against the Lean reader
    if rec['tok'] is not None and rd.startswith('parts '):
        mine = rec['tok'][len('multi '):].split(' ; ')
        theirs = [' '.join(p.split(' ')[1:]) for p in rd[len('parts '):].split(' ; ')]
        if mine != theirs:
            ok = False
            ctx.disagree(c, {'where': 'multipart.reader', 'impl': _short(rec['tok']), 'model': _short(rd)})
        cts = {p.split(' ')[0] for p in rd[len('parts '):].split(' ; ')}
        if cts != {hx(ctype.encode('utf-8'))}:
            ok = False
            ctx.disagree(c, {'where': 'multipart.part-content-type', 'impl': sorted(cts), 'model': ctype})
    # (B) the model's response, byte for byte
    mv = answers[ops['mpserve']]
    if not mv.startswith('multi '):
        ctx.disagree(c, {'where': 'serve_file.multipart(%s)' % mode, 'range': c['range'], 'size': size,
                         'impl': 'multipart, %d bytes' % len(body), 'model': mv})
        return False
    head, chunks = mv.split(' | ', 1)
    _m, m_status, m_ct, m_clen, m_crange, m_ar = head.split(' ')
    m_chunks = [b'' if x == '-' else bytes.fromhex(x) for x in chunks.split(' ')[1:]]
    m_body = b''.join(m_chunks)
    hd = obs['headers']
    diffs = []
    if m_body != body:
        i = next((k for k in range(min(len(body), len(m_body))) if body[k] != m_body[k]), min(len(body), len(m_body)))
        diffs.append(('body', 'differs at offset %d: impl %r model %r' % (i, body[max(0, i - 8):i + 24], m_body[max(0, i - 8):i + 24])))
    if 'chunks' in obs and obs['chunks'] != m_chunks:
        diffs.append(('chunks', 'impl yields %d pieces, model %d' % (len(obs['chunks']), len(m_chunks))))
    if int(m_status) != obs['status']:
        diffs.append(('status', '%s / %s' % (obs['status'], m_status)))
    if bytes.fromhex(m_ct).decode('latin-1') != str(hd.get('Content-Type')):
        diffs.append(('Content-Type', '%r / %r' % (hd.get('Content-Type'), bytes.fromhex(m_ct))))
    impl_clen = hd.get('Content-Length')
    if (m_clen == '~') != (impl_clen is None) or (impl_clen is not None and str(impl_clen) != m_clen):
        diffs.append(('Content-Length', '%r / %s' % (impl_clen, m_clen)))
    if (m_crange == '~') != (hd.get('Content-Range') is None):
        diffs.append(('Content-Range', '%r / %s' % (hd.get('Content-Range'), m_crange)))
    if bytes.fromhex(m_ar).decode('latin-1') != str(hd.get('Accept-Ranges')):
        diffs.append(('Accept-Ranges', '%r / %r' % (hd.get('Accept-Ranges'), bytes.fromhex(m_ar))))
    if mode == 'http' and impl_clen is None and c['proto'] == '11' and str(hd.get('Transfer-Encoding', '')).lower() != 'chunked':
        diffs.append(('delimiting', 'neither Content-Length nor chunked on HTTP/1.1'))
    for k, d in diffs:
        ok = False
        ctx.disagree(c, {'where': 'serve_file.multipart(%s).%s' % (mode, k), 'range': c['range'], 'size': size, 'diff': d})
    ctx.count('multipart_boundary_shape', '15"=" 19 digits "=="' if re.fullmatch(rb'={15}[0-9]{19}==', bnd) else
              ('"=" and digits' if re.fullmatch(rb'[=0-9]+', bnd) else 'other'))
    ctx.count('multipart_parts', min(len(m_chunks) // 5, 6))
    ctx.count('multipart_body_bytes', 1 << max(len(body) - 1, 0).bit_length())
    ctx.count('multipart_mode', '%s %s' % (mode, ctype))
    return ok


def _short(tok):
    return ' '.join(x if len(x) <= 24 else x[:20] + '..(%d)' % (len(x) // 2) for x in tok.split(' '))


def range_atoms(n):
    nums = sorted({0, 1, max(n - 1, 0), n, n + 1, 10 ** 6})
    atoms = []
    for a in nums:
        atoms.append('%d-' % a)
        atoms.append('-%d' % a)
        for b_ in nums:
            atoms.append('%d-%d' % (a, b_))
    bad = ['-', '', 'a-b', '1', '1-2-3', '+1-2', '1_0-20', ' 1 - 2 ', '٣-٤', '--5', '1--5', '0x1-0x2', '1.0-2',
           '-a', '2-b', '²-3', '007-009', '-007', '1-\t', ' -3 ']
    return atoms, bad


def range_cases(ctx):
    rng = ctx.rng
    cases = []
    thorough = ctx.tier == 'thorough' or ctx.searching

    def mk(size, r, mode='direct', proto='11'):
        return {'kind': 'range', 'mode': mode, 'size': size, 'proto': proto, 'range': r}

    for size in SIZES:
        small = size <= 100
        atoms, bad = range_atoms(size)
        if not small and not thorough:
            atoms = rng.sample(atoms, 12)
            bad = rng.sample(bad, 4)
        cases.append(mk(size, None))
        cases.append(mk(size, ''))
        for a in atoms + bad:
            cases.append(mk(size, 'bytes=' + a))
        for u in ['bytes', 'BYTES=0-0', ' bytes =0-0', 'items=0-0', '=0-0', 'byte=0-0', 'bytes=0-0=1', 'bytes==0-0',
                  'bytes 0-0', 'bytes=0-0,', 'bytes=,0-0', 'bytes=0-0, 1-1', 'bytes=0-0 ,1-1', 'Bytes=-1', 'bytes=0-0;q=1',
                  'bytes=0-' + '9' * 30, 'bytes=' + '9' * 30 + '-', 'bytes=-' + '9' * 30, 'bytesſ=0-0', 'bytes=0-0\r\n']:
            if mode_ok(u):
                cases.append(mk(size, u))
        cases.append(mk(size, 'bytes=0-0', proto='10'))
        cases.append(mk(size, 'bytes=a-b', proto='10'))
    # all pairs of atoms on the 7-byte file (exhaustive), random pairs / triples elsewhere
    atoms7, bad7 = range_atoms(7)
    pool7 = atoms7 + bad7
    pairs = list(itertools.product(pool7, repeat=2))
    if not thorough:
        pairs = rng.sample(pairs, 1200)
    for a, b_ in pairs:
        cases.append(mk(7, 'bytes=%s,%s' % (a, b_)))
    for _ in range(300 * ctx.scale):
        size = rng.choice(SIZES if thorough else [0, 1, 7, 100, 100, 4096])
        atoms, bad = range_atoms(size)
        k = rng.randint(2, 4)
        specs = [rng.choice(atoms if rng.random() < 0.9 else bad) for _ in range(k)]
        sep = rng.choice([',', ', ', ' ,'])
        cases.append(mk(size, 'bytes=' + sep.join(specs)))
    # near-equal lengths (the multi-range refusal rule looks at the spread of the lengths)
    for _ in range(150 * ctx.scale):
        size = rng.choice([100, 4096])
        k = rng.randint(2, 4)
        ln = rng.randint(1, 8)
        specs = []
        for _i in range(k):
            a = rng.randrange(size)
            specs.append('%d-%d' % (a, a + ln - 1 + rng.choice([0, 0, 1, 2, 3, 4, 5])))
        cases.append(mk(size, 'bytes=' + ','.join(specs)))
    # interpreter limit on int(str)
    cases.append(mk(7, 'bytes=0-' + '9' * 4300))
    cases.append(mk(7, 'bytes=0-' + '9' * 4301))
    cases.append(mk(7, 'bytes=-' + '1' * 4301))
    # behind the HTTP front end (header values travel through the real parser)
    for size in [0, 1, 7, 100] + ([4096, 10000] if thorough else []):
        atoms, bad = range_atoms(size)
        sel = atoms + bad if thorough else rng.sample(atoms, 14) + rng.sample(bad, 6)
        for a in sel:
            r = 'bytes=' + a
            if mode_ok(r, http=True):
                cases.append(mk(size, r, mode='http'))
        for r in ['bytes=0-0,2-2', 'bytes=0-1,0-6', 'items=0-0', 'bytes', 'bytes=-1,-1', 'bytes=0-']:
            cases.append(mk(size, r, mode='http'))
        cases.append(mk(size, 'bytes=0-0', mode='http', proto='10'))
    return cases


def mp_cases(ctx):
    """directed family for multipart answers: overlapping, reversed, adjacent, duplicate, suffix + open ranges,
    ranges touching EOF, on tiny files and files whose size is at a change of the decimal width.
    The lengths are kept near each other: `get_ranges` refuses lists whose lengths spread (stddev > 2)."""
    rng = ctx.rng
    cases = []

    def mk(size, ext, r, mode='direct', proto='11'):
        return {'kind': 'range', 'mode': mode, 'size': size, 'proto': proto, 'range': r, 'ext': ext}

    files = [(n, 'txt') for n in MP_SIZES] + [(n, 'bin') for n in (7, 100, 4096, 10000)]
    for size, ext in files:
        n = size
        fam = []
        for ln in sorted({1, 2, 3, min(5, max(n, 1)), max(n // 2, 1), max(n - 1, 1), max(n, 1)}):
            a = max(n - ln, 0) // 2
            last = max(n - 1, 0)
            fam += [
                '%d-%d,%d-%d' % (a, a + ln - 1, a + ln // 2, a + ln // 2 + ln - 1),          # overlapping
                '%d-%d,%d-%d' % (a + ln, a + 2 * ln - 1, a, a + ln - 1),                    # out of order, adjacent
                '%d-%d,%d-%d' % (a, a + ln - 1, a + ln, a + 2 * ln - 1),                    # adjacent
                '%d-%d,%d-%d,%d-%d' % (a, a + ln - 1, a, a + ln - 1, a + 1, a + ln),        # duplicate + shifted by one
                '-%d,%d-' % (ln, max(n - ln, 0)),                                           # suffix + open, the same bytes
                '-%d,%d-' % (ln, max(n - ln - 1, 0)),                                       # suffix + open
                '%d-,-%d,0-%d' % (max(n - ln, 0), ln + 1, ln - 1),                          # open, suffix, head
                '%d-%d,0-%d' % (max(last - ln + 1, 0), last, ln - 1),                       # touching EOF exactly + head
                '%d-%d,0-%d' % (max(last - ln + 1, 0), n, ln),                              # one past EOF (clamped)
                '%d-%d,0-%d' % (max(last - ln + 1, 0), n + 5, ln - 1),                      # beyond EOF (clamped)
                '%d-%d,%d-%d,0-%d' % (last, last, n, n, 0),                                 # last byte, first beyond, first byte
                '0-%d,%d-%d,%d-' % (ln - 1, 10 ** 6, 10 ** 6 + ln, max(n - ln, 0)),         # one unsatisfiable among them
            ]
        for r in fam:
            cases.append(mk(size, ext, 'bytes=' + r))
        # random lists of 2..6 near-equal lengths anywhere in the file (overlaps and any order happen by themselves)
        for _ in range(6 * ctx.scale):
            k = rng.randint(2, 6)
            ln = rng.randint(1, max(1, min(n, rng.choice([1, 2, 8, 64, 1000]))))
            specs = []
            for _i in range(k):
                a = rng.randrange(max(n, 1))
                form = rng.random()
                if form < 0.7:
                    specs.append('%d-%d' % (a, a + ln - 1 + rng.choice([0, 0, 0, 1, 2])))
                elif form < 0.85:
                    specs.append('-%d' % (ln + rng.choice([0, 1])))
                else:
                    specs.append('%d-' % max(n - ln - rng.choice([0, 1]), 0))
            cases.append(mk(size, ext, 'bytes=' + rng.choice([',', ', ', ' , ']).join(specs)))
    # behind the HTTP front end (chunked on 1.1; HTTP/1.0 gets the whole file)
    for size, ext in [(2, 'txt'), (10, 'txt'), (101, 'txt'), (1000, 'txt'), (7, 'bin'), (4096, 'bin')]:
        n = size
        for r in ['0-0,1-1', '1-1,0-0', '0-1,1-2', '-1,0-0', '0-,-%d' % n, '0-2,2-4,4-6', '%d-%d,0-0' % (n - 1, n + 9),
                  '0-0,0-0,1-1', '0-3,2-5,1-4']:
            cases.append(mk(size, ext, 'bytes=' + r, mode='http'))
        cases.append(mk(size, ext, 'bytes=0-0,1-1', mode='http', proto='10'))
        cases.append(mk(size, ext, 'bytes=0-0,1-1', proto='10'))
    return cases


# ---------------------------------------------------------------------------------------
# conditional requests: validate_since decides before the Range header is looked at
# ---------------------------------------------------------------------------------------

def cond_cases(ctx):
    rng = ctx.rng
    cases = []
    dates = [None, '', 'LM', 'Thu, 01 Jan 1970 00:00:00 GMT', 'Fri, 31 Dec 2100 23:59:59 GMT', 'lm', 'garbage', 'LM ']
    ranges = [None, 'bytes=0-0', 'bytes=0-0,2-2', 'bytes=5-', 'bytes=999999-', 'bytes=a-b', 'bytes=0-1,1-2,2-3']
    ifr = [None, 'LM', '"etag"', 'Thu, 01 Jan 1970 00:00:00 GMT']
    combos = list(itertools.product(dates, dates, ranges))
    for ius, ims, r in combos:
        cases.append({'kind': 'cond', 'mode': 'direct', 'size': 7, 'method': 'GET', 'proto': '11',
                      'ius': ius, 'ims': ims, 'ifrange': None, 'range': r})
    for _ in range(150 * ctx.scale):
        ius, ims, r = rng.choice(combos)
        cases.append({'kind': 'cond', 'mode': 'direct', 'size': rng.choice([0, 1, 7, 100]),
                      'method': rng.choice(['GET', 'HEAD', 'POST', 'PUT']), 'proto': rng.choice(['11', '11', '10']),
                      'ius': ius, 'ims': ims, 'ifrange': rng.choice(ifr), 'range': r})
    for _ in range(60 * ctx.scale):
        ius, ims, r = rng.choice(combos)
        ius = None if ius == '' or (ius or '').endswith(' ') else ius     # empty / padded values do not survive a request parser unchanged
        ims = None if ims == '' or (ims or '').endswith(' ') else ims
        cases.append({'kind': 'cond', 'mode': 'http', 'size': rng.choice([1, 7, 100]), 'method': 'GET',
                      'proto': rng.choice(['11', '11', '10']), 'ius': ius, 'ims': ims,
                      'ifrange': rng.choice(ifr), 'range': r})
    return cases


def eval_cond(ctx, world, cases):
    """cases: dict(kind='cond', mode, size, method, proto, ius, ims, ifrange, range); 'LM' stands for the file's
    Last-Modified value"""
    from email.utils import formatdate
    import sys as _s
    md = _s.get_int_max_str_digits() if hasattr(_s, 'get_int_max_str_digits') else 0
    by = {}
    for c in cases:
        by.setdefault((c['size'], c['mode']), []).append(c)
    for (size, mode), group in by.items():
        filedata = pattern(size)
        path = '/f%d.bin' % size
        real = os.path.join(world.base, 'root', 'f%d.bin' % size)
        lm = formatdate(os.stat(real).st_mtime, usegmt=True)
        static = world.static(0)
        rig = HttpRig(*world.cfgs[0]) if mode == 'http' else None
        lines = ['maxdigits %d' % md, 'file %s' % hx(filedata)]
        recs = []
        for c in group:
            def val(v):
                return None if v is None else v.replace('LM', lm)
            ius, ims, ifr = val(c['ius']), val(c['ims']), val(c['ifrange'])
            extra = [(k, v) for k, v in (('If-Unmodified-Since', ius), ('If-Modified-Since', ims), ('If-Range', ifr)) if v is not None]
            if mode == 'direct':
                obs = impl_direct(static, path, c['range'], (1, 1) if c['proto'] == '11' else (1, 0), extra, c['method'])
            else:
                obs = rig.get(path, c['range'], '1.1' if c['proto'] == '11' else '1.0', extra, c['method'])
            rec = {'case': c, 'obs': obs, 'problems': []}
            if obs['kind'] == 'pass':
                obs = rec['obs'] = {'kind': 'exception', 'exc': 'NotServed', 'detail': 'dispatcher passed on an existing file'}
            if obs['kind'] == 'status' and obs['status'] in (304, 412):
                rec['tok'] = 's%d' % obs['status']
                if obs['status'] == 304 and obs.get('body'):
                    rec['problems'].append(('cond-304-with-body', '304 with a body of %d bytes' % len(obs['body'])))
            else:
                tok, problems = resp_tokens(obs, filedata)
                rec['tok'] = None if tok is None else 'ranged ' + tok
                rec['problems'] += problems
            goh = '11' if c['method'] in ('GET', 'HEAD') else '10'
            rec['op'] = len(lines)
            lines.append('cond %s %s %s %s %s %s' % (c['proto'], goh, sx(lm), '~' if ius is None else sx(ius),
                                                     '~' if ims is None else sx(ims), '~' if c['range'] is None else sx(c['range'])))
            recs.append(rec)
        answers = ctx.driver.run('ranges', ['reset'] + lines)[1:]
        for rec in recs:
            c, tok = rec['case'], rec['tok']
            for sig, what in rec['problems']:
                ctx.violate(c, sig, '%s %s, If-Unmodified-Since %r, If-Modified-Since %r, Range %r: %s'
                            % (c['method'], c['proto'], c['ius'], c['ims'], c['range'], what))
            model = answers[rec['op']]
            ok = tok is not None and model.strip() == tok.strip()
            if tok is not None and not ok:
                ctx.disagree(c, {'where': 'serve_file.conditional(%s)' % mode, 'impl': _short(tok), 'model': _short(model)})
            ctx.count('cond_answer', model.split(' ')[0] + ('' if not model.startswith('ranged') else ':' + model.split(' ')[1]))
            ctx.count('cond_method', c['method'])
            ctx.count('cond_headers', '%s/%s/%s' % ('ius' if c['ius'] is not None else '-', 'ims' if c['ims'] is not None else '-',
                                                    'range' if c['range'] is not None else '-'))
            ctx.count('cond_if_range', c['ifrange'] is not None)
            ctx.case(c, nontrivial=c['ius'] is not None or c['ims'] is not None, validated=ok)


def mode_ok(r, http=False):
    if http:
        return all(32 <= ord(ch) < 127 for ch in r) and r == r.strip() and r != ''
    return True


# ---------------------------------------------------------------------------------------
# leaves: stdlib functions re-implemented in the model
# ---------------------------------------------------------------------------------------

LEAF_ALPHA = ['a', 'b', '/', '/', '.', '.', '%', '2', 'e', 'E', 'f', 'c', '3', 'a', '9', '0', ' ', '\\', 'é', '€', '\x00',
              '%2e', '%2f', '%c3', '%a9', '%e2', '%82', '%ac', '%f0', '%9f', '%98', '%80', '%ff', '%ed', '%a0', '%c0', '%ae']


def leaf_cases(ctx):
    rng = ctx.rng
    cases = []
    for _ in range(400 * ctx.scale):
        s = ''.join(rng.choice(LEAF_ALPHA) for _ in range(rng.randint(0, 12)))
        cases.append({'kind': 'leaf', 'fn': 'unquote', 'args': [s]})
    for _ in range(150 * ctx.scale):
        # raw bytes through percent escapes: exercises the UTF-8 decoder with replacement
        bs = bytes(rng.choice([rng.randrange(256), rng.choice([0xc3, 0xa9, 0xe2, 0x82, 0xac, 0xf0, 0x9f, 0x98, 0x80, 0xed, 0xa0, 0xf4, 0x90, 0x41])])
                   for _ in range(rng.randint(1, 6)))
        cases.append({'kind': 'leaf', 'fn': 'unquote', 'args': [''.join('%%%02x' % x for x in bs)]})
    segs = ['..', '.', '', 'a', 'b.c', '...', '..a', ' ']
    for n in range(0, 4):
        for lead in ['', '/', '//', '///']:
            for tup in itertools.product(segs[:5], repeat=n):
                cases.append({'kind': 'leaf', 'fn': 'normpath', 'args': [lead + '/'.join(tup)]})
    for _ in range(300 * ctx.scale):
        s = rng.choice(['', '/', '//', '///', '/tmp/']) + '/'.join(rng.choice(segs) for _ in range(rng.randint(0, 7)))
        cases.append({'kind': 'leaf', 'fn': 'normpath', 'args': [s]})
        cases.append({'kind': 'leaf', 'fn': 'dirname', 'args': [s]})
        cases.append({'kind': 'leaf', 'fn': 'strip', 'args': [rng.choice(['', '/', '//']) + s + rng.choice(['', '/', '//'])]})
        t = rng.choice(['', '/', '//']) + '/'.join(rng.choice(segs) for _ in range(rng.randint(0, 3)))
        cases.append({'kind': 'leaf', 'fn': 'join', 'args': [s, t]})
    ws = [' ', '\t', '\n', '\r', '\x0b', '\x0c', '\x1c', '\x1f', '\x85', '\xa0', ' ', '　', '​', 'a', '1', '-']
    for _ in range(200 * ctx.scale):
        s = ''.join(rng.choice(ws) for _ in range(rng.randint(0, 6)))
        cases.append({'kind': 'leaf', 'fn': 'wsstrip', 'args': [s]})
    digs = ['0', '1', '9', '7', '+', '-', '_', ' ', '٣', '²', 'a', 'x']
    for _ in range(200 * ctx.scale):
        s = ''.join(rng.choice(digs[:4] if rng.random() < 0.6 else digs) for _ in range(rng.randint(0, 8)))
        cases.append({'kind': 'leaf', 'fn': 'rangeint', 'args': [s]})
    return cases


def eval_leaves(ctx, world, cases):
    from urllib.parse import unquote
    import posixpath
    sp_lines, rg_lines, sp_idx, rg_idx = [], [], [], []
    want = []
    for i, c in enumerate(cases):
        fn, a = c['fn'], c['args']
        if fn == 'unquote':
            want.append(sx(unquote(a[0])))
            sp_idx.append(i)
            sp_lines.append('unquote %s' % sx(a[0]))
        elif fn == 'normpath':
            want.append(sx(posixpath.normpath(a[0])))
            sp_idx.append(i)
            sp_lines.append('normpath %s' % sx(a[0]))
        elif fn == 'dirname':
            want.append(sx(posixpath.dirname(a[0])))
            sp_idx.append(i)
            sp_lines.append('dirname %s' % sx(a[0]))
        elif fn == 'strip':
            want.append(sx(a[0].strip('/')))
            sp_idx.append(i)
            sp_lines.append('strip %s' % sx(a[0]))
        elif fn == 'join':
            want.append(sx(posixpath.join(a[0], a[1])))
            sp_idx.append(i)
            sp_lines.append('join %s %s' % (sx(a[0]), sx(a[1])))
        elif fn == 'wsstrip':
            want.append(sx(a[0].strip()))
            rg_idx.append(i)
            rg_lines.append('strip %s' % sx(a[0]))
        elif fn == 'rangeint':
            from circuits.web import utils
            f = getattr(utils, '_range_int', None)
            if f is None:
                try:
                    v = int(a[0])
                except ValueError:
                    v = None
            else:
                v = f(a[0])
            want.append('none' if v is None else str(v))
            rg_idx.append(i)
            rg_lines.append('rangeint %s' % sx(a[0]))
    got = {}
    if sp_lines:
        for i, ans in zip(sp_idx, ctx.driver.run('staticpath', sp_lines)):
            got[i] = ans
    if rg_lines:
        for i, ans in zip(rg_idx, ctx.driver.run('ranges', rg_lines)):
            got[i] = ans
    for i, c in enumerate(cases):
        ok = got.get(i) == want[i]
        if not ok and not (c['fn'] == 'rangeint' and getattr(__import__('circuits.web.utils', fromlist=['x']), '_range_int', None) is None):
            ctx.disagree(c, {'where': 'leaf.' + c['fn'], 'impl': want[i], 'model': got.get(i)})
        ctx.count('leaf', c['fn'])
        ctx.case(c, nontrivial=True, validated=ok)


# ---------------------------------------------------------------------------------------
# parameters
# ---------------------------------------------------------------------------------------

def params(ctx):
    from circuits.web.dispatchers.static import Static
    dflt = inspect.signature(Static.__init__).parameters['defaults'].default
    ok = isinstance(dflt, (tuple, list)) and all(isinstance(x, str) for x in dflt)
    if ok and dflt:
        ans = ctx.driver.run('staticpath', ['cleanseg %s' % sx(x) for x in dflt])
        ok = all(a == 'yes' for a in ans)
    ctx.param('Static.defaults are clean path components (hypothesis of C16.contained)', ok, repr(dflt))
    md = sys.get_int_max_str_digits() if hasattr(sys, 'get_int_max_str_digits') else 0
    ctx.extra['int_max_str_digits'] = md
    # hypotheses of C16.multipart_roundtrip that concern the code's own inputs
    from circuits.web import tools
    bs = [tools._make_boundary() for _ in range(64)]
    ok = all(isinstance(b, str) and re.fullmatch(r'[=0-9]+', b) for b in bs)
    if ok:
        ans = ctx.driver.run('ranges', ['bndok %s' % hx(b.encode('latin-1')) for b in bs[:8]])
        ok = all(a == 'yes' for a in ans)
    ctx.param('multipart boundaries consist of "=" and decimal digits (hypothesis of C16.code_boundary_no_cr / hb)', ok, bs[0])
    cts = sorted({file_ctype('/x.bin'), file_ctype('/x.txt')})
    ctx.param('media types of the served files contain no CR (hypothesis hct of C16.multipart_roundtrip)',
              all('\r' not in t for t in cts), repr(cts))


# ---------------------------------------------------------------------------------------
# entry points
# ---------------------------------------------------------------------------------------

EVAL = {'path': eval_paths, 'range': eval_ranges, 'leaf': eval_leaves, 'cond': eval_cond,
        'listing': c16_listing.eval_listings, 'qleaf': c16_listing.eval_qleaves}


def _describe(ctx):
    ctx.rule = ('paths: every path of <=4 segments over the 9-segment alphabet %r (exhaustive, direct mode, mounted at / '
                'and under /static), <=3 segments behind the HTTP front end (<=4 thorough), a second docroot with siblings '
                'whose names extend its name, absolute paths smuggled in with %%2f, random paths of <=7 segments over %d '
                'hostile and benign segments with right / wrong / sloppy mount prefixes; ranges: every single spec over the '
                'boundary numbers {0,1,n-1,n,n+1,10^6} x {a-b, a-, -n} + malformed specs and units for file sizes %r, all '
                'pairs on the 7-byte file (sampled in quick), random 2-4 spec lists, HTTP/1.0, behind the front end; '
                'multipart: every 206 multipart answer of those runs plus a directed family (overlapping, out-of-order, '
                'adjacent, duplicate, suffix+open, touching / beyond EOF, one unsatisfiable) on files of %r bytes (text/plain) '
                'and 7/100/4096/10000 bytes (octet-stream) is compared byte for byte (and piece for piece in direct mode) '
                'with the model body for the real boundary, its headers by content, and read by the Lean RFC reader; '
                'conditional: all combinations of 8 If-Unmodified-Since x 8 If-Modified-Since values x 7 Range headers '
                '(GET), random ones with HEAD/POST/PUT, If-Range, HTTP/1.0, behind the front end; '
                'non-trivial = hostile segment or something served / a Range header present; distinct = distinct case; '
                'mount string again: directed family + 25 %% of the random paths under a mount carry the mount name again '
                'behind the leading prefix (nested, glued, inside a name), the docroot has same-named files below <docroot>/<mount name>/; '
                'listings (c16_listing.py): every directory of a docroot with %d hostile names x %d mount configurations x ~10 '
                'request spellings (canonical, trailing slash, doubled slashes, sub-delims unencoded, /./, x/../, zz/.., %%2F, '
                'random percent-encoding, absolute docroot spelling) + random directories of 1-6 names over a %d-character hostile '
                'alphabet; every href of every page is followed through the real dispatcher'
                % (CORE9, len(WIDE), SIZES, MP_SIZES, len(c16_listing.LTREE), len(c16_listing.LCFGS), len(c16_listing.NAME_ALPHA)))
    ctx.trusted += ['Lean re-implementations of urllib.parse.unquote / posixpath.normpath / join / str.strip equal the '
                    'stdlib functions (validated by this run on generated strings, not proved)',
                    'no symbolic links inside the document root (the dispatcher resolves none)',
                    'file contents and sizes do not change between stat and read',
                    'float stddev(...) > 2.0 agrees with the exact integer comparison used by the model',
                    'the multipart boundary ("--" + boundary) does not occur in a requested payload: hypothesis of '
                    'C16.multipart_roundtrip; the code draws 19 random digits and does not look at the file '
                    '(histogram multipart_boundary_in_file counts the runs where it did occur)',
                    'HTTP chunked framing of the generator body is undone by the harness (C15 covers it)',
                    'Lean re-implementations of urllib.parse.quote (safe="/") and html.escape equal the stdlib functions, and '
                    'unquote(quote(s)) == s (hypothesis 3 of C16.listing_link_leads_to_entry_partial) - validated on generated '
                    'strings by this run, not proved',
                    'os.listdir reports every child of the directory once (hypothesis LsOk of C16.listing_exact); its order is '
                    'taken from a second os.listdir call on the unchanged directory',
                    'html.parser undoes html.escape on attribute values and text (the raw <li> lines are also compared as text)']
    ctx.assumptions += ['Range header values are drawn from ASCII plus a few non-ASCII digits / spaces',
                        'directory listings are compared as sets of entry names (path cases) and entry by entry, in order, in the listing cases',
                        'listing cases: file names are valid Unicode without "/" and newline (a name that is not valid UTF-8 makes '
                        'quote() raise - outside the model: Lean Char has no lone surrogates); listings are driven by direct dispatch '
                        'only; mount prefixes consist of characters quote() leaves alone',
                        'a client follows an href by requesting its path component (fragment and query cut off, no other rewriting)',
                        'HTTP/1.0 requests get the whole file (the code does not look at Range there)',
                        'the media type of a part is the one mimetypes gives for the extension (input of the model)',
                        'validators are compared as strings with the formatted Last-Modified (as the code does); '
                        'If-Range / ETag headers are sent but the code ignores them - so does the model']


def run(ctx):
    _describe(ctx)
    world = World()
    try:
        params(ctx)
        for case in ctx.corpus():
            EVAL[case['kind']](ctx, world, [case])
        lworld = c16_listing.ListWorld()
        try:
            lcases = c16_listing.listing_cases(ctx, lworld)
        finally:
            lworld.close()
        groups = [('qleaf', c16_listing.qleaf_cases(ctx)), ('listing', lcases), ('leaf', leaf_cases(ctx)), ('range', range_cases(ctx) + mp_cases(ctx)), ('cond', cond_cases(ctx)),
                  ('path', path_cases(ctx, world))]
        for kind, cases in groups:
            for i in range(0, len(cases), 4000):
                EVAL[kind](ctx, world, cases[i:i + 4000])
                if ctx.time_up():
                    break
    finally:
        world.close()


def search(ctx):
    run(ctx)


def replay(ctx, case):
    world = World()
    try:
        EVAL[case['kind']](ctx, world, [case])
    finally:
        world.close()

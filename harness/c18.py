"""
C18 - Line protocol is segmentation-invariant; IRC messages are exactly one line.

Correspondence (B): real `splitLines` / `Line` component (client and server mode) /
`Message` / command constructors / `parsemsg`  vs.  CV.Model.Line, CV.Model.Irc.
Spec on impl (C): `Line.untaggedOk` (lines-exact, which determines the output uniquely and
therefore implies segmentation invariance), `Irc.oneLine`, `Irc.wellFormed -> expectedParse`,
all evaluated by the Lean driver on the implementation's own output.
"""
import itertools

from framework import cuts_to_segments, hx, sx, unhx

TOKENS = [b'a', b'bc', 'é'.encode(), '€'.encode(), b'\r', b'\n', b'\r\n', b'', b' ', b'\r\r', b':']
IRC_ALPHA = ['a', ' ', ':', '\r', '\n', '\0', 'é', '\t']

CTORS = {
    # name: (min args, max args)
    'AWAY': (0, 1), 'NICK': (1, 2), 'USER': (4, 4), 'PASS': (1, 1), 'PONG': (1, 2), 'QUIT': (0, 1),
    'JOIN': (1, 2), 'PART': (1, 2), 'PRIVMSG': (2, 2), 'NOTICE': (2, 2), 'KICK': (2, 3), 'TOPIC': (1, 2),
    'MODE': (1, 4), 'INVITE': (2, 2), 'NAMES': (0, 1), 'WHOIS': (1, 2), 'WHO': (0, 2),
}


# ---------------------------------------------------------------------------------------
# implementation runners
# ---------------------------------------------------------------------------------------

def impl_line_client(segments):
    from circuits import Manager
    from circuits.io.events import read
    from circuits.protocols.line import Line
    from cutil import Capture, drain
    m = Manager()
    ln = Line().register(m)
    cap = Capture({'line'}).register(m)
    drain(m)
    per_seg = []
    for seg in segments:
        before = len(cap.log)
        m.fire(read(seg))
        drain(m)
        per_seg.append(([e[1][0] for e in cap.log[before:]], ln.buffer))
    return per_seg


def impl_line_server(reads):
    from circuits import Manager
    from circuits.io.events import read
    from circuits.protocols.line import Line
    from cutil import Capture, drain
    bufs = {}
    m = Manager()
    Line(getBuffer=lambda s: bufs.get(s, b''), updateBuffer=lambda s, b: bufs.__setitem__(s, b)).register(m)
    cap = Capture({'line'}).register(m)
    drain(m)
    out = []
    for sock, data in reads:
        before = len(cap.log)
        m.fire(read(sock, data))
        drain(m)
        out.append(([(e[1][0], e[1][1]) for e in cap.log[before:]], bufs.get(sock, b'')))
    return out


def cut_class(stream, cuts):
    cls = set()
    for c in cuts:
        if stream[c - 1:c] == b'\r' and stream[c:c + 1] == b'\n':
            cls.add('between-CR-LF')
        elif stream[c - 1:c] == b'\n':
            cls.add('at-line-end')
        elif stream[c - 1:c] == b'\r':
            cls.add('after-CR')
        else:
            cls.add('inside-line')
    for k in ('between-CR-LF', 'after-CR', 'at-line-end', 'inside-line'):
        if k in cls:
            return k
    return 'uncut'


# ---------------------------------------------------------------------------------------
# evaluation of batches
# ---------------------------------------------------------------------------------------

def eval_line(ctx, cases):
    """cases: dict(kind='line', stream=hex, cuts=[...])"""
    ops, impl = [], []
    for c in cases:
        stream = unhx(c['stream'])
        segs = cuts_to_segments(stream, c['cuts'])
        try:
            per_seg = impl_line_client(segs)
        except Exception as e:  # the component must not fail on any bytes
            ctx.violate(c, f'line-exception({type(e).__name__})', f'Line raised {e!r}')
            per_seg = None
        impl.append(per_seg)
        o = [f'feed {hx(s)}' for s in segs]
        if per_seg is not None:
            lines = [l for ls, _b in per_seg for l in ls]
            tail = per_seg[-1][1] if per_seg else b''
            o.append(f"spec {hx(stream)} {hx(tail)} | {' '.join(hx(l) for l in lines)}")
        ops.append(o)
    answers = ctx.driver.batch('line', ops)
    for c, per_seg, ans in zip(cases, impl, answers):
        stream = unhx(c['stream'])
        ctx.count('cut_class', cut_class(stream, c['cuts']))
        ctx.count('segments', min(len(c['cuts']) + 1, 9))
        if per_seg is None:
            ctx.case(c, validated=False)
            continue
        ok = True
        for i, ((ls, buf), a) in enumerate(zip(per_seg, ans)):
            want = f"{hx(buf)} | {' '.join(hx(l) for l in ls)}"
            if a.strip() != want.strip():
                ok = False
                ctx.disagree(c, {'where': 'line.feed', 'segment': i, 'impl': want, 'model': a})
                break
        if ans[-1] != 'ok':
            ctx.violate(c, f'line-split-differs({cut_class(stream, c["cuts"])})',
                        f'lines emitted for stream {c["stream"]} cut at {c["cuts"]} are not the lines of the stream')
        nontrivial = (b'\n' in stream) and len(c['cuts']) > 0
        ctx.case(c, nontrivial=nontrivial, validated=ok)


def eval_server(ctx, cases):
    """cases: dict(kind='server', reads=[[sock, hex], ...])"""
    ops, impl = [], []
    for c in cases:
        reads = [(s, unhx(d)) for s, d in c['reads']]
        try:
            res = impl_line_server(reads)
        except Exception as e:
            ctx.violate(c, f'line-exception({type(e).__name__})', f'Line (server mode) raised {e!r}')
            res = None
        impl.append(res)
        o = [f'sfeed {s} {hx(d)}' for s, d in reads]
        if res is not None:
            for sock in sorted({s for s, _ in reads}):
                stream = b''.join(d for s, d in reads if s == sock)
                lines = [l for (ls, _b), (s, _d) in zip(res, reads) for (ss, l) in ls if ss == sock]
                tail = [b for (_ls, b), (s, _d) in zip(res, reads) if s == sock][-1]
                o.append(f"spec {hx(stream)} {hx(tail)} | {' '.join(hx(l) for l in lines)}")
        ops.append(o)
    answers = ctx.driver.batch('line', ops)
    for c, res, ans in zip(cases, impl, answers):
        if res is None:
            ctx.case(c, validated=False)
            continue
        reads = c['reads']
        ok = True
        for i, ((ls, buf), a) in enumerate(zip(res, ans)):
            if any(ss != reads[i][0] for ss, _ in ls):
                ctx.violate(c, 'cross-socket-leak', 'a line event carries another socket than the read that produced it')
            want = f"{hx(buf)} | {' '.join(hx(l) for _s, l in ls)}"
            if a.strip() != want.strip():
                ok = False
                ctx.disagree(c, {'where': 'line.sfeed', 'read': i, 'impl': want, 'model': a})
                break
        for a in ans[len(reads):]:
            if a != 'ok':
                ctx.violate(c, 'cross-socket-leak', 'per-socket lines are not the lines of that socket\'s own byte stream')
        ctx.count('server_sockets', len({s for s, _ in reads}))
        ctx.case(c, nontrivial=len({s for s, _ in reads}) > 1, validated=ok)


def opt(t):
    return '~' if t is None else sx(t)


def eval_irc(ctx, cases):
    """cases: dict(kind='irc', ctor=NAME|'Message', args=[...], prefix=..., command=...)"""
    from circuits.protocols.irc import commands
    from circuits.protocols.irc.message import Error, Message
    from circuits.protocols.irc.utils import parsemsg
    from circuits.protocols.line import splitLines
    ops, impl = [], []
    for c in cases:
        rec = {}
        o = []
        try:
            if c['ctor'] == 'Message':
                kw = {'prefix': c['prefix']} if c.get('prefix') is not None else {}
                msg = Message(c['command'], *c['args'], **kw)
            else:
                msg = getattr(commands, c['ctor'])(*c['args']).args[0]
                # glue: the constructor must build the message the table says
                padded = list(c['args'])
                o.append(f"construct {sx(c['ctor'])} {' '.join(opt(a) for a in padded)}")
                rec['built'] = f"{opt(msg.prefix)} {opt(msg.command)} | {' '.join(sx(a) for a in msg.args)}"
            rec['msg'] = (msg.prefix, msg.command, list(msg.args))
            try:
                wire = bytes(msg)
                rec['wire'] = wire
            except Error:
                rec['wire'] = None
        except Error:
            rec['msg'] = None
        except Exception as e:
            rec['msg'] = None
            rec['exc'] = repr(e)
        if rec.get('msg') is None:
            if c['ctor'] == 'Message':
                cmd0 = c.get('command')
                o.append(f"render current {opt(c.get('prefix'))} {'~' if cmd0 is None else sx(str(cmd0))} "
                         f"{' '.join(sx(x) for x in c['args'] if x is not None)}")
            else:
                o.append(f"crender current {sx(c['ctor'])} {' '.join(opt(x) for x in c['args'])}")
        if rec.get('msg') is not None:
            p, cmd, args = rec['msg']
            cmd_t = '~' if cmd is None else sx(str(cmd))
            o.append(f"render current {opt(p)} {cmd_t} {' '.join(sx(a) for a in args)}")
            if rec['wire'] is not None:
                text = rec['wire'].decode('utf-8', 'surrogatepass')
                o.append(f'oneline {sx(text)}')
                # round trip through the real line protocol and parser
                lines, rest = splitLines(rec['wire'], b'')
                rec['lines'] = (lines, rest)
                if len(lines) >= 1:
                    try:
                        pp, pc, pa = parsemsg(lines[0])
                        raw = None
                        # parsemsg applies parseprefix; recover comparison by applying it to ours too
                        from circuits.protocols.irc.utils import parseprefix
                        rec['parsed'] = (pp, pc, pa)
                        rec['expect_prefix'] = parseprefix(p or '')
                        # raw prefix is compared through parseprefix equality; hand the driver our own
                        # prefix text iff the parsed triple equals parseprefix(ours)
                        raw = (p or '') if tuple(pp) == tuple(rec['expect_prefix']) else '\x00MISMATCH'
                        o.append(f"rtspec {opt(p)} {cmd_t} {' '.join(sx(a) for a in args)} | "
                                 f"{sx(raw)} {opt(pc)} {' '.join(sx(a) for a in pa)}")
                        o.append(f'parse {sx(lines[0].decode("utf-8", "replace"))}')
                    except Exception as e:
                        rec['parse_exc'] = repr(e)
                        o.append(f"rtspec {opt(p)} {cmd_t} {' '.join(sx(a) for a in args)} | "
                                 f"{sx(chr(0) + 'EXC')} ~")
        ops.append(o)
        impl.append(rec)
    answers = ctx.driver.batch('irc', ops)
    for c, rec, o, ans in zip(cases, impl, ops, answers):
        ok = True
        sig_detail = classify_irc(c)
        a = dict()
        for op, an in zip(o, ans):
            a.setdefault(op.split(' ', 1)[0], an)
        ctx.count('irc_ctor', c['ctor'])
        if rec.get('msg') is None:
            # constructor refused (Error) - the model must refuse as well
            r = a.get('crender', a.get('render'))
            if r != 'error':
                ok = False
                ctx.disagree(c, {'where': 'irc.refused', 'impl': rec.get('exc', 'Error'), 'model': r})
            ctx.count('irc_outcome', 'refused')
            ctx.case(c, nontrivial=True, validated=ok)
            continue
        if 'construct' in a and a['construct'].strip() != rec['built'].strip():
            ok = False
            ctx.disagree(c, {'where': 'irc.construct', 'impl': rec['built'], 'model': a['construct']})
            if c['ctor'] != 'Message' and rec['msg'][1] != c['ctor']:
                ctx.violate(c, f'wrong-command({c["ctor"]})',
                            f'{c["ctor"]}{tuple(c["args"])} builds command {rec["msg"][1]!r}')
        want = 'error' if rec['wire'] is None else sx(rec['wire'].decode('utf-8', 'surrogatepass'))
        if a.get('render') != want:
            ok = False
            ctx.disagree(c, {'where': 'irc.render', 'impl': want, 'model': a.get('render')})
        if rec['wire'] is None:
            ctx.count('irc_outcome', 'refused-at-str')
        else:
            ctx.count('irc_outcome', 'rendered')
            if a.get('oneline') != 'ok':
                ctx.violate(c, f'injection({sig_detail})', f'{c["ctor"]}{tuple(c["args"])} serialises to {rec["wire"]!r}')
            rt = a.get('rtspec', 'ok')
            if rt.startswith('fail'):
                ctx.violate(c, f'roundtrip({sig_detail})',
                            f'parsemsg(str(m)) = {rec.get("parsed", rec.get("parse_exc"))!r} for m = {rec["msg"]!r}')
            ctx.count('irc_roundtrip', rt)
            if 'parse' in a and 'parsed' in rec:
                pp, pc, pa = rec['parsed']
                # raw prefix cannot be read back from parseprefix output; compare command and args
                model_tail = a['parse'].split(' ', 1)[1] if a['parse'] != 'error' else 'error'
                want_tail = f"{opt(pc)} | {' '.join(sx(x) for x in pa)}"
                if model_tail.strip() != want_tail.strip():
                    ok = False
                    ctx.disagree(c, {'where': 'irc.parsemsg', 'impl': want_tail, 'model': model_tail})
        ctx.case(c, nontrivial=any(ch in (x or '') for x in c['args'] for ch in ' :\r\n'), validated=ok)


def classify_irc(c):
    vals = [(f'arg', x) for x in c['args'] if x is not None]
    if c['ctor'] == 'Message':
        vals += [('command', c.get('command') or ''), ('prefix', c.get('prefix') or '')]
    for where, v in vals:
        if '\r' in v and '\n' not in v:
            return f'CR in {where}'
    for where, v in vals:
        if '\n' in v:
            return f'LF in {where}'
    return 'other'


def eval_parse(ctx, cases):
    """cases: dict(kind='ircparse', line=hex) - parsemsg on arbitrary lines"""
    from circuits.protocols.irc.utils import parsemsg
    ops, impl = [], []
    for c in cases:
        raw = unhx(c['line'])
        try:
            pp, pc, pa = parsemsg(raw)
            impl.append(f"{opt(pc)} | {' '.join(sx(x) for x in pa)}")
        except ValueError:
            impl.append('error')
        ops.append([f'parse {sx(raw.decode("utf-8", "replace"))}'])
    answers = ctx.driver.batch('irc', ops)
    for c, want, ans in zip(cases, impl, answers):
        got = ans[0].split(' ', 1)[1] if ans[0] != 'error' else 'error'
        ok = got.strip() == want.strip()
        if not ok:
            ctx.disagree(c, {'where': 'irc.parsemsg', 'impl': want, 'model': got})
        ctx.case(c, nontrivial=True, validated=ok)


# ---------------------------------------------------------------------------------------
# generators
# ---------------------------------------------------------------------------------------

def gen_stream(rng, maxtok):
    return b''.join(rng.choice(TOKENS) for _ in range(rng.randint(0, maxtok)))


def line_cases(ctx):
    rng = ctx.rng
    cases = []
    # exhaustive small scope: every stream of <= 4 bytes over {a, CR, LF}, every cut set
    alpha = [b'a', b'\r', b'\n']
    for n in range(0, 5):
        for tup in itertools.product(alpha, repeat=n):
            s = b''.join(tup)
            for k in range(0, n):
                for cuts in itertools.combinations(range(1, n), k):
                    cases.append({'kind': 'line', 'stream': hx(s), 'cuts': list(cuts)})
    # random streams: all single cuts, byte-at-a-time, random multi-cuts
    for _ in range(40 * ctx.scale):
        s = gen_stream(rng, 14)
        n = len(s)
        cases.append({'kind': 'line', 'stream': hx(s), 'cuts': []})
        for c in range(1, n):
            cases.append({'kind': 'line', 'stream': hx(s), 'cuts': [c]})
        cases.append({'kind': 'line', 'stream': hx(s), 'cuts': list(range(1, n))})
        for _ in range(4):
            k = rng.randint(0, max(0, min(6, n - 1)))
            cases.append({'kind': 'line', 'stream': hx(s), 'cuts': sorted(rng.sample(range(1, n), k)) if n > 1 else []})
    if ctx.tier == 'thorough' or ctx.searching:
        for _ in range(30 * ctx.scale):
            s = gen_stream(rng, 8)
            n = len(s)
            if n <= 14:
                for cuts in itertools.combinations(range(1, n), 2):
                    cases.append({'kind': 'line', 'stream': hx(s), 'cuts': list(cuts)})
    return cases


def server_cases(ctx):
    rng = ctx.rng
    cases = []
    for _ in range(60 * ctx.scale):
        nsock = rng.randint(1, 3)
        streams = {s: gen_stream(rng, 8) for s in range(1, nsock + 1)}
        pieces = []
        for s, st in streams.items():
            n = len(st)
            k = rng.randint(0, max(0, min(5, n - 1)))
            cuts = sorted(rng.sample(range(1, n), k)) if n > 1 else []
            pieces.append([(s, seg) for seg in cuts_to_segments(st, cuts)])
        reads = []
        while any(pieces):
            p = rng.choice([p for p in pieces if p])
            reads.append(p.pop(0))
        cases.append({'kind': 'server', 'reads': [[s, hx(d)] for s, d in reads]})
    return cases


def irc_strings(maxlen):
    out = ['']
    for n in range(1, maxlen + 1):
        for tup in itertools.product(IRC_ALPHA, repeat=n):
            out.append(''.join(tup))
    return out


def irc_cases(ctx):
    rng = ctx.rng
    cases = []
    small = irc_strings(2)          # 73 strings, exhaustive per argument position
    benign = ['x', '#c', 'nick']
    for name, (lo, hi) in CTORS.items():
        for n in range(lo, hi + 1):
            for pos in range(n):
                for s in small:
                    args = [benign[i % 3] for i in range(n)]
                    args[pos] = s
                    cases.append({'kind': 'irc', 'ctor': name, 'args': args})
            if n:
                for pos in range(n):
                    args = [benign[i % 3] for i in range(n)]
                    args[pos] = None
                    if pos >= lo:
                        cases.append({'kind': 'irc', 'ctor': name, 'args': args})
            else:
                cases.append({'kind': 'irc', 'ctor': name, 'args': []})
    # Message() directly: hostile prefix / command
    for s in small:
        cases.append({'kind': 'irc', 'ctor': 'Message', 'command': 'PRIVMSG', 'prefix': s, 'args': ['a', 'b c']})
        if s:
            cases.append({'kind': 'irc', 'ctor': 'Message', 'command': s, 'prefix': None, 'args': ['a']})
            cases.append({'kind': 'irc', 'ctor': 'Message', 'command': s, 'prefix': 'n!u@h', 'args': []})
    # random longer strings, several hostile positions at once
    for _ in range(300 * ctx.scale):
        name = rng.choice(list(CTORS))
        lo, hi = CTORS[name]
        n = rng.randint(lo, hi)
        args = [''.join(rng.choice(IRC_ALPHA + ['a', 'b', 'a']) for _ in range(rng.randint(0, 6))) for _ in range(n)]
        cases.append({'kind': 'irc', 'ctor': name, 'args': args})
    for _ in range(100 * ctx.scale):
        n = rng.randint(0, 4)
        args = [''.join(rng.choice(IRC_ALPHA + ['a', 'b', 'c']) for _ in range(rng.randint(1, 5))) for _ in range(n)]
        cases.append({'kind': 'irc', 'ctor': 'Message',
                      'command': ''.join(rng.choice(['A', 'B', '1', ':', ' ', '\r', '\n']) for _ in range(rng.randint(1, 4))),
                      'prefix': rng.choice([None, 'n!u@h', 'srv', 'a b', 'x\r\ny', '']), 'args': args})
    return cases


def parse_cases(ctx):
    rng = ctx.rng
    alpha = ['a', 'b', ' ', ':', '\t', '\r', '!', '@', ' ', 'é', '1']
    cases = []
    for n in range(0, 4):
        for tup in itertools.product([':', ' ', 'a'], repeat=n):
            cases.append({'kind': 'ircparse', 'line': hx(''.join(tup).encode())})
    for _ in range(300 * ctx.scale):
        s = ''.join(rng.choice(alpha) for _ in range(rng.randint(0, 16)))
        cases.append({'kind': 'ircparse', 'line': hx(s.encode())})
    return cases


EVAL = {'line': eval_line, 'server': eval_server, 'irc': eval_irc, 'ircparse': eval_parse}


def run(ctx):
    ctx.rule = ('line: all streams <=4 bytes over {a,CR,LF} x all cut sets (exhaustive) + random token streams x '
                '(every single cut, byte-at-a-time, random k-cuts); server: interleaved per-socket streams; '
                'irc: every constructor x every argument position x all strings of length <=2 over '
                '{a,SP,:,CR,LF,NUL,e-acute,TAB} (exhaustive) + random longer; non-trivial = a cut stream '
                'containing LF / >1 socket / an argument containing SP : CR or LF; distinct = distinct case')
    ctx.trusted += ['re.split(b"\\r?\\n") == CV.Line.scan (validated here)',
                    'UTF-8 encode/decode round-trips str; LF/CR bytes occur only as the characters LF/CR',
                    'parseprefix (regex) is a parameter: applied to both sides of the round trip']
    ctx.assumptions += ['IRC round trip is claimed for messages satisfying CV.Irc.wellFormed only']
    groups = [('line', line_cases(ctx)), ('server', server_cases(ctx)), ('irc', irc_cases(ctx)),
              ('ircparse', parse_cases(ctx))]
    for kind, cases in groups:
        for i in range(0, len(cases), 400):
            EVAL[kind](ctx, cases[i:i + 400])
            if ctx.time_up():
                break


def search(ctx):
    run(ctx)


def replay(ctx, case):
    EVAL[case['kind']](ctx, [case])

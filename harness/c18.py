"""
C18 - Line protocol is segmentation-invariant; IRC messages are exactly one line.

Correspondence (B): real `splitLines` / `Line` component (client and server mode) /
`Message` / command constructors / `parsemsg`  vs.  CV.Model.Line, CV.Model.Irc.
Spec on impl (C): `Line.untaggedOk` (lines-exact, which determines the output uniquely and
therefore implies segmentation invariance), `Irc.oneLine`, `Irc.wellFormed -> expectedParse`,
all evaluated by the Lean driver on the implementation's own output.

Component path (CV.Model.IrcComp): a real `IRC` component (which registers a real `Line`) is driven in-process with
`read` events - the byte stream cut arbitrarily, several sockets in server mode - and its `response` events, `write`
events and handler failures are compared with `compRead` / `compServerRead`; `request(Message)` -> `write(bytes)` with
`requestBytes`; `Message.from_string`, `strip`, `parseprefix`, the UTF-8 'replace' decoder and `int()` with their models.
Spec on impl: for every constructor / Message applied to hostile strings, the bytes written by `IRC.request` are one CRLF
line (`component-injection`), a second Line+IRC stack reading them (cut anywhere, client or server mode) fires the response
`Irc.expectedResp` describes (`component-roundtrip`), `from_string` gives the message back (`from-string-roundtrip`), and a
one-argument client PING is answered by a PONG that reads back with that argument (`ping-reply`).
"""
import itertools

from framework import cuts_to_segments, hx, sx, unhx

TOKENS = [b'a', b'bc', 'é'.encode(), '€'.encode(), b'\r', b'\n', b'\r\n', b'', b' ', b'\r\r', b':']
IRC_ALPHA = ['a', ' ', ':', '\r', '\n', '\0', 'é', '\t']

CTORS = {
    # name: (min args, max args)
    'AWAY': (0, 1), 'NICK': (1, 2), 'USER': (4, 4), 'PASS': (1, 1), 'PONG': (1, 2), 'QUIT': (0, 1),
    'JOIN': (1, 2), 'PART': (1, 2), 'PRIVMSG': (2, 2), 'NOTICE': (2, 2), 'KICK': (2, 3), 'TOPIC': (1, 2),
    'MODE': (1, 4), 'INVITE': (2, 2), 'NAMES': (0, 1), 'WHOIS': (1, 2), 'WHO': (0, 2),
}


# ---------------------------------------------------------------------------------------
# implementation runners
# ---------------------------------------------------------------------------------------

def impl_line_client(segments):
    from circuits import Manager
    from circuits.io.events import read
    from circuits.protocols.line import Line
    from cutil import Capture, drain
    m = Manager()
    ln = Line().register(m)
    cap = Capture({'line'}).register(m)
    drain(m)
    per_seg = []
    for seg in segments:
        before = len(cap.log)
        m.fire(read(seg))
        drain(m)
        per_seg.append(([e[1][0] for e in cap.log[before:]], ln.buffer))
    return per_seg


def impl_line_server(reads):
    from circuits import Manager
    from circuits.io.events import read
    from circuits.protocols.line import Line
    from cutil import Capture, drain
    bufs = {}
    m = Manager()
    Line(getBuffer=lambda s: bufs.get(s, b''), updateBuffer=lambda s, b: bufs.__setitem__(s, b)).register(m)
    cap = Capture({'line'}).register(m)
    drain(m)
    out = []
    for sock, data in reads:
        before = len(cap.log)
        m.fire(read(sock, data))
        drain(m)
        out.append(([(e[1][0], e[1][1]) for e in cap.log[before:]], bufs.get(sock, b'')))
    return out


def cut_class(stream, cuts):
    cls = set()
    for c in cuts:
        if stream[c - 1:c] == b'\r' and stream[c:c + 1] == b'\n':
            cls.add('between-CR-LF')
        elif stream[c - 1:c] == b'\n':
            cls.add('at-line-end')
        elif stream[c - 1:c] == b'\r':
            cls.add('after-CR')
        else:
            cls.add('inside-line')
    for k in ('between-CR-LF', 'after-CR', 'at-line-end', 'inside-line'):
        if k in cls:
            return k
    return 'uncut'


# ---------------------------------------------------------------------------------------
# evaluation of batches
# ---------------------------------------------------------------------------------------

def eval_line(ctx, cases):
    """cases: dict(kind='line', stream=hex, cuts=[...])"""
    ops, impl = [], []
    for c in cases:
        stream = unhx(c['stream'])
        segs = cuts_to_segments(stream, c['cuts'])
        try:
            with ctx.guard(c, what='Line component (client mode)'):
                per_seg = impl_line_client(segs)
        except Exception as e:  # the component must not fail on any bytes
            ctx.violate(c, f'line-exception({type(e).__name__})', f'Line raised {e!r}')
            per_seg = None
        impl.append(per_seg)
        o = [f'feed {hx(s)}' for s in segs]
        if per_seg is not None:
            lines = [l for ls, _b in per_seg for l in ls]
            tail = per_seg[-1][1] if per_seg else b''
            o.append(f"spec {hx(stream)} {hx(tail)} | {' '.join(hx(l) for l in lines)}")
        ops.append(o)
    answers = ctx.driver.batch('line', ops)
    for c, per_seg, ans in zip(cases, impl, answers):
        stream = unhx(c['stream'])
        ctx.count('cut_class', cut_class(stream, c['cuts']))
        ctx.count('segments', min(len(c['cuts']) + 1, 9))
        if per_seg is None:
            ctx.case(c, validated=False)
            continue
        ok = True
        for i, ((ls, buf), a) in enumerate(zip(per_seg, ans)):
            want = f"{hx(buf)} | {' '.join(hx(l) for l in ls)}"
            if a.strip() != want.strip():
                ok = False
                ctx.disagree(c, {'where': 'line.feed', 'segment': i, 'impl': want, 'model': a})
                break
        if ans[-1] != 'ok':
            ctx.violate(c, f'line-split-differs({cut_class(stream, c["cuts"])})',
                        f'lines emitted for stream {c["stream"]} cut at {c["cuts"]} are not the lines of the stream')
        nontrivial = (b'\n' in stream) and len(c['cuts']) > 0
        ctx.case(c, nontrivial=nontrivial, validated=ok)


def eval_server(ctx, cases):
    """cases: dict(kind='server', reads=[[sock, hex], ...])"""
    ops, impl = [], []
    for c in cases:
        reads = [(s, unhx(d)) for s, d in c['reads']]
        try:
            with ctx.guard(c, what='Line component (server mode)'):
                res = impl_line_server(reads)
        except Exception as e:
            ctx.violate(c, f'line-exception({type(e).__name__})', f'Line (server mode) raised {e!r}')
            res = None
        impl.append(res)
        o = [f'sfeed {s} {hx(d)}' for s, d in reads]
        if res is not None:
            for sock in sorted({s for s, _ in reads}):
                stream = b''.join(d for s, d in reads if s == sock)
                lines = [l for (ls, _b), (s, _d) in zip(res, reads) for (ss, l) in ls if ss == sock]
                tail = [b for (_ls, b), (s, _d) in zip(res, reads) if s == sock][-1]
                o.append(f"spec {hx(stream)} {hx(tail)} | {' '.join(hx(l) for l in lines)}")
        ops.append(o)
    answers = ctx.driver.batch('line', ops)
    for c, res, ans in zip(cases, impl, answers):
        if res is None:
            ctx.case(c, validated=False)
            continue
        reads = c['reads']
        ok = True
        for i, ((ls, buf), a) in enumerate(zip(res, ans)):
            if any(ss != reads[i][0] for ss, _ in ls):
                ctx.violate(c, 'cross-socket-leak', 'a line event carries another socket than the read that produced it')
            want = f"{hx(buf)} | {' '.join(hx(l) for _s, l in ls)}"
            if a.strip() != want.strip():
                ok = False
                ctx.disagree(c, {'where': 'line.sfeed', 'read': i, 'impl': want, 'model': a})
                break
        for a in ans[len(reads):]:
            if a != 'ok':
                ctx.violate(c, 'cross-socket-leak', 'per-socket lines are not the lines of that socket\'s own byte stream')
        ctx.count('server_sockets', len({s for s, _ in reads}))
        ctx.case(c, nontrivial=len({s for s, _ in reads}) > 1, validated=ok)


def opt(t):
    return '~' if t is None else sx(t)


def eval_irc(ctx, cases):
    """cases: dict(kind='irc', ctor=NAME|'Message', args=[...], prefix=..., command=...)"""
    from circuits.protocols.irc import commands
    from circuits.protocols.irc.message import Error, Message
    from circuits.protocols.irc.utils import parsemsg
    from circuits.protocols.line import splitLines
    ops, impl = [], []
    for c in cases:
        rec = {}
        o = []
        try:
            if c['ctor'] == 'Message':
                kw = {'prefix': c['prefix']} if c.get('prefix') is not None else {}
                msg = Message(c['command'], *typed_args(c), **kw)
            else:
                msg = getattr(commands, c['ctor'])(*typed_args(c)).args[0]
                # glue: the constructor must build the message the table says
                padded = list(c['args'])
                o.append(f"construct {sx(c['ctor'])} {' '.join(opt(a) for a in padded)}")
                rec['built'] = f"{opt(msg.prefix)} {opt(msg.command)} | {' '.join(sx(a) for a in msg.args)}"
            rec['msg'] = (msg.prefix, msg.command, list(msg.args))
            try:
                wire = bytes(msg)
                rec['wire'] = wire
            except Error:
                rec['wire'] = None
        except Error:
            rec['msg'] = None
        except Exception as e:
            rec['msg'] = None
            rec['exc'] = repr(e)
        if rec.get('msg') is None:
            if c['ctor'] == 'Message':
                cmd0 = c.get('command')
                o.append(f"render current {opt(c.get('prefix'))} {'~' if cmd0 is None else sx(str(cmd0))} "
                         f"{' '.join(sx(x) for x in c['args'] if x is not None)}")
            else:
                o.append(f"crender current {sx(c['ctor'])} {' '.join(opt(x) for x in c['args'])}")
        if rec.get('msg') is not None:
            p, cmd, args = rec['msg']
            cmd_t = '~' if cmd is None else sx(str(cmd))
            o.append(f"render current {opt(p)} {cmd_t} {' '.join(sx(a) for a in args)}")
            if rec['wire'] is not None:
                text = rec['wire'].decode('utf-8', 'surrogatepass')
                o.append(f'oneline {sx(text)}')
                # round trip through the real line protocol and parser
                lines, rest = splitLines(rec['wire'], b'')
                rec['lines'] = (lines, rest)
                if len(lines) >= 1:
                    try:
                        pp, pc, pa = parsemsg(lines[0])
                        raw = None
                        # parsemsg applies parseprefix; recover comparison by applying it to ours too
                        from circuits.protocols.irc.utils import parseprefix
                        rec['parsed'] = (pp, pc, pa)
                        rec['expect_prefix'] = parseprefix(p or '')
                        # raw prefix is compared through parseprefix equality; hand the driver our own
                        # prefix text iff the parsed triple equals parseprefix(ours)
                        raw = (p or '') if tuple(pp) == tuple(rec['expect_prefix']) else '\x00MISMATCH'
                        o.append(f"rtspec {opt(p)} {cmd_t} {' '.join(sx(a) for a in args)} | "
                                 f"{sx(raw)} {opt(pc)} {' '.join(sx(a) for a in pa)}")
                        o.append(f'parse {sx(lines[0].decode("utf-8", "replace"))}')
                    except Exception as e:
                        rec['parse_exc'] = repr(e)
                        o.append(f"rtspec {opt(p)} {cmd_t} {' '.join(sx(a) for a in args)} | "
                                 f"{sx(chr(0) + 'EXC')} ~")
        ops.append(o)
        impl.append(rec)
    answers = ctx.driver.batch('irc', ops)
    for c, rec, o, ans in zip(cases, impl, ops, answers):
        ok = True
        sig_detail = classify_irc(c)
        a = dict()
        for op, an in zip(o, ans):
            a.setdefault(op.split(' ', 1)[0], an)
        ctx.count('irc_ctor', c['ctor'])
        if rec.get('msg') is None:
            # constructor refused (Error) - the model must refuse as well
            r = a.get('crender', a.get('render'))
            if r != 'error':
                ok = False
                ctx.disagree(c, {'where': 'irc.refused', 'impl': rec.get('exc', 'Error'), 'model': r})
            ctx.count('irc_outcome', 'refused')
            ctx.case(c, nontrivial=True, validated=ok)
            continue
        if 'construct' in a and a['construct'].strip() != rec['built'].strip():
            ok = False
            ctx.disagree(c, {'where': 'irc.construct', 'impl': rec['built'], 'model': a['construct']})
            if c['ctor'] != 'Message' and rec['msg'][1] != c['ctor']:
                ctx.violate(c, f'wrong-command({c["ctor"]})',
                            f'{c["ctor"]}{tuple(c["args"])} builds command {rec["msg"][1]!r}')
        want = 'error' if rec['wire'] is None else sx(rec['wire'].decode('utf-8', 'surrogatepass'))
        if a.get('render') != want:
            ok = False
            ctx.disagree(c, {'where': 'irc.render', 'impl': want, 'model': a.get('render')})
        if rec['wire'] is None:
            ctx.count('irc_outcome', 'refused-at-str')
        else:
            ctx.count('irc_outcome', 'rendered')
            if a.get('oneline') != 'ok':
                ctx.violate(c, f'injection({sig_detail})', f'{c["ctor"]}{tuple(c["args"])} serialises to {rec["wire"]!r}')
            rt = a.get('rtspec', 'ok')
            if rt.startswith('fail'):
                ctx.violate(c, f'roundtrip({sig_detail})',
                            f'parsemsg(str(m)) = {rec.get("parsed", rec.get("parse_exc"))!r} for m = {rec["msg"]!r}')
            ctx.count('irc_roundtrip', rt)
            if 'parse' in a and 'parsed' in rec:
                pp, pc, pa = rec['parsed']
                # raw prefix cannot be read back from parseprefix output; compare command and args
                model_tail = a['parse'].split(' ', 1)[1] if a['parse'] != 'error' else 'error'
                want_tail = f"{opt(pc)} | {' '.join(sx(x) for x in pa)}"
                if model_tail.strip() != want_tail.strip():
                    ok = False
                    ctx.disagree(c, {'where': 'irc.parsemsg', 'impl': want_tail, 'model': model_tail})
        ctx.case(c, nontrivial=any(ch in (x or '') for x in c['args'] for ch in ' :\r\n'), validated=ok)


def classify_irc(c):
    vals = [(f'arg', x) for x in c['args'] if x is not None]
    if c['ctor'] == 'Message':
        vals += [('command', c.get('command') or ''), ('prefix', c.get('prefix') or '')]
    for where, v in vals:
        if '\r' in v and '\n' not in v:
            return f'CR in {where}'
    for where, v in vals:
        if '\n' in v:
            return f'LF in {where}'
    return 'other'


def eval_parse(ctx, cases):
    """cases: dict(kind='ircparse', line=hex) - parsemsg on arbitrary lines"""
    from circuits.protocols.irc.utils import parsemsg
    ops, impl = [], []
    for c in cases:
        raw = unhx(c['line'])
        try:
            pp, pc, pa = parsemsg(raw)
            impl.append(f"{opt(pc)} | {' '.join(sx(x) for x in pa)}")
        except ValueError:
            impl.append('error')
        ops.append([f'parse {sx(raw.decode("utf-8", "replace"))}'])
    answers = ctx.driver.batch('irc', ops)
    for c, want, ans in zip(cases, impl, answers):
        got = ans[0].split(' ', 1)[1] if ans[0] != 'error' else 'error'
        ok = got.strip() == want.strip()
        if not ok:
            ctx.disagree(c, {'where': 'irc.parsemsg', 'impl': want, 'model': got})
        ctx.case(c, nontrivial=True, validated=ok)


# ---------------------------------------------------------------------------------------
# generators
# ---------------------------------------------------------------------------------------

def gen_stream(rng, maxtok):
    return b''.join(rng.choice(TOKENS) for _ in range(rng.randint(0, maxtok)))


def line_cases(ctx):
    rng = ctx.rng
    cases = []
    # exhaustive small scope: every stream of <= 4 bytes over {a, CR, LF}, every cut set
    alpha = [b'a', b'\r', b'\n']
    for n in range(0, 5):
        for tup in itertools.product(alpha, repeat=n):
            s = b''.join(tup)
            for k in range(0, n):
                for cuts in itertools.combinations(range(1, n), k):
                    cases.append({'kind': 'line', 'stream': hx(s), 'cuts': list(cuts)})
    # random streams: all single cuts, byte-at-a-time, random multi-cuts
    for _ in range(40 * ctx.scale):
        s = gen_stream(rng, 14)
        n = len(s)
        cases.append({'kind': 'line', 'stream': hx(s), 'cuts': []})
        for c in range(1, n):
            cases.append({'kind': 'line', 'stream': hx(s), 'cuts': [c]})
        cases.append({'kind': 'line', 'stream': hx(s), 'cuts': list(range(1, n))})
        for _ in range(4):
            k = rng.randint(0, max(0, min(6, n - 1)))
            cases.append({'kind': 'line', 'stream': hx(s), 'cuts': sorted(rng.sample(range(1, n), k)) if n > 1 else []})
    if ctx.tier == 'thorough' or ctx.searching:
        for _ in range(30 * ctx.scale):
            s = gen_stream(rng, 8)
            n = len(s)
            if n <= 14:
                for cuts in itertools.combinations(range(1, n), 2):
                    cases.append({'kind': 'line', 'stream': hx(s), 'cuts': list(cuts)})
    return cases


def server_cases(ctx):
    rng = ctx.rng
    cases = []
    for _ in range(60 * ctx.scale):
        nsock = rng.randint(1, 3)
        streams = {s: gen_stream(rng, 8) for s in range(1, nsock + 1)}
        pieces = []
        for s, st in streams.items():
            n = len(st)
            k = rng.randint(0, max(0, min(5, n - 1)))
            cuts = sorted(rng.sample(range(1, n), k)) if n > 1 else []
            pieces.append([(s, seg) for seg in cuts_to_segments(st, cuts)])
        reads = []
        while any(pieces):
            p = rng.choice([p for p in pieces if p])
            reads.append(p.pop(0))
        cases.append({'kind': 'server', 'reads': [[s, hx(d)] for s, d in reads]})
    return cases


def irc_strings(maxlen):
    out = ['']
    for n in range(1, maxlen + 1):
        for tup in itertools.product(IRC_ALPHA, repeat=n):
            out.append(''.join(tup))
    return out


def irc_cases(ctx):
    rng = ctx.rng
    cases = []
    small = irc_strings(2)          # 73 strings, exhaustive per argument position
    benign = ['x', '#c', 'nick']
    for name, (lo, hi) in CTORS.items():
        for n in range(lo, hi + 1):
            for pos in range(n):
                for s in small:
                    args = [benign[i % 3] for i in range(n)]
                    args[pos] = s
                    cases.append({'kind': 'irc', 'ctor': name, 'args': args})
            if n:
                for pos in range(n):
                    args = [benign[i % 3] for i in range(n)]
                    args[pos] = None
                    if pos >= lo:
                        cases.append({'kind': 'irc', 'ctor': name, 'args': args})
            else:
                cases.append({'kind': 'irc', 'ctor': name, 'args': []})
    # Message() directly: hostile prefix / command
    for s in small:
        cases.append({'kind': 'irc', 'ctor': 'Message', 'command': 'PRIVMSG', 'prefix': s, 'args': ['a', 'b c']})
        if s:
            cases.append({'kind': 'irc', 'ctor': 'Message', 'command': s, 'prefix': None, 'args': ['a']})
            cases.append({'kind': 'irc', 'ctor': 'Message', 'command': s, 'prefix': 'n!u@h', 'args': []})
    # random longer strings, several hostile positions at once
    for _ in range(300 * ctx.scale):
        name = rng.choice(list(CTORS))
        lo, hi = CTORS[name]
        n = rng.randint(lo, hi)
        args = [''.join(rng.choice(IRC_ALPHA + ['a', 'b', 'a']) for _ in range(rng.randint(0, 6))) for _ in range(n)]
        cases.append({'kind': 'irc', 'ctor': name, 'args': args})
    for _ in range(100 * ctx.scale):
        n = rng.randint(0, 4)
        args = [''.join(rng.choice(IRC_ALPHA + ['a', 'b', 'c']) for _ in range(rng.randint(1, 5))) for _ in range(n)]
        cases.append({'kind': 'irc', 'ctor': 'Message',
                      'command': ''.join(rng.choice(['A', 'B', '1', ':', ' ', '\r', '\n']) for _ in range(rng.randint(1, 4))),
                      'prefix': rng.choice([None, 'n!u@h', 'srv', 'a b', 'x\r\ny', '']), 'args': args})
    return cases


def parse_cases(ctx):
    rng = ctx.rng
    alpha = ['a', 'b', ' ', ':', '\t', '\r', '!', '@', ' ', 'é', '1']
    cases = []
    for n in range(0, 4):
        for tup in itertools.product([':', ' ', 'a'], repeat=n):
            cases.append({'kind': 'ircparse', 'line': hx(''.join(tup).encode())})
    for _ in range(300 * ctx.scale):
        s = ''.join(rng.choice(alpha) for _ in range(rng.randint(0, 16)))
        cases.append({'kind': 'ircparse', 'line': hx(s.encode())})
    return cases



# ---------------------------------------------------------------------------------------
# the IRC *component* (IRC stacked on Line), strip, parseprefix, Message.from_string
# ---------------------------------------------------------------------------------------

def lower_is_ascii(text):
    """the model lower-cases ASCII only: every non-ASCII character must be fixed by str.lower"""
    return all(ord(ch) < 128 or ch.lower() == ch for ch in text)


class IrcRig:
    """a real IRC component (which registers a real Line) under a Manager, with a probe that records
    response events, write events and failures of IRC.line in dispatch order"""

    def __init__(self, server=False):
        from circuits import BaseComponent, Manager, handler
        from circuits.protocols.irc import IRC
        from circuits.protocols.irc.events import response
        from cutil import drain
        rig = self
        self.bufs = {}
        self.log = []
        self.server = server
        kw = {}
        if server:
            kw = {'getBuffer': lambda s: rig.bufs.get(s, b''), 'updateBuffer': lambda s, b: rig.bufs.__setitem__(s, b)}
        self.m = Manager()
        self.irc = IRC(**kw).register(self.m)
        self.line = [c for c in self.irc.components if type(c).__name__ == 'Line'][0]

        class Probe(BaseComponent):
            channel = '*'

            @handler(channel='*', priority=1000)
            def _on_any(self, event, *args, **kwargs):
                if isinstance(event, response):
                    rig.log.append(('resp', event.name, args))
                elif event.name == 'write':
                    rig.log.append(('write', args))
                elif event.name == 'exception':
                    fe, h = kwargs.get('fevent'), kwargs.get('handler')
                    if (fe is not None and not isinstance(fe, response) and fe.name == 'line'
                            and getattr(h, '__name__', '') == 'line' and getattr(h, '__self__', None) is rig.irc):
                        rig.log.append(('err', type(args[1]).__name__))
                    else:
                        rig.log.append(('exc', type(args[1]).__name__))

        Probe().register(self.m)
        self._drain = drain
        drain(self.m)
        self.log.clear()

    def fire(self, ev):
        before = len(self.log)
        self.m.fire(ev)
        self._drain(self.m)
        return self.log[before:]

    def read(self, sock, data):
        from circuits.io.events import read
        out = self.fire(read(sock, data) if self.server else read(data))
        buf = self.bufs.get(sock, b'') if self.server else self.line.buffer
        return buf, out


def show_resp(server, name, args):
    """canonical text of a response event, same layout as the driver's `showResp`"""
    args = list(args)
    sock = '~'
    if server:
        sock = str(args.pop(0))
    pfx = args.pop(0)
    num = '~'
    if name == 'numeric' and args and isinstance(args[0], int):
        num = str(args.pop(0))
    return f"resp {sx(name)} {sock} {' '.join(opt(x) for x in pfx)} {num} | {' '.join(sx(a) for a in args)}".strip()


def show_log(server, buf, log):
    items = [hx(buf)]
    items += [show_resp(server, e[1], e[2]) if e[0] == 'resp' else 'err' for e in log if e[0] in ('resp', 'err')]
    items += [f'write {hx(e[1][0])}' if len(e[1]) == 1 and isinstance(e[1][0], bytes) else f'write ?{e[1]!r}'
              for e in log if e[0] == 'write']
    return ' ; '.join(items)


def norm(a):
    return ' '.join(a.split())


def eval_comp(ctx, cases):
    """cases: dict(kind='comp', server=bool, reads=[[sock|None, hex], ...]) - bytes -> Line -> IRC"""
    ops, impl = [], []
    for c in cases:
        stream = b''.join(unhx(d) for _s, d in c['reads'])
        text = stream.decode('utf-8', 'replace')
        rec = {'inmodel': lower_is_ascii(text), 'per': []}
        try:
            rig = IrcRig(server=c['server'])
            for sock, d in c['reads']:
                buf, log = rig.read(sock, unhx(d))
                rec['per'].append(show_log(c['server'], buf, log))
                for e in log:
                    ctx.count('comp_event', e[0] if e[0] != 'resp' else
                              ('resp:numeric' if e[1] == 'numeric' else 'resp:ping' if e[1] == 'ping' else 'resp:other'))
        except Exception as e:  # the rig itself must not fail
            rec['exc'] = repr(e)
        impl.append(rec)
        ops.append([f"cread {'~' if s is None else s} {d}" for s, d in c['reads']])
    answers = ctx.driver.batch('irc', ops)
    for c, rec, ans in zip(cases, impl, answers):
        ctx.count('comp_mode', 'server' if c['server'] else 'client')
        ctx.count('comp_reads', min(len(c['reads']), 9))
        if 'exc' in rec:
            ctx.disagree(c, {'where': 'comp.rig', 'impl': rec['exc'], 'model': ans})
            ctx.case(c, validated=False)
            continue
        if not rec['inmodel']:
            ctx.count('comp_outside_model', 'non-ascii cased character')
            ctx.case(c, validated=False)
            continue
        ok = True
        for i, (want, a) in enumerate(zip(rec['per'], ans)):
            if norm(want) != norm(a):
                ok = False
                ctx.disagree(c, {'where': 'comp.read', 'read': i, 'impl': want, 'model': a})
                break
        ctx.case(c, nontrivial=any('resp' in p for p in rec['per']), validated=ok)


def typed_args(c):
    """the arguments as the case hands them to the constructor: text, or the same text as a byte string"""
    out = []
    for i, a in enumerate(c['args']):
        if i in c.get('bytes_args', ()) and isinstance(a, str):
            try:
                out.append(a.encode('utf-8'))
                continue
            except UnicodeEncodeError:
                pass
        out.append(a)
    return out


def build_message(c):
    """the Message of a case (constructor table or Message() directly); raises what the code raises"""
    from circuits.protocols.irc import commands
    from circuits.protocols.irc.message import Message
    if c['ctor'] == 'Message':
        kw = {'prefix': c['prefix']} if c.get('prefix') is not None else {}
        return Message(c['command'], *typed_args(c), **kw)
    return getattr(commands, c['ctor'])(*typed_args(c)).args[0]


def eval_creq(ctx, cases):
    """cases: dict(kind='creq', ctor, args, [prefix, command], cuts=[...], server=bool)
    request(Message) -> write(bytes) on one IRC component; the written bytes, cut at `cuts`, are read by a second
    IRC component; its response must give back prefix / command / arguments (C18 on the component path)."""
    from circuits.protocols.irc.events import request
    from circuits.protocols.irc.message import Error, Message
    from circuits.protocols.irc.utils import parseprefix
    ops, impl = [], []
    for c in cases:
        rec = {}
        o = []
        try:
            msg = build_message(c)
            rec['msg'] = (msg.prefix, msg.command, list(msg.args))
        except Error:
            rec['msg'] = None
        except Exception as e:
            rec['msg'] = None
            rec['exc'] = repr(e)
        if rec['msg'] is not None:
            p, cmd, args = rec['msg']
            cmd_t = '~' if cmd is None else sx(str(cmd))
            mtxt = f"{opt(p)} {cmd_t} {' '.join(sx(a) for a in args)}"
            sender = IrcRig()
            log = sender.fire(request(msg))
            writes = [e[1] for e in log if e[0] == 'write']
            rec['writes'] = writes
            rec['send_exc'] = [e[1] for e in log if e[0] == 'exc']
            o.append(f'creq {mtxt}')
            if len(writes) == 1 and len(writes[0]) == 1 and isinstance(writes[0][0], bytes):
                wire = writes[0][0]
                rec['wire'] = wire
                o.append(f"oneline {sx(wire.decode('utf-8', 'surrogatepass'))}")
                recv = IrcRig(server=c.get('server', False))
                sock = 7 if c.get('server') else None
                rlog = []
                for seg in cuts_to_segments(wire, c.get('cuts', [])):
                    _buf, lg = recv.read(sock, seg)
                    rlog += lg
                resps = [e for e in rlog if e[0] == 'resp']
                rec['resps'] = resps
                rec['recv_buf'] = recv.bufs.get(sock, b'') if c.get('server') else recv.line.buffer
                rec['recv_writes'] = [e for e in rlog if e[0] == 'write']
                if len(resps) == 1:
                    shown = show_resp(bool(c.get('server')), resps[0][1], resps[0][2])
                    # resp <name> <sock> <n> <u> <h> <num> | args  ->  <name> <n> <u> <h> <num> args
                    head, _bar, tail = shown.partition('|')
                    h = head.split()
                    obs = f"{h[1]} {h[3]} {h[4]} {h[5]} {h[6]} {tail.strip()}"
                else:
                    obs = 'none'
                o.append(f"comprt {'~' if sock is None else sock} {mtxt} | {obs}")
                # Message.from_string on the serialised line
                if len(wire) - 2 <= 512:
                    try:
                        back = Message.from_string(wire[:-2])
                        rec['back'] = (back.prefix, back.command, list(back.args))
                    except Exception as e:
                        rec['back'] = repr(e)
                    o.append(f'fromstr {hx(wire[:-2])}')
        ops.append(o)
        impl.append(rec)
    answers = ctx.driver.batch('irc', ops)
    for c, rec, o, ans in zip(cases, impl, ops, answers):
        a = {}
        for op, an in zip(o, ans):
            a.setdefault(op.split(' ', 1)[0], an)
        sig = classify_irc(c)
        ctx.count('creq_ctor', c['ctor'])
        ctx.count('creq_cuts', min(len(c.get('cuts', [])), 9))
        ctx.count('creq_mode', 'server' if c.get('server') else 'client')
        if rec['msg'] is None:
            ctx.count('creq_outcome', 'refused-at-construction')
            ctx.case(c, nontrivial=False, validated='exc' not in rec)
            continue
        ok = True
        if 'wire' not in rec:
            # nothing (or something that is not one bytes object) was written
            want = 'error' if not rec['writes'] else f'write ?{rec["writes"]!r}'
            ctx.count('creq_outcome', 'refused-at-request' if not rec['writes'] else 'odd-write')
            if rec['writes']:
                ctx.violate(c, f'component-injection({sig}; {len(rec["writes"])} writes)',
                            f'request({rec["msg"]!r}) fired write events {rec["writes"]!r}')
            if a.get('creq') != want:
                ok = False
                ctx.disagree(c, {'where': 'comp.request', 'impl': want, 'model': a.get('creq')})
            ctx.case(c, nontrivial=True, validated=ok)
            continue
        wire = rec['wire']
        ctx.count('creq_outcome', 'written')
        if a.get('creq') != f'write {hx(wire)}':
            ok = False
            ctx.disagree(c, {'where': 'comp.request', 'impl': f'write {hx(wire)}', 'model': a.get('creq')})
        if a.get('oneline') != 'ok':
            ctx.violate(c, f'component-injection({sig})', f'request({rec["msg"]!r}) writes {wire!r}')
        rt = a.get('comprt', 'ok')
        ctx.count('component_roundtrip', rt)
        if rt.startswith('fail'):
            ctx.violate(c, f'component-roundtrip({rt[5:]}; {sig})',
                        f'{rec["msg"]!r} written as {wire!r} comes back as response events {rec["resps"]!r}')
        elif rt == 'ok':
            if rec['recv_buf'] != b'' or len(rec['resps']) != 1:
                ctx.violate(c, f'component-roundtrip(line-not-delivered; {sig})',
                            f'{wire!r} read by Line+IRC: buffer {rec["recv_buf"]!r}, {len(rec["resps"])} response events')
        # from_string: model vs code, and the round trip for well-formed messages with a str command
        if 'back' in rec:
            p, cmd, args = rec['msg']
            back = rec['back']
            want = 'error' if isinstance(back, str) else \
                f"{opt(back[0])} {opt(back[1])} | {' '.join(sx(x) for x in back[2])}"
            inmodel = lower_is_ascii(wire.decode('utf-8', 'replace'))
            if inmodel and norm(a.get('fromstr', '')) != norm(want):
                ok = False
                ctx.disagree(c, {'where': 'irc.from_string', 'impl': want, 'model': a.get('fromstr')})
            if rt in ('ok', 'ok no-event-expected') and isinstance(cmd, str) and p != '':
                ctx.count('from_string_roundtrip', 'checked')
                if isinstance(back, str):
                    ctx.violate(c, f'from-string-roundtrip(raises; {sig})', f'from_string({wire[:-2]!r}) raises {back}')
                elif tuple(back) != (p, cmd, args):
                    which = 'prefix' if back[0] != p else 'command' if back[1] != cmd else 'args'
                    ctx.violate(c, f'from-string-roundtrip({which}; {sig})',
                                f'from_string({wire[:-2]!r}) = {back!r} for message {rec["msg"]!r}')
        ctx.case(c, nontrivial=True, validated=ok)


def eval_ping(ctx, cases):
    """cases: dict(kind='ping', prefix, args=[...], server=bool, cuts) - a PING line read by the component:
    client mode with one argument -> one PONG with that argument (read back by a second component)"""
    from circuits.protocols.irc.message import Error, Message
    ops, impl = [], []
    for c in cases:
        rec = {}
        o = []
        try:
            kw = {'prefix': c['prefix']} if c.get('prefix') is not None else {}
            m = Message(c.get('command', 'PING'), *c['args'], **kw)
            line = bytes(m)
        except Error:
            line = None
        rec['line'] = line
        if line is not None:
            rig = IrcRig(server=c['server'])
            sock = 3 if c['server'] else None
            per, log = [], []
            segs = cuts_to_segments(line, c.get('cuts', []))
            for seg in segs:
                buf, lg = rig.read(sock, seg)
                per.append(show_log(c['server'], buf, lg))
                log += lg
            rec['per'] = per
            o += [f"cread {'~' if sock is None else sock} {hx(seg)}" for seg in segs]
            resps = [e for e in log if e[0] == 'resp']
            writes = [e[1] for e in log if e[0] == 'write']
            rec['resps'], rec['writes'] = resps, writes
            # the statement is judged on what the component itself parsed: PING with exactly one argument
            if (not c['server'] and len(resps) == 1 and resps[0][1] == 'ping' and len(resps[0][2]) == 2):
                arg = resps[0][2][1]
                rec['arg'] = arg
                if len(writes) == 1 and len(writes[0]) == 1 and isinstance(writes[0][0], bytes):
                    recv = IrcRig()
                    _b, rlog = recv.read(None, writes[0][0])
                    rr = [e for e in rlog if e[0] == 'resp']
                    rec['pong'] = rr
                    if len(rr) == 1:
                        shown = show_resp(False, rr[0][1], rr[0][2])
                        head, _bar, tail = shown.partition('|')
                        h = head.split()
                        obs = f"{h[1]} {h[3]} {h[4]} {h[5]} {h[6]} {tail.strip()}"
                    else:
                        obs = 'none'
                    o.append(f"oneline {sx(writes[0][0].decode('utf-8', 'surrogatepass'))}")
                else:
                    obs = 'none'
                o.append(f"comprt ~ ~ {sx('PONG')} {sx(arg)} | {obs}")
        ops.append(o)
        impl.append(rec)
    answers = ctx.driver.batch('irc', ops)
    for c, rec, o, ans in zip(cases, impl, ops, answers):
        ctx.count('ping_mode', 'server' if c['server'] else 'client')
        ctx.count('ping_args', len(c['args']))
        if rec['line'] is None:
            ctx.case(c, nontrivial=False)
            continue
        ok = True
        inmodel = lower_is_ascii(rec['line'].decode('utf-8', 'replace'))
        a = {}
        for i, (op, an) in enumerate(zip(o, ans)):
            if op.startswith('cread'):
                if inmodel and norm(an) != norm(rec['per'][i]):
                    ok = False
                    ctx.disagree(c, {'where': 'comp.ping', 'read': i, 'impl': rec['per'][i], 'model': an})
            else:
                a.setdefault(op.split(' ', 1)[0], an)
        if 'arg' in rec:
            rt = a.get('comprt', 'ok')
            ctx.count('ping_reply', rt if rt != 'ok not-well-formed' or not rec['writes'] else 'ok not-well-formed (answered)')
            sig = 'CR in arg' if '\r' in rec['arg'] else 'other'
            if a.get('oneline', 'ok') != 'ok':
                ctx.violate(c, f'ping-reply(injection; {sig})', f'PING {rec["arg"]!r} answered with {rec["writes"]!r}')
            if len(rec['writes']) > 1:
                ctx.violate(c, f'ping-reply({len(rec["writes"])} writes; {sig})', f'PING {rec["arg"]!r} answered with {rec["writes"]!r}')
            if rt.startswith('fail'):
                ctx.violate(c, f'ping-reply({rt[5:]}; {sig})',
                            f'PING {rec["arg"]!r} answered with {rec["writes"]!r}, read back as {rec.get("pong")!r}')
        else:
            ctx.count('ping_reply', 'not a one-argument client PING')
            if rec.get('writes') and not (len(rec['resps']) == 1 and rec['resps'][0][1] == 'ping'):
                ctx.violate(c, 'ping-reply(unsolicited write)', f'{rec["line"]!r} caused {rec["writes"]!r}')
        ctx.case(c, nontrivial='arg' in rec, validated=ok)


def eval_fromstr(ctx, cases):
    """cases: dict(kind='fromstr', line=hex) - Message.from_string on arbitrary bytes"""
    from circuits.protocols.irc.message import Message
    ops, impl = [], []
    for c in cases:
        raw = unhx(c['line'])
        try:
            back = Message.from_string(raw)
            impl.append(f"{opt(back.prefix)} {opt(back.command)} | {' '.join(sx(x) for x in back.args)}")
        except Exception as e:
            impl.append('error')
            ctx.count('fromstr_error', type(e).__name__)
        ops.append([f'fromstr {hx(raw)}'])
    answers = ctx.driver.batch('irc', ops)
    for c, want, ans in zip(cases, impl, answers):
        ctx.count('fromstr_outcome', 'error' if want == 'error' else 'message')
        ok = norm(ans[0]) == norm(want)
        if not ok:
            ctx.disagree(c, {'where': 'irc.from_string', 'impl': want, 'model': ans[0]})
        ctx.case(c, nontrivial=want != 'error', validated=ok)


def eval_util(ctx, cases):
    """cases: dict(kind='util', fn='strip0'|'strip1'|'pprefix'|'decode'|'pyint', s=str | b=hex)"""
    from circuits.protocols.irc.utils import parseprefix, strip
    ops, impl = [], []
    for c in cases:
        fn = c['fn']
        if fn == 'strip0':
            impl.append(sx(strip(c['s'])))
            ops.append([f"strip 0 {sx(c['s'])}"])
        elif fn == 'strip1':
            impl.append(sx(strip(c['s'], color=True)))
            ops.append([f"strip 1 {sx(c['s'])}"])
        elif fn == 'pprefix':
            impl.append(' '.join(opt(x) for x in parseprefix(c['s'])))
            ops.append([f"pprefix {sx(c['s'])}"])
        elif fn == 'decode':
            impl.append(sx(unhx(c['b']).decode('utf-8', 'replace')))
            ops.append([f"decode {c['b']}"])
        else:
            try:
                impl.append(str(int(c['s'])))
            except ValueError:
                impl.append('~')
            ops.append([f"pyint {sx(c['s'])}"])
    answers = ctx.driver.batch('irc', ops)
    for c, want, ans in zip(cases, impl, answers):
        ctx.count('util_fn', c['fn'])
        ok = norm(ans[0]) == norm(want)
        if not ok:
            ctx.disagree(c, {'where': f"irc.{c['fn']}", 'impl': want, 'model': ans[0]})
        ctx.case(c, nontrivial=True, validated=ok)


def check_params(ctx):
    """tables the model contains, compared with the live interpreter over all code points"""
    import re
    import unicodedata
    ans = ctx.driver.run('irc', ['ndtable'])[0]
    starts = [int(x) for x in ans.split()]
    model = {}
    for s0 in starts:
        for k in range(10):
            model[s0 + k] = k
    digit = re.compile(r'\d')
    bad = []
    for cp in range(0x110000):
        if 0xD800 <= cp <= 0xDFFF:
            continue
        ch = chr(cp)
        live = digit.match(ch) is not None
        if live != (cp in model):
            bad.append(hex(cp))
        elif live and (unicodedata.decimal(ch) != model[cp] or int(ch) != model[cp]):
            bad.append(hex(cp))
    ctx.param('unicode-decimal-digits', not bad,
              f'{len(starts)} runs of ten digits = re \\d = int() on every code point' if not bad else f'differs at {bad[:8]}')
    spaces = [cp for cp in range(0x110000) if not 0xD800 <= cp <= 0xDFFF and chr(cp).isspace()]
    probe = sorted(set(spaces) | {cp + d for cp in spaces for d in (-1, 1) if 0 <= cp + d < 0x110000} | {0, 0x41, 0x7f, 0xffff})
    probe = [cp for cp in probe if not 0xD800 <= cp <= 0xDFFF]
    got = ctx.driver.run('irc', [f'isspace {cp}' for cp in probe])
    bad = [hex(cp) for cp, g in zip(probe, got) if (g == '1') != chr(cp).isspace()]
    ctx.param('python-whitespace', not bad,
              f'{len(spaces)} white-space code points (and their neighbours) agree with str.isspace' if not bad else f'differs at {bad[:8]}')


# generators ---------------------------------------------------------------------------

COMP_LINES = [b'PING :abc', b'PING a', b'PING', b'PING a b', b':srv PING :x y', b'ping :q', b'PiNG z', b'PING ::x', b'PING :',
              b':n!u@h PRIVMSG #c :hi there', b':n!u@h PRIVMSG #c hi', b'001 nick :Welcome', b':srv 433 * nick :in use',
              b'0', b'12a x', b'1_0 a', b' :1_0 ', b' :12 \t', b'1__0', b'007', b'', b' ', b' :', b':', b':onlyprefix', b': X',
              b'NUMERIC 5', b'LINE x', b'READ', b'READ x', b'REQUEST', b'REQUEST x', b'WRITE x', b'PONG a', b'A\x00B x',
              'PRIVMSG #c :hé €'.encode(), '٣ a'.encode(), '1٣ a'.encode(), b'\xff\xfe PING', b'NOTICE \xe2\x82 x',
              b'PING :a\rb', b'a\rb c', b':p\tq CMD x', b':a!b!c@d@e X', b':!a@b X', b':a!@ X', b':@!a X', b':a@b!c X']
COMP_TOK = [b'PING', b'ping', b' ', b' ', b':', b' :', b'a', b'b c', b'1', b'23', b'_', b'\r', b'\r\n', b'\n', b'\r\n', b'!', b'@',
            b'\x00', b'\t', 'é'.encode(), '€'.encode(), b'\xff', b'\xe2\x82', b'\xf0\x9f', b'\xed\xa0\x80', b'PRIVMSG', b'N', b'x']


def comp_cases(ctx):
    rng = ctx.rng
    cases = []

    def add(stream_by_sock, server):
        pieces = []
        for s, st in stream_by_sock.items():
            n = len(st)
            k = rng.randint(0, max(0, min(4, n - 1)))
            cuts = sorted(rng.sample(range(1, n), k)) if n > 1 else []
            pieces.append([(s, seg) for seg in cuts_to_segments(st, cuts)])
        reads = []
        while any(pieces):
            p = rng.choice([p for p in pieces if p])
            reads.append(p.pop(0))
        cases.append({'kind': 'comp', 'server': server, 'reads': [[s, hx(d)] for s, d in reads]})

    for ln in COMP_LINES:          # every fixed line: whole, in client and in server mode
        for term in (b'\r\n', b'\n'):
            cases.append({'kind': 'comp', 'server': False, 'reads': [[None, hx(ln + term)]]})
        cases.append({'kind': 'comp', 'server': True, 'reads': [[5, hx(ln + b'\r\n')]]})
    cases.append({'kind': 'comp', 'server': False, 'reads': [[None, hx(b'1' * 4300 + b' a\r\n' + b'2' * 4301 + b' a\r\n')]]})
    for _ in range(120 * ctx.scale):
        server = rng.random() < 0.4
        socks = list(range(1, rng.randint(1, 3) + 1)) if server else [None]
        streams = {}
        for s in socks:
            parts = []
            for _ in range(rng.randint(1, 4)):
                if rng.random() < 0.5:
                    parts.append(rng.choice(COMP_LINES) + rng.choice([b'\r\n', b'\n', b'\r\n', b'']))
                else:
                    parts.append(b''.join(rng.choice(COMP_TOK) for _ in range(rng.randint(1, 8))))
            streams[s] = b''.join(parts)
        add(streams, server)
    return cases


def creq_cases(ctx):
    rng = ctx.rng
    cases = []
    small = irc_strings(1) + ['a b', ' a', 'a ', ':a', 'a:b', 'a\tb', 'a\t', '\ta b', 'a\rb', 'a\nb', 'a\r\nQUIT', 'a\0b', 'é €',
                              '12', '1a', 'A', 'Z z', '\x85', 'a\x85', 'a \x85']
    benign = ['x', '#c', 'nick']
    for name, (lo, hi) in CTORS.items():        # every constructor x every position x hostile strings
        for n in range(lo, hi + 1):
            for pos in range(n):
                for s in small:
                    args = [benign[i % 3] for i in range(n)]
                    args[pos] = s
                    wl = 12 + sum(len(x) for x in args)
                    cuts = sorted(rng.sample(range(1, wl), rng.randint(0, 3))) if rng.random() < 0.7 else []
                    cases.append({'kind': 'creq', 'ctor': name, 'args': args, 'cuts': cuts, 'server': rng.random() < 0.3})
            if n == 0:
                cases.append({'kind': 'creq', 'ctor': name, 'args': [], 'cuts': [], 'server': False})
    cmds = ['PRIVMSG', 'privmsg', 'PiNG', '001', '1', '0042', '12a', '1_0', 'a1', 'A B', ':A', 'A\r\nB', 'A\0B', 'PONG', 'numeric',
            'LINE', 'READ', 'WRITE', 'REQUEST', '']
    pfxs = [None, 'n!u@h', 'srv', 'a b', 'x\r\ny', '', 'a!b', 'a@b', 'a!b!c@d@e', '!a@b', 'n!u@h\tx', ':n']
    for cmd in cmds:
        for pfx in pfxs:
            for args in ([], ['a'], ['a', 'b c'], ['#c', ':x'], ['a', '']):
                cuts = sorted(rng.sample(range(1, 20), rng.randint(0, 3)))
                cases.append({'kind': 'creq', 'ctor': 'Message', 'command': cmd, 'prefix': pfx, 'args': list(args), 'cuts': cuts,
                              'server': rng.random() < 0.3})
    cases.append({'kind': 'creq', 'ctor': 'Message', 'command': None, 'prefix': None, 'args': ['a'], 'cuts': [], 'server': False})
    cases.append({'kind': 'creq', 'ctor': 'Message', 'command': 'PRIVMSG', 'prefix': 'n!u@h', 'args': ['#c', 'x' * 520], 'cuts': [300],
                  'server': False})
    for _ in range(150 * ctx.scale):
        n = rng.randint(0, 4)
        args = [''.join(rng.choice(IRC_ALPHA + ['a', 'b', 'c', '1']) for _ in range(rng.randint(1, 5))) for _ in range(n)]
        cmd = ''.join(rng.choice(['A', 'b', '1', '2', ':', ' ', '\r', '_']) for _ in range(rng.randint(1, 4)))
        wl = 8 + sum(len(x) for x in args)
        cases.append({'kind': 'creq', 'ctor': 'Message', 'command': cmd, 'prefix': rng.choice(pfxs), 'args': args,
                      'cuts': sorted(rng.sample(range(1, wl), rng.randint(0, 3))), 'server': rng.random() < 0.3})
    return cases


def ping_cases(ctx):
    rng = ctx.rng
    cases = []
    args1 = irc_strings(2) + ['a b', ' a', 'a ', 'a  b', ':a b', 'a\tb', 'a b\t', 'é €', 'x' * 40, 'a\x85b', 'a \x85']
    for s in args1:
        for server in (False, True):
            cases.append({'kind': 'ping', 'prefix': rng.choice([None, 'srv', 'n!u@h']), 'args': [s], 'server': server,
                          'cuts': sorted(rng.sample(range(1, 8), rng.randint(0, 2)))})
    for args in ([], ['a', 'b'], ['a', 'b c'], ['a', 'b', 'c']):
        for server in (False, True):
            cases.append({'kind': 'ping', 'prefix': None, 'args': list(args), 'server': server, 'cuts': []})
    for cmd in ('ping', 'PiNg', 'PINGS', 'PONG'):
        cases.append({'kind': 'ping', 'command': cmd, 'prefix': None, 'args': ['tok'], 'server': False, 'cuts': [2]})
    return cases


def fromstr_cases(ctx):
    rng = ctx.rng
    cases = [{'kind': 'fromstr', 'line': hx(ln)} for ln in COMP_LINES]
    cases += [{'kind': 'fromstr', 'line': hx(b'A ' + b'x' * k)} for k in (509, 510, 511, 512)]
    for _ in range(200 * ctx.scale):
        ln = b''.join(rng.choice(COMP_TOK) for _ in range(rng.randint(0, 8)))
        if lower_is_ascii(ln.decode('utf-8', 'replace')):
            cases.append({'kind': 'fromstr', 'line': hx(ln)})
    return cases


def util_cases(ctx):
    rng = ctx.rng
    cases = []
    fmt = ['\x03', '\x03', '1', '2', ',', 'a', '\x02', '\x0f', '\x1d', '\x1f', '\x1e', '\x11', '\x16', '\x01', ':', '٣', ' ']
    for n in range(0, 4):           # strip: exhaustive over the colour grammar alphabet up to length 3 after a colour code
        for tup in itertools.product(['\x03', '1', ',', 'a'], repeat=n):
            cases.append({'kind': 'util', 'fn': 'strip1', 's': '\x03' + ''.join(tup)})
            cases.append({'kind': 'util', 'fn': 'strip1', 's': ''.join(tup) + '\x0312,34x'})
    for _ in range(150 * ctx.scale):
        s = ''.join(rng.choice(fmt) for _ in range(rng.randint(0, 10)))
        cases.append({'kind': 'util', 'fn': 'strip1', 's': s})
        cases.append({'kind': 'util', 'fn': 'strip0', 's': s})
    pa = ['a', '!', '@', '!', '@', 'b', '\n', ' ', 'é']
    for n in range(0, 5):
        for tup in itertools.product(['a', '!', '@', '\n'], repeat=n):
            cases.append({'kind': 'util', 'fn': 'pprefix', 's': ''.join(tup)})
    for _ in range(100 * ctx.scale):
        cases.append({'kind': 'util', 'fn': 'pprefix', 's': ''.join(rng.choice(pa) for _ in range(rng.randint(0, 12)))})
    # utf-8 with the 'replace' handler: all 1- and 2-byte strings over the boundary bytes, random longer ones
    bb = [0x00, 0x41, 0x7f, 0x80, 0x8f, 0x90, 0x9f, 0xa0, 0xbf, 0xc0, 0xc1, 0xc2, 0xdf, 0xe0, 0xe1, 0xec, 0xed, 0xee, 0xef, 0xf0,
          0xf1, 0xf3, 0xf4, 0xf5, 0xff]
    for n in (1, 2):
        for tup in itertools.product(bb, repeat=n):
            cases.append({'kind': 'util', 'fn': 'decode', 'b': hx(bytes(tup))})
    for _ in range(300 * ctx.scale):
        cases.append({'kind': 'util', 'fn': 'decode', 'b': hx(bytes(rng.choice(bb) for _ in range(rng.randint(3, 7))))})
    ia = ['1', '2', '0', '_', ' ', '\t', 'a', '٣', '１', '\x85', '\x1c', '+', '²']
    for n in range(0, 4):
        for tup in itertools.product(['1', '_', ' ', 'a'], repeat=n):
            cases.append({'kind': 'util', 'fn': 'pyint', 's': '1' + ''.join(tup)})
    for _ in range(100 * ctx.scale):
        cases.append({'kind': 'util', 'fn': 'pyint', 's': rng.choice('0123456789') + ''.join(rng.choice(ia) for _ in range(rng.randint(0, 6)))})
    return cases


EVAL = {'line': eval_line, 'server': eval_server, 'irc': eval_irc, 'ircparse': eval_parse, 'comp': eval_comp,
        'creq': eval_creq, 'ping': eval_ping, 'fromstr': eval_fromstr, 'util': eval_util}


def run(ctx):
    ctx.rule = ('line: all streams <=4 bytes over {a,CR,LF} x all cut sets (exhaustive) + random token streams x '
                '(every single cut, byte-at-a-time, random k-cuts); server: interleaved per-socket streams; '
                'irc: every constructor x every argument position x all strings of length <=2 over '
                '{a,SP,:,CR,LF,NUL,e-acute,TAB} (exhaustive) + random longer; non-trivial = a cut stream '
                'containing LF / >1 socket / an argument containing SP : CR or LF; distinct = distinct case; '
                'component: fixed catalogue of IRC lines (PING forms, numerics, int() corner cases, re-entrant event names, '
                'invalid UTF-8, prefix shapes) whole and inside random token streams, cut at random, 1-3 sockets; '
                'request/round trip: every constructor x every position x 29 hostile strings + Message() over 20 commands x '
                '12 prefixes x 5 argument lists + random, written bytes re-read under 0-3 random cuts; '
                'strip: all strings <=3 over {^C,1,comma,a} after a colour code (exhaustive) + random; parseprefix: all strings '
                '<=4 over {a,!,@,LF} (exhaustive) + random; utf-8: all 1-2 byte strings over 25 boundary bytes + random')
    ctx.trusted += ['re.split(b"\\r?\\n") == CV.Line.scan (validated here)',
                    'UTF-8 encode/decode round-trips str; LF/CR bytes occur only as the characters LF/CR',
                    'parseprefix (regex) is a parameter: applied to both sides of the round trip (parsemsg part); '
                    'on the component path it is modelled (CV.Irc.parsePrefix) and validated here',
                    'str.lower == ASCII lower-casing on the generated text (checked per case; other text is not compared)',
                    'Event.create / type(): an event name may be any str without NUL (validated here)',
                    'event dispatch of circuits (FIFO queue, handler exceptions become exception events) as exercised']
    ctx.assumptions += ['IRC round trip is claimed for messages satisfying CV.Irc.wellFormed only',
                        'component path: encoding utf-8 (the default); no lone surrogates in arguments',
                        'from_string round trip: prefix not the empty string, line <= 512 bytes']
    groups = [('line', line_cases(ctx)), ('server', server_cases(ctx)), ('irc', irc_cases(ctx)),
              ('ircparse', parse_cases(ctx)), ('comp', comp_cases(ctx)), ('creq', creq_cases(ctx)), ('ping', ping_cases(ctx)),
              ('fromstr', fromstr_cases(ctx)), ('util', util_cases(ctx))]
    check_params(ctx)
    # the constructors also take byte strings (they are decoded with the message's encoding): in a quarter of the 'irc' and
    # 'creq' cases some arguments are handed over as bytes - the same text, the same expectations
    for kind, cases in groups:
        if kind in ('irc', 'creq'):
            for c in cases:
                if c.get('args') and ctx.rng.random() < 0.25:
                    idx = [i for i, a in enumerate(c['args']) if isinstance(a, str) and ctx.rng.random() < 0.7]
                    if idx:
                        c['bytes_args'] = idx
                        ctx.count('argument_type', 'bytes')
                        continue
                ctx.count('argument_type', 'str')
    for kind, cases in groups:
        for i in range(0, len(cases), 400):
            EVAL[kind](ctx, cases[i:i + 400])
            if ctx.time_up():
                break


def search(ctx):
    run(ctx)


def replay(ctx, case):
    EVAL[case['kind']](ctx, [case])

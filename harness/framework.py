"""
Shared machinery of ./check : proof gate, driver access, verdict procedure, evidence.

Verdict procedure (DESIGN.md section 1.1):
  A. proof gate       lake build, hygiene grep, `#print axioms` audit of every theorem in
                      CV/Props/<id>.lean, parameter obligations reported by the property module
  B. correspondence   implementation vs. Lean model on the same inputs (module.run)
  C. spec on impl     the decidable spec predicate (evaluated by the Lean driver, or by the
                      module where the predicate is a plain comparison) on the impl's output
  D. verdict          C fails -> VIOLATION (or KNOWN-FINDING when the signature is listed)
                      A or B fails, C clean -> failing-input search; found -> VIOLATION with
                      the input; none -> VIOLATION ... no-failing-input-found
Exit codes: 0 held, 1 violation, 2 infrastructure problem (never a VIOLATION line).
"""
import fcntl
import hashlib
import json
import os
import random
import re
import subprocess
import sys
import time
import traceback

VERIF = os.path.dirname(os.path.dirname(os.path.abspath(__file__)))
LEAN = os.path.join(VERIF, 'lean')
REPO = os.environ.get('VERIF_REPO', '/repo')
# where evidence/ and replays/ are written: /verif itself for every registered check; scratch evaluations of seeded changes
# (tools/seed_eval_par.py) point this somewhere else so that they never touch the committed evidence
OUT = os.environ.get('VERIF_OUT') or VERIF
DRIVER_EXE = os.path.join(LEAN, '.lake', 'build', 'bin', 'cvdriver')
ALLOWED_AXIOMS = {'propext', 'Classical.choice', 'Quot.sound'}
HYGIENE = re.compile(
    r'\bsorry\b|\badmit\b|^\s*axiom\s|native_decide|bv_decide|implemented_by|\bunsafe\s|maxHeartbeats\s+0\b',
    re.M,
)

GLOBAL_TRUSTED = [
    'Lean 4.33.0 kernel and elaborator',
    'axioms: at most propext, Classical.choice, Quot.sound (audited per theorem on every run)',
    'hand-written model = code: validated by the differential correspondence of this run, not proved',
    'harness: generators, doubles, canonicalisation, line protocol (cvdriver)',
    'CPython semantics of the builtins the modelled code calls',
]


class Infra(Exception):
    """infrastructure failure: exit 2, never a VIOLATION"""


def setup_import_path():
    if REPO not in sys.path:
        sys.path.insert(0, REPO)
    import circuits  # noqa
    got = os.path.dirname(os.path.dirname(os.path.abspath(circuits.__file__)))
    if os.path.realpath(got) != os.path.realpath(REPO):
        raise Infra(f'circuits imported from {got}, expected {REPO}')


# ----------------------------------------------------------------------------------------
# A. proof gate
# ----------------------------------------------------------------------------------------

def strip_lean_comments(src):
    out = []
    i = 0
    depth = 0
    n = len(src)
    while i < n:
        if src.startswith('/-', i):
            depth += 1
            i += 2
        elif depth and src.startswith('-/', i):
            depth -= 1
            i += 2
        elif depth:
            if src[i] == '\n':
                out.append('\n')
            i += 1
        elif src.startswith('--', i):
            while i < n and src[i] != '\n':
                i += 1
        else:
            out.append(src[i])
            i += 1
    return ''.join(out)


def lean_sources():
    res = [os.path.join(LEAN, 'Driver.lean'), os.path.join(LEAN, 'CV.lean')]
    for root, _dirs, files in os.walk(os.path.join(LEAN, 'CV')):
        for f in files:
            if f.endswith('.lean'):
                res.append(os.path.join(root, f))
    return sorted(res)


def lake_build(prop=None):
    """build library + driver under a lock (checks may run concurrently)"""
    os.makedirs(os.path.join(LEAN, '.lake'), exist_ok=True)
    with open(os.path.join(LEAN, '.lake', 'verif.lock'), 'w') as lk:
        fcntl.flock(lk, fcntl.LOCK_EX)
        targets = ['CV', 'cvdriver'] + ([f'CV.Props.{prop}'] if prop and os.path.exists(os.path.join(LEAN, 'CV', 'Props', f'{prop}.lean')) else [])
        p = subprocess.run(['lake', 'build'] + targets, cwd=LEAN, capture_output=True, text=True)
        fcntl.flock(lk, fcntl.LOCK_UN)
    return p.returncode, (p.stdout + p.stderr)


def theorems_of(prop):
    """every `theorem` declared in CV/Props/<prop>.lean is an obligation of the property"""
    path = os.path.join(LEAN, 'CV', 'Props', f'{prop}.lean')
    if not os.path.exists(path):
        return path, []
    src = strip_lean_comments(open(path).read())
    ns = []
    names = []
    for line in src.splitlines():
        m = re.match(r'\s*namespace\s+(\S+)', line)
        if m:
            ns.append(m.group(1))
            continue
        m = re.match(r'\s*end\s+(\S+)', line)
        if m and ns and ns[-1] == m.group(1):
            ns.pop()
            continue
        m = re.match(r'\s*(?:@\[[^\]]*\]\s*)?(?:private\s+|protected\s+)?theorem\s+(\S+)', line)
        if m:
            names.append('.'.join(ns + [m.group(1)]))
    return path, names


def axiom_audit(prop, names):
    """returns {theorem: [axioms]} using `#print axioms`"""
    if not names:
        return {}
    d = os.path.join(LEAN, '.lake', 'audit')
    os.makedirs(d, exist_ok=True)
    f = os.path.join(d, f'Audit_{prop}_{os.getpid()}.lean')
    with open(f, 'w') as fh:
        fh.write(f'import CV.Props.{prop}\n')
        for n in names:
            fh.write(f'#print axioms {n}\n')
    try:
        p = subprocess.run(['lake', 'env', 'lean', f], cwd=LEAN, capture_output=True, text=True)
    finally:
        try:
            os.unlink(f)
        except OSError:
            pass
    out = p.stdout + p.stderr
    res = {}
    for m in re.finditer(r"'([^']+)' depends on axioms: \[([^\]]*)\]", out, re.S):
        res[m.group(1)] = [a.strip() for a in m.group(2).replace('\n', ' ').split(',') if a.strip()]
    for m in re.finditer(r"'([^']+)' does not depend on any axioms", out):
        res[m.group(1)] = []
    if p.returncode != 0 and not res:
        raise Infra('axiom audit failed to run:\n' + out[-2000:])
    return res


def proof_gate(prop):
    """returns dict(ok, obligations, discharged, problems[], theorems{name: axioms})"""
    problems = []
    rc, out = lake_build(prop)
    if rc != 0:
        if 'error' not in out:
            raise Infra('lake build failed without a Lean error:\n' + out[-3000:])
        problems.append({'kind': 'build', 'detail': out[-3000:]})
    for path in lean_sources():
        src = strip_lean_comments(open(path).read())
        for m in HYGIENE.finditer(src):
            problems.append({'kind': 'hygiene', 'detail': f'{os.path.relpath(path, LEAN)}: {m.group(0).strip()}'})
    path, names = theorems_of(prop)
    audited = {}
    if rc == 0 and names:
        audited = axiom_audit(prop, names)
    discharged = 0
    for n in names:
        ax = audited.get(n)
        if ax is None:
            problems.append({'kind': 'unproved', 'detail': n})
        elif not set(ax) <= ALLOWED_AXIOMS:
            problems.append({'kind': 'axioms', 'detail': f'{n}: {ax}'})
        else:
            discharged += 1
    if not names:
        problems.append({'kind': 'no-theorems', 'detail': path})
    return {
        'ok': not problems,
        'obligations': len(names),
        'discharged': discharged,
        'problems': problems,
        'theorems': {n: audited.get(n) for n in names},
    }


def leanchecker(prop):
    """thorough tier: independent re-check of the compiled .olean files"""
    t0 = time.time()
    p = subprocess.run(['lake', 'env', 'leanchecker', f'CV.Props.{prop}'], cwd=LEAN, capture_output=True, text=True)
    return {'cmd': f'lake env leanchecker CV.Props.{prop}', 'rc': p.returncode,
            'tail': (p.stdout + p.stderr)[-400:], 'wall_s': round(time.time() - t0, 1)}


# ----------------------------------------------------------------------------------------
# driver
# ----------------------------------------------------------------------------------------

class Driver:
    def __init__(self):
        if not os.path.exists(DRIVER_EXE):
            raise Infra('cvdriver not built (run MANIFEST.setup_cmd)')
        self.calls = 0
        self.lines = 0

    def run(self, model, lines):
        """one answer line per op line"""
        lines = list(lines)
        if not lines:
            return []
        for ln in lines:
            if '\n' in ln:
                raise Infra('newline inside an op line')
        p = subprocess.run([DRIVER_EXE, model], input='\n'.join(lines) + '\n', capture_output=True, text=True)
        if p.returncode != 0:
            raise Infra(f'cvdriver {model} rc={p.returncode}: {p.stderr[-500:]}')
        out = p.stdout.split('\n')
        if out and out[-1] == '':
            out.pop()
        if len(out) != len(lines):
            raise Infra(f'cvdriver {model}: {len(lines)} ops, {len(out)} answers')
        self.calls += 1
        self.lines += len(lines)
        return out

    def batch(self, model, cases):
        """cases: list of lists of op lines; the model is reset before each case"""
        flat = []
        for ops in cases:
            flat.append('reset')
            flat.extend(ops)
        out = self.run(model, flat)
        res = []
        i = 0
        for ops in cases:
            i += 1
            res.append(out[i:i + len(ops)])
            i += len(ops)
        return res


def hx(b):
    """bytes -> hex token ('-' for empty)"""
    return b.hex() if b else '-'


def unhx(t):
    return b'' if t == '-' else bytes.fromhex(t)


def sx(s):
    """str -> hex token of its UTF-8 encoding"""
    return hx(s.encode('utf-8', 'surrogatepass'))


# ----------------------------------------------------------------------------------------
# context / verdict
# ----------------------------------------------------------------------------------------

class Ctx:
    def __init__(self, prop, tier, seed, known):
        self.prop = prop
        self.tier = tier
        self.seed = seed
        self.rng = random.Random(seed * 1000003 + int(prop[1:]))
        self.scale = 1 if tier == 'quick' else 10
        self.searching = False
        self.known = known  # list of dict(signature, what)
        self.driver = Driver()
        self.evaluations = 0
        self.validated = 0
        self.distinct = set()
        self.samples = []
        self.hist = {}
        self.disagreements = []
        self.violations = []
        self.params = []  # parameter obligations: dict(name, ok, detail)
        self.rule = ''
        self.trusted = []
        self.assumptions = []
        self.exhaustive = False
        self.extra = {}
        self.deadline = None

    # --- bookkeeping -----------------------------------------------------------------
    def count(self, hist, key, n=1):
        h = self.hist.setdefault(hist, {})
        key = str(key)
        h[key] = h.get(key, 0) + n

    def case(self, case, nontrivial=True, validated=True):
        self.evaluations += 1
        if validated:
            self.validated += 1
        if nontrivial:
            self.distinct.add(hashlib.sha1(json.dumps(case, sort_keys=True, default=repr).encode()).hexdigest())
        if len(self.samples) < 4 and nontrivial:
            self.samples.append(case)

    def param(self, name, ok, detail=''):
        self.params.append({'name': name, 'ok': bool(ok), 'detail': detail})

    def disagree(self, case, detail):
        """model and implementation differ on `case` (B)"""
        if len(self.disagreements) < 50:
            self.disagreements.append({'case': case, 'detail': detail})
        self.count('disagreements', detail.get('where', 'unspecified') if isinstance(detail, dict) else 'x')

    def violate(self, case, signature, what):
        """the spec predicate fails on the implementation's own behaviour (C)"""
        self.violations.append({'case': case, 'signature': signature, 'what': what})

    def corpus(self):
        """minimised past disagreements / violations of this property (run them first)"""
        d = os.path.join(VERIF, 'corpus', self.prop)
        res = []
        if os.path.isdir(d):
            for f in sorted(os.listdir(d)):
                if f.endswith('.json'):
                    c = json.load(open(os.path.join(d, f)))
                    res.append(c.get('case', c))
        return res

    def time_up(self):
        return self.deadline is not None and time.time() > self.deadline

    def guard(self, case, limit=None, what='implementation'):
        """context manager around one execution of the implementation on `case`: leaves a breadcrumb for the supervising
        ./check process, which - when the region does not return within `limit` seconds (pure C loops such as a
        catastrophic regex cannot be interrupted from inside the interpreter) - kills this process, replays the case in a
        fresh process under the same limit and reports a hang that reproduces as a violation with the case as replay"""
        return _Guard(self, case, limit or HANG_LIMIT_S, what)


HANG_LIMIT_S = float(os.environ.get('VERIF_HANG_LIMIT_S', '60') or 60)
CRUMB = os.environ.get('VERIF_CRUMB')


class _Guard:
    def __init__(self, ctx, case, limit, what):
        self.ctx, self.case, self.limit, self.what = ctx, case, limit, what

    def __enter__(self):
        if CRUMB:
            tmp = CRUMB + '.tmp'
            with open(tmp, 'w') as fh:
                json.dump({'t': time.time(), 'limit': self.limit, 'what': self.what, 'prop': self.ctx.prop,
                           'case': self.case}, fh, default=repr)
            os.replace(tmp, CRUMB)
        return self

    def __exit__(self, *exc):
        if CRUMB:
            try:
                os.unlink(CRUMB)
            except OSError:
                pass
        return False


def load_known(prop):
    path = os.path.join(VERIF, 'known_findings.json')
    if not os.path.exists(path):
        return []
    data = json.load(open(path))
    return [k for k in data.get('known', []) if k['property'] == prop]


def write_replay(prop, seed, tag, payload):
    d = os.path.join(OUT, 'replays')
    os.makedirs(d, exist_ok=True)
    safe = re.sub(r'[^A-Za-z0-9_.-]+', '_', tag)[:60]
    path = os.path.join(d, f'{prop}-{safe}-seed{seed}.json')
    with open(path, 'w') as fh:
        json.dump(payload, fh, indent=1, default=repr)
    return path


def write_evidence(prop, tier, seed, ctx, gate, wall, nviol, extra=None):
    d = os.path.join(OUT, 'evidence')
    os.makedirs(d, exist_ok=True)
    params_ok = sum(1 for p in ctx.params if p['ok'])
    cov = {
        'obligations': gate['obligations'] + len(ctx.params),
        'discharged': gate['discharged'] + params_ok,
        'checker_cmd': f'cd /verif/lean && lake build CV cvdriver && lake env lean <audit of CV.Props.{prop}> '
                       f'(#print axioms per theorem; hygiene grep)'
                       + ('; lake env leanchecker CV.Props.' + prop if tier == 'thorough' else ''),
        'trusted_base': GLOBAL_TRUSTED + list(ctx.trusted),
        'theorems': gate['theorems'],
        'parameter_obligations': ctx.params,
        'gate_problems': gate['problems'],
        'evaluations': ctx.evaluations,
        'distinct_nontrivial': len(ctx.distinct),
        'rule': ctx.rule,
        'samples': ctx.samples if ctx.samples else [{'note': 'no case executed'}],
        'traces_validated_against_impl': ctx.validated,
        'disagreements_checked': ctx.evaluations,
        'disagreements_found': len(ctx.disagreements),
        'histograms': ctx.hist,
        'exhaustive': bool(ctx.exhaustive),
        'driver_ops': ctx.driver.lines,
        'repo': REPO,
    }
    cov.update(ctx.extra)
    if extra:
        cov.update(extra)
    ev = {
        'property_id': prop,
        'tier': tier,
        'seed': seed,
        'level': 'proof',
        'coverage': cov,
        'assumptions': list(ctx.assumptions),
        'wall_s': round(wall, 2),
        'violations': nviol,
    }
    path = os.path.join(d, f'{prop}.json')
    tmp = path + f'.tmp{os.getpid()}'
    with open(tmp, 'w') as fh:
        json.dump(ev, fh, indent=1, default=repr)
    os.replace(tmp, path)
    return path


def run_check(prop, module, tier, seed, replay=None):
    t0 = time.time()
    setup_import_path()
    known = load_known(prop)
    ctx = Ctx(prop, tier, seed, known)
    # generation stops when the budget is used up (what was run until then is judged as usual)
    budget = float(os.environ.get('VERIF_BUDGET_S', '0') or 0) or (240.0 if tier == 'quick' else 1500.0)
    ctx.deadline = t0 + budget

    if replay:
        case = json.load(open(replay))
        payload = case.get('case', case)
        module.replay(ctx, payload)
        for v in ctx.violations:
            print(f"replayed: signature={v['signature']} {v['what']}")
        for d in ctx.disagreements:
            print(f"replayed: disagreement {json.dumps(d['detail'], default=repr)[:400]}")
        if not ctx.violations and not ctx.disagreements:
            print('replayed: no violation, no disagreement')
        return 1 if ctx.violations else 0

    gate = proof_gate(prop)
    extra = {}
    if tier == 'thorough' and gate['ok']:
        lc = leanchecker(prop)
        extra['leanchecker'] = lc
        if lc['rc'] != 0:
            gate['ok'] = False
            gate['problems'].append({'kind': 'leanchecker', 'detail': lc['tail']})

    module.run(ctx)

    bad_params = [p for p in ctx.params if not p['ok']]
    broken = (not gate['ok']) or bool(bad_params) or bool(ctx.disagreements)

    known_now = {k['signature'] for k in known}
    if broken and not [v for v in ctx.violations if v['signature'] not in known_now] and hasattr(module, 'search'):
        # failing-input search with the spec-on-impl oracle
        ctx.searching = True
        ctx.scale = max(ctx.scale, 5)
        ctx.rng = random.Random(seed * 7919 + 17)
        try:
            module.search(ctx)
        except Infra:
            raise
        except Exception:
            traceback.print_exc()

    exit_code = 0
    lines = []
    seen_sig = set()
    unknown = []
    known_sigs = {k['signature']: k for k in known}
    for v in ctx.violations:
        if v['signature'] in seen_sig:
            continue
        seen_sig.add(v['signature'])
        if v['signature'] in known_sigs:
            lines.append(f"KNOWN-FINDING: property={prop} {v['signature']} {known_sigs[v['signature']]['what']}")
        else:
            unknown.append(v)
    for v in unknown:
        path = write_replay(prop, seed, v['signature'], {
            'property': prop, 'signature': v['signature'], 'what': v['what'], 'case': v['case'],
            'replay_cmd': f'./check {prop} --replay <this file>', 'repo': REPO})
        lines.append(f'VIOLATION property={prop} replay={path}')
        exit_code = 1
    if broken and not unknown:
        broken_items = (
            [f"proof-gate:{p['kind']}:{p['detail'][:200]}" for p in gate['problems']]
            + [f"parameter-obligation:{p['name']}:{p['detail'][:200]}" for p in bad_params]
            + [f"correspondence:{json.dumps(d['detail'], default=repr)[:300]}" for d in ctx.disagreements[:5]]
        )
        path = write_replay(prop, seed, 'unproved', {
            'property': prop, 'signature': 'no-failing-input-found',
            'no_longer_checks': broken_items,
            'disagreeing_cases': ctx.disagreements[:5],
            'note': 'model/proof/correspondence no longer establishes the property; the search for a '
                    'concrete failing input on the implementation found none',
            'repo': REPO})
        lines.append(f'VIOLATION property={prop} replay={path} no-failing-input-found')
        exit_code = 1

    wall = time.time() - t0
    ev = write_evidence(prop, tier, seed, ctx, gate, wall, len(unknown) + (1 if broken and not unknown else 0), extra)
    for ln in lines:
        print(ln)
    print(f'{prop} tier={tier} seed={seed} obligations={gate["obligations"] + len(ctx.params)} '
          f'discharged={gate["discharged"] + sum(1 for p in ctx.params if p["ok"])} '
          f'cases={ctx.evaluations} distinct={len(ctx.distinct)} disagreements={len(ctx.disagreements)} '
          f'violations={len(ctx.violations)} wall={wall:.1f}s evidence={ev}')
    if broken:
        for p in gate['problems']:
            print(f"  gate problem: {p['kind']}: {p['detail'][:300]}")
        for p in bad_params:
            print(f"  parameter obligation failed: {p['name']}: {p['detail'][:300]}")
        for d in ctx.disagreements[:3]:
            print(f"  disagreement: {json.dumps(d['detail'], default=repr)[:600]}")
    return exit_code


# ----------------------------------------------------------------------------------------
# supervisor: ./check runs the verdict procedure in a child process and watches its breadcrumb
# ----------------------------------------------------------------------------------------

def supervise(check_path, argv, prop, tier, seed):
    """run `check <argv>` as a child; if a guarded execution of the implementation (Ctx.guard) does not return within its
    limit, kill the child and replay that case alone in a fresh process under the same limit: a hang that reproduces is a
    violation (the implementation does not return on this input; replay = the case), one that does not is an
    infrastructure time-out (exit 2, no VIOLATION line)"""
    import signal
    os.makedirs(os.path.join(OUT, 'replays'), exist_ok=True)
    crumb = os.path.join(OUT, 'replays', f'.inflight-{prop}-{os.getpid()}.json')
    env = dict(os.environ, VERIF_CHILD='1', VERIF_CRUMB=crumb)
    t0 = time.time()
    budget = float(os.environ.get('VERIF_BUDGET_S', '0') or 0) or (240.0 if tier == 'quick' else 1500.0)
    hard = float(os.environ.get('VERIF_HARD_LIMIT_S', '0') or 0) or (budget * 4 + 600)
    child = subprocess.Popen([sys.executable, check_path] + argv, env=env, start_new_session=True)
    hung = None
    try:
        while True:
            try:
                return child.wait(timeout=1.0)
            except subprocess.TimeoutExpired:
                pass
            if time.time() - t0 > hard:
                print(f'INFRA: {prop}: the check did not finish within {hard:.0f}s (no guarded case in flight); stopped',
                      file=sys.stderr)
                return 2
            try:
                c = json.load(open(crumb))
            except (OSError, ValueError):
                continue
            if time.time() - c['t'] > c['limit']:
                hung = c
                break
    finally:
        if child.poll() is None:
            try:
                os.killpg(child.pid, signal.SIGKILL)
            except OSError:
                child.kill()
            child.wait()
        try:
            os.unlink(crumb)
        except OSError:
            pass
    # the guarded region overran: does the case alone reproduce it?
    case_file = write_replay(prop, seed, 'hang-candidate', {'property': prop, 'case': hung['case']})
    env2 = dict(os.environ, VERIF_CHILD='1')
    env2.pop('VERIF_CRUMB', None)
    try:
        r = subprocess.run([sys.executable, check_path, prop, '--replay', case_file], env=env2, capture_output=True, text=True,
                           timeout=hung['limit'], start_new_session=True)
        reproduced = False
        tail = (r.stdout + r.stderr)[-600:]
    except subprocess.TimeoutExpired:
        reproduced = True
        tail = ''
    wall = time.time() - t0
    if not reproduced:
        try:
            os.unlink(case_file)
        except OSError:
            pass
        print(f"INFRA: {prop}: a guarded execution of the {hung['what']} exceeded {hung['limit']:.0f}s but the case alone returns "
              f"in time ({tail[-200:]!r}); treated as an infrastructure time-out", file=sys.stderr)
        return 2
    try:
        os.unlink(case_file)
    except OSError:
        pass
    sig = 'hang(no-return-within-%ds)' % int(hung['limit'])
    path = write_replay(prop, seed, sig, {
        'property': prop, 'signature': sig, 'case': hung['case'],
        'what': f"the {hung['what']} does not return within {hung['limit']:.0f}s on this case (twice: inside the run and alone in a "
                f"fresh process); cases of this kind take milliseconds",
        'replay_cmd': f'./check {prop} --replay <this file>   (does not return)', 'repo': REPO})
    ev = {'property_id': prop, 'tier': tier, 'seed': seed, 'level': 'proof',
          'coverage': {'obligations': 0, 'discharged': 0, 'checker_cmd': 'not reached: the run was stopped by the supervisor',
                       'trusted_base': GLOBAL_TRUSTED, 'evaluations': 1, 'distinct_nontrivial': 1,
                       'rule': 'the case during which the implementation stopped returning', 'samples': [hung['case']],
                       'traces_validated_against_impl': 0, 'disagreements_checked': 0, 'exhaustive': False,
                       'explanation': 'supervisor verdict: hang reproduced on a single case'},
          'assumptions': [], 'wall_s': round(wall, 2), 'violations': 1}
    d = os.path.join(OUT, 'evidence')
    os.makedirs(d, exist_ok=True)
    with open(os.path.join(d, f'{prop}.json'), 'w') as fh:
        json.dump(ev, fh, indent=1, default=repr)
    print(f'VIOLATION property={prop} replay={path}')
    print(f'{prop} tier={tier} seed={seed} stopped by the supervisor: {sig} wall={wall:.1f}s')
    return 1


# ----------------------------------------------------------------------------------------
# helpers for property modules
# ----------------------------------------------------------------------------------------

def ddmin(items, fails):
    """shrink a list while `fails(list)` stays true (simple delta debugging)"""
    items = list(items)
    n = 2
    while len(items) >= 2:
        chunk = max(1, len(items) // n)
        reduced = False
        for i in range(0, len(items), chunk):
            cand = items[:i] + items[i + chunk:]
            if cand and fails(cand):
                items = cand
                n = max(n - 1, 2)
                reduced = True
                break
        if not reduced:
            if chunk == 1:
                break
            n = min(len(items), n * 2)
    return items


def cuts_to_segments(data, cuts):
    cuts = sorted(set(c for c in cuts if 0 < c < len(data)))
    segs = []
    prev = 0
    for c in cuts:
        segs.append(data[prev:c])
        prev = c
    segs.append(data[prev:])
    return segs

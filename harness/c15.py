"""
C15 - Every HTTP response is a well-formed, self-delimiting message with exact body.

The real `HTTP` component is driven in-process (http15util.Rig): complete requests are fired as
`read(sock, bytes)` events, an application component answers them from a table with every body
shape (str, bytes, list, unsized iterable, streamed generator, file object, httperror), and the
`write` / `close` events per connection are recorded.

 B  correspondence : per request, the recorded events (every write, every close, in order),
                     whether the `_clients` entry is gone and whether the connection was closed
                     == CV.HttpResp.serve (Lean model of prepare/_on_response/_on_stream/_clients)
 C  spec on impl   : (1) CV.HttpSpec.checkWire - an RFC 7230 response reader written in Lean,
                     independent of the model - must recover status, application headers and the
                     exact body of every response from the connection's bytes, find nothing left
                     over, and the close event must occur iff the last response announced it;
                     (2) the same with Python's http.client.HTTPResponse as the reader.
"""
import http.client
import io
import itertools

from framework import hx

FIXED_DATE = 'Thu, 01 Jan 2026 00:00:00 GMT'
BODYLESS = (204, 304)

STATUSES = [200, 201, 101, 204, 205, 304, 302, 404, 413, 500]


# ---------------------------------------------------------------------------------------
# case data
# ---------------------------------------------------------------------------------------
# part encodings (JSON-able):  ['s', text] | ['b', hex] | ['n'] | ['rs', text, count] | ['rb', hex, count]

def part_value(p):
    t = p[0]
    if t == 's':
        return p[1]
    if t == 'b':
        return bytes.fromhex(p[1])
    if t == 'n':
        return None
    if t == 'rs':
        return p[1] * p[2]
    if t == 'rb':
        return bytes.fromhex(p[1]) * p[2]
    raise ValueError(p)


def enc(v):
    return v.encode('utf-8') if isinstance(v, str) else v


def body_parts(body):
    return [part_value(p) for p in body['parts']]


def produced_bytes(body):
    return b''.join(enc(v) for v in body_parts(body) if v is not None)


def model_body(body, bufsize):
    """(kind, parts) as Response.body / Response.stream are when prepare() runs"""
    kind = body['kind']
    vals = [enc(v) for v in body_parts(body) if v is not None]
    if kind in ('str', 'bytes'):
        whole = b''.join(vals)
        return 'sized', ([whole] if whole else [])
    if kind == 'list':
        return 'sized', vals
    if kind == 'gen':
        return 'iter', vals
    if kind == 'sgen':
        return 'stream', vals
    if kind == 'file':
        whole = b''.join(vals)
        return 'stream', [whole[i:i + bufsize] for i in range(0, len(whole), bufsize)]
    raise ValueError(kind)


def request_bytes(rq, path):
    s = f"{rq['method']} {path} HTTP/{rq['ver']}\r\nHost: x\r\n"
    if rq.get('conn'):
        s += f"Connection: {rq['conn']}\r\n"
    return (s + '\r\n').encode()


def keep_alive(rq):
    c = (rq.get('conn') or '').lower()
    if c == 'close':
        return False
    if c == 'keep-alive':
        return True
    return rq['ver'] == '1.1'


# ---------------------------------------------------------------------------------------
# implementation
# ---------------------------------------------------------------------------------------

class Impl:
    def __init__(self):
        import circuits.web.wrappers as wrappers
        from circuits.net.sockets import BUFSIZE
        from circuits.web.constants import HTTP_STATUS_CODES, SERVER_PROTOCOL
        wrappers.formatdate = lambda *a, **k: FIXED_DATE       # mask the clock
        self.bufsize = BUFSIZE
        self.reasons = HTTP_STATUS_CODES
        self.server_protocol = SERVER_PROTOCOL
        self.rig = None

    def new_rig(self):
        from http15util import Rig
        self.rig = Rig()

    def run_conn(self, case):
        """-> list of per-request observations:
              dict(acts=[('w', bytes)|('c',)], stale=bool, closed=bool, produced=bytes|None, exc=[...])"""
        from http15util import make_body  # noqa: F401  (import check)
        if self.rig is None:
            self.new_rig()
        rig = self.rig
        tok = rig.tok()
        out = []
        closed = False
        for i, rq in enumerate(case['reqs']):
            if closed:
                break
            path = f'/c{i}'
            spec = {'status': rq.get('status'), 'tag': f't{i}', 'ctype': rq.get('ctype')}
            b = rq['body']
            if b['kind'] == 'httperror':
                spec['body'] = {'kind': 'httperror', 'parts': []}
                spec['status'] = rq.get('status') or 500
            else:
                spec['body'] = {'kind': b['kind'], 'parts': body_parts(b)}
            rig.app.table = {path: spec}
            rig.app.produced = {}
            before = len(rig.wire(tok))
            nerr = len(rig.srv.errors)
            try:
                rig.feed(tok, request_bytes(rq, path))
            except RuntimeError as e:       # queue never drains: the rig is unusable afterwards
                self.rig = None
                out.append({'acts': list(rig.wire(tok)[before:]), 'stale': True, 'closed': closed,
                            'produced': None, 'exc': [f'no-quiescence: {e}']})
                break
            acts = list(rig.wire(tok)[before:])
            closed = any(a[0] == 'c' for a in rig.wire(tok))
            out.append({'acts': acts, 'stale': rig.clients(tok), 'closed': closed,
                        'produced': rig.app.produced.get(path), 'exc': rig.srv.errors[nerr:]})
        rig.srv.wire.pop(tok, None)
        rig.srv.http._clients.pop(tok, None)
        rig.srv.http._buffers.pop(tok, None)
        del rig.srv.errors[:]
        return out


# ---------------------------------------------------------------------------------------
# independent client: http.client.HTTPResponse over the captured bytes
# ---------------------------------------------------------------------------------------

class _Sock:
    def __init__(self, fp):
        self.fp = fp

    def makefile(self, *a, **k):
        return self.fp


class _NoClose(io.BytesIO):
    def close(self):   # HTTPResponse closes its fp after each message; keep reading from it
        pass


def client_check(wire, closed, expects):
    """-> None or (clause, index) - the property as http.client sees it"""
    fp = _NoClose(wire)
    for i, e in enumerate(expects):
        if e['status'] == 100:
            return None        # http.client swallows '100 Continue' as an interim response
        r = http.client.HTTPResponse(_Sock(fp), method='HEAD' if e['head'] else 'GET')
        try:
            r.begin()
            will_close = r.will_close
            body = r.read()
        except (http.client.HTTPException, ValueError, OSError) as ex:
            return (f'client-undecodable[{type(ex).__name__}]', i)
        if r.status != e['status']:
            return ('client-status-mismatch', i)
        for n, v in e['hdrs']:
            if r.getheader(n) != v:
                return ('client-header-lost', i)
        nobody = e['head'] or e['status'] < 200 or e['status'] in BODYLESS
        if body != (b'' if nobody else e['body']):
            return ('client-body-mismatch', i)
        if will_close:
            if fp.tell() != len(wire):
                return ('client-bytes-after-closing-response', i)
            if not closed:
                return ('client-close-announced-not-closed', i)
            return None
    if fp.tell() != len(wire):
        return ('client-trailing-bytes', len(expects))
    if closed:
        return ('client-close-not-announced', len(expects))
    return None


# ---------------------------------------------------------------------------------------
# evaluation
# ---------------------------------------------------------------------------------------

def act_tokens(acts):
    return ' '.join('c' if a[0] == 'c' else 'w:' + hx(a[1]) for a in acts)


def hdr_tok(n, v):
    return f'{hx(n.encode())}={hx(v.encode())}'


KIND_CLASS = {'str': 'sized', 'bytes': 'sized', 'list': 'sized', 'httperror': 'sized',
              'gen': 'iterable', 'sgen': 'stream', 'file': 'stream'}


def features(case, idx):
    """deterministic classifier input: what kind of exchange is the (minimised) failing one"""
    reqs = case['reqs']
    idx = min(idx, len(reqs) - 1)
    rq = reqs[idx]
    st = rq.get('status') or (500 if rq['body']['kind'] == 'httperror' else 200)
    tags = [rq['method']]
    if st < 200:
        tags.append('1xx')
    elif st in (204, 205, 304, 413):
        tags.append(str(st))
    tags.append(KIND_CLASS[rq['body']['kind']])
    if rq['body']['kind'] != 'httperror':
        vals = [v for v in body_parts(rq['body']) if v is not None]
        if not b''.join(enc(v) for v in vals):
            tags.append('empty-body')
        elif vals and not vals[0]:
            tags.append('first-part-empty')
    if idx > 0:
        tags.append('after-' + reqs[idx - 1]['method'])
    return ','.join(tags)


SHRUNK = {}


def evaluate(ctx, impl, cases, shrink=True):
    ops, obs_all, exp_all = [], [], []
    for c in cases:
        obs = impl.run_conn(c)
        expects = []
        o = []
        for i, rq in enumerate(c['reqs']):
            b = rq['body']
            status = rq.get('status') or (500 if b['kind'] == 'httperror' else 200)
            if b['kind'] == 'httperror':
                prod = obs[i]['produced'] if i < len(obs) else None
                body = prod if prod is not None else b''
                mk, mparts, force = 'sized', ([body] if body else []), True
            else:
                body = produced_bytes(b)
                mk, mparts = model_body(b, impl.bufsize)
                force = False
            hdrs = [('X-Case', f't{i}')] + ([('Content-Type', rq['ctype'])] if rq.get('ctype') else [])
            expects.append({'head': rq['method'] == 'HEAD', 'status': status, 'body': body, 'hdrs': hdrs})
            reason = impl.reasons.get(status, '')
            o.append('serve {} {} {} {} {} {} {} {} | {}'.format(
                int(rq['method'] == 'HEAD'), int(rq['ver'] == '1.1'), int(keep_alive(rq)), status,
                hx(reason.encode('latin1')), int(force), mk,
                ' '.join([hdr_tok('Date', FIXED_DATE)] + [hdr_tok(n, v) for n, v in hdrs]),
                ' '.join(hx(p) for p in mparts)))
        # spec on the implementation's own output
        flat = [a for ob in obs for a in ob['acts']]
        first_close = next((k for k, a in enumerate(flat) if a[0] == 'c'), None)
        wire = b''.join(a[1] for a in (flat if first_close is None else flat[:first_close]))
        after = first_close is not None and len(flat) > first_close + 1
        o.append('spec {} {} {} | {}'.format(
            int(first_close is not None), int(after), hx(wire),
            ' '.join('{}:{}:{}:{}'.format(int(e['head']), e['status'], hx(e['body']),
                                          ','.join(hdr_tok(n, v) for n, v in e['hdrs']) or '-')
                     for e in expects)))
        ops.append(o)
        obs_all.append((obs, wire, first_close is not None, after))
        exp_all.append(expects)
    answers = ctx.driver.batch('httpresp', ops)
    for c, (obs, wire, closed, after), expects, ans in zip(cases, obs_all, exp_all, answers):
        ok = True
        n = len(c['reqs'])
        # ---- B: correspondence, request by request
        for i in range(n):
            a = ans[i]
            if a == 'bad-op':
                ok = False
                ctx.disagree(c, {'where': 'httpresp.serve', 'request': i, 'impl': 'n/a', 'model': 'bad-op'})
                break
            if i < len(obs):
                want = f"{act_tokens(obs[i]['acts'])} | stale={int(obs[i]['stale'])} closed={int(obs[i]['closed'])}"
            else:
                want = None   # not sent: the connection was closed; the model must be closed as well
            if want is None:
                if not a.strip().endswith('closed=1') or a.split('|')[0].strip():
                    ok = False
                    ctx.disagree(c, {'where': 'httpresp.serve', 'request': i, 'impl': 'connection closed before',
                                     'model': a[:300]})
                    break
                continue
            if a.strip() != want.strip():
                ok = False
                ctx.disagree(c, {'where': 'httpresp.serve', 'request': i, 'features': features(c, i),
                                 'impl': want[-400:], 'model': a[-400:], 'exc': obs[i]['exc'][:2]})
                break
        # ---- C: spec on impl (Lean reader, then http.client)
        failure = None
        sp = ans[n]
        if sp.startswith('fail'):
            _f, clause, idx = sp.split()
            failure = (clause, int(idx))
        elif sp != 'ok':
            ctx.disagree(c, {'where': 'httpresp.spec', 'impl': 'n/a', 'model': sp})
        if failure is None and not after:
            failure = client_check(wire, closed, expects)
        if failure is None and any(ob['exc'] for ob in obs):
            k = next(k for k, ob in enumerate(obs) if ob['exc'])
            failure = ('exception[' + obs[k]['exc'][0].split(':')[0] + ']', k)
        if failure is not None:
            fc, clause, idx = c, failure[0], failure[1]
            ctx.idx = idx
            shape = (clause, features(c, idx))
            if shrink and n > 1 and shape not in SHRUNK:
                # shrink once per failure shape; further cases of the same shape add nothing
                fc, clause, idx = shrink_case(ctx, impl, c, failure)
                SHRUNK[shape] = True
            elif shrink and n > 1:
                ctx.count('violations_same_shape_not_reshrunk', shape[0])
                fc = None
            if fc is not None:
                ctx.violate(fc, f'{clause}({features(fc, idx)})',
                            f'response {idx} on the connection: {clause}; requests: '
                            + '; '.join(f"{r['method']} HTTP/{r['ver']} conn={r.get('conn')} "
                                        f"status={r.get('status')} body={r['body']['kind']}" for r in fc['reqs']))
        # ---- bookkeeping
        for i, rq in enumerate(c['reqs']):
            if i < len(obs):
                ctx.count('method', rq['method'])
                ctx.count('version', rq['ver'])
                ctx.count('connection_header', rq.get('conn') or 'absent')
                ctx.count('body_kind', rq['body']['kind'])
                ctx.count('status', expects[i]['status'])
                ln = len(expects[i]['body'])
                ctx.count('body_size', '0' if ln == 0 else '1-99' if ln < 100 else '100-4095' if ln < 4096
                          else '4096-4097' if ln <= 4097 else '4098-65535' if ln < 65536 else '>=65536')
                w0 = obs[i]['acts'][0][1] if obs[i]['acts'] and obs[i]['acts'][0][0] == 'w' else b''
                ctx.count('delimiter', 'chunked' if b'Transfer-Encoding: chunked' in w0 else
                          'content-length' if b'Content-Length:' in w0 else
                          'close' if obs[i]['closed'] else 'none(bodyless)')
        ctx.count('requests_per_connection', len(obs))
        ctx.count('connection_end', 'closed' if closed else 'kept-open')
        ctx.case(c, nontrivial=True, validated=ok)


def violates(ctx, impl, case):
    """(clause, idx) or None - C only, for shrinking"""
    class _Probe:
        def __init__(self):
            self.v = []
            self.driver = ctx.driver

        def violate(self, case, sig, what):
            self.v.append((sig.split('(')[0], self.idx))

        def disagree(self, *a):
            pass

        def count(self, *a, **k):
            pass

        def case(self, *a, **k):
            pass
    p = _Probe()
    evaluate(p, impl, [case], shrink=False)
    if p.v:
        return p.v[0]
    return None


def shrink_case(ctx, impl, case, failure):
    """smallest sub-connection that still violates: single requests first, then adjacent pairs"""
    clause, idx = failure
    reqs = case['reqs']
    idx = min(idx, len(reqs) - 1)
    cands = [([reqs[k]], 0) for k in range(idx + 1)]
    cands += [([reqs[k], reqs[k + 1]], 1) for k in range(idx)]
    for rs, k in cands:
        if len(rs) >= len(reqs):
            continue
        cand = {'kind': 'conn', 'reqs': rs}
        got = violates(ctx, impl, cand)
        if got is not None:
            return cand, got[0], got[1]
    return case, clause, idx


# ---------------------------------------------------------------------------------------
# generators
# ---------------------------------------------------------------------------------------

def S(t):
    return ['s', t]


def Bt(b):
    return ['b', b.hex()]


def base_bodies():
    return [
        ('str-empty', {'kind': 'str', 'parts': []}),
        ('str', {'kind': 'str', 'parts': [S('héllo')]}),
        ('bytes', {'kind': 'bytes', 'parts': [Bt(b'\x00\xffbin\r\n0\r\n\r\n')]}),
        ('list', {'kind': 'list', 'parts': [S('a'), Bt(b'bc'), S(''), ['n'], S('€')]}),
        ('list-empty', {'kind': 'list', 'parts': []}),
        ('list-blank', {'kind': 'list', 'parts': [S(''), Bt(b'')]}),
        ('gen', {'kind': 'gen', 'parts': [S('a'), Bt(b'bc'), S(''), S('d')]}),
        ('gen-none', {'kind': 'gen', 'parts': []}),
        ('gen-blank', {'kind': 'gen', 'parts': [S(''), Bt(b'')]}),
        ('sgen', {'kind': 'sgen', 'parts': [S('a'), Bt(b'bc'), S(''), S('d')]}),
        ('sgen-first-empty', {'kind': 'sgen', 'parts': [S(''), S('a'), Bt(b''), Bt(b'b')]}),
        ('sgen-none', {'kind': 'sgen', 'parts': []}),
        ('sgen-blank', {'kind': 'sgen', 'parts': [S(''), S('')]}),
        ('file', {'kind': 'file', 'parts': [Bt(b'file contents\n')]}),
        ('file-empty', {'kind': 'file', 'parts': []}),
        ('httperror', {'kind': 'httperror', 'parts': []}),
    ]


SECOND = {'method': 'GET', 'ver': '1.1', 'conn': None, 'status': None,
          'body': {'kind': 'str', 'parts': [S('second')]}}


def product_cases():
    cases = []
    for method, ver, conn, (_bn, body), status in itertools.product(
            ['GET', 'HEAD'], ['1.1', '1.0'], [None, 'keep-alive', 'close'], base_bodies(), STATUSES):
        if body['kind'] == 'httperror' and status < 400:
            continue
        first = {'method': method, 'ver': ver, 'conn': conn, 'status': status, 'body': body}
        second = dict(SECOND, ver=ver, conn=conn)
        cases.append({'kind': 'conn', 'reqs': [first, second]})
    return cases


def sized_body(rng, kind, size):
    """a body of `size` bytes of the given kind, cut into parts where the kind has parts"""
    if kind in ('str', 'bytes', 'file'):
        if kind == 'str':
            return {'kind': kind, 'parts': [['rs', 'x', size]]}
        return {'kind': kind, 'parts': [['rb', '7a', size]]}
    parts = []
    left = size
    while left > 0:
        n = min(left, rng.choice([1, 2, 7, 4095, 4096, 4097, left]))
        parts.append(['rb', '61', n] if rng.random() < 0.5 else ['rs', 'b', n])
        left -= n
        if rng.random() < 0.3:
            parts.append(rng.choice([S(''), Bt(b'')]))
    if rng.random() < 0.3:
        parts.insert(0, S(''))
    return {'kind': kind, 'parts': parts}


def size_cases(ctx):
    rng = ctx.rng
    sizes = [1, 15, 16, 255, 256, 4095, 4096, 4097, 8192, 8193]
    if ctx.tier == 'thorough' or ctx.searching:
        sizes += [65535, 65536, 70 * 1024]
    else:
        sizes += [70 * 1024]
    cases = []
    for size in sizes:
        for kind in ['str', 'bytes', 'list', 'gen', 'sgen', 'file']:
            for ver in ['1.1', '1.0']:
                if size >= 65535 and ctx.tier == 'quick' and not (kind in ('sgen', 'file', 'gen') and ver == '1.1'):
                    continue
                first = {'method': rng.choice(['GET', 'GET', 'HEAD']), 'ver': ver,
                         'conn': rng.choice([None, 'keep-alive']), 'status': None,
                         'body': sized_body(rng, kind, size)}
                cases.append({'kind': 'conn', 'reqs': [first, dict(SECOND, ver=ver, conn=first['conn'])]})
    return cases


def random_request(rng, keepish=True):
    kind = rng.choice(['str', 'bytes', 'list', 'gen', 'sgen', 'file', 'gen', 'sgen', 'httperror'])
    ver = rng.choice(['1.1', '1.1', '1.0'])
    if keepish:
        conn = 'keep-alive' if ver == '1.0' and rng.random() < 0.85 else rng.choice([None, None, 'keep-alive', 'close'])
    else:
        conn = rng.choice([None, 'keep-alive', 'close'])
    status = rng.choice([None, None, None] + STATUSES)
    if kind == 'httperror':
        status = rng.choice([400, 404, 413, 500, 503])
        body = {'kind': 'httperror', 'parts': []}
    else:
        n = rng.randint(0, 5)
        parts = []
        for _ in range(n):
            r = rng.random()
            if r < 0.25:
                parts.append(rng.choice([S(''), Bt(b'')]))
            elif r < 0.3 and kind == 'list':
                parts.append(['n'])
            elif r < 0.65:
                parts.append(S(''.join(rng.choice('ab€\r\n0 ') for _ in range(rng.randint(1, 20)))))
            else:
                parts.append(Bt(bytes(rng.randrange(256) for _ in range(rng.randint(1, 20)))))
        if kind in ('str',):
            parts = [p if p[0] == 's' else S('z') for p in parts]
        if kind in ('bytes', 'file'):
            parts = [p if p[0] == 'b' else Bt(b'zz') for p in parts]
        body = {'kind': kind, 'parts': parts}
    rq = {'method': rng.choice(['GET', 'GET', 'HEAD']), 'ver': ver, 'conn': conn, 'status': status, 'body': body}
    if rng.random() < 0.2:
        rq['ctype'] = rng.choice(['text/plain', 'application/octet-stream'])
    return rq


def sequence_cases(ctx):
    rng = ctx.rng
    cases = []
    for _ in range(250 * ctx.scale):
        n = rng.randint(2, 4)
        cases.append({'kind': 'conn', 'reqs': [random_request(rng) for _ in range(n)]})
    return cases


def run(ctx):
    impl = Impl()
    ctx.param('SERVER_PROTOCOL == (1, 1)  (model: res.protocol = min(request version, 1.1))',
              tuple(impl.server_protocol) == (1, 1), repr(impl.server_protocol))
    ctx.param('BUFSIZE > 0  (file bodies are cut into BUFSIZE pieces by the harness as file_generator does)',
              isinstance(impl.bufsize, int) and impl.bufsize > 0, repr(impl.bufsize))
    ctx.rule = ('full product {GET,HEAD} x {1.1,1.0} x Connection{absent,keep-alive,close} x 16 body shapes '
                '(str/bytes/list/unsized iterable/streamed generator/file/httperror; empty, blank parts, first part '
                'empty) x 10 statuses, each followed by a second request on the same connection (exhaustive over '
                'that table); body sizes around 16/256/BUFSIZE/2*BUFSIZE and 70 KiB per kind and version; random '
                'sequences of 2-4 requests per connection; non-trivial = every case (each is a full exchange); '
                'distinct = distinct case')
    ctx.exhaustive = False
    ctx.trusted += ['http.client.HTTPResponse as second, independent reader',
                    'request line / Connection header -> (HEAD?, version, keep-alive) is computed by the harness '
                    '(parser.should_keep_alive is C13 territory) and cross-checked by the correspondence',
                    'str parts are utf-8 encoded by the harness (Response.encoding = utf-8)',
                    'wrappers.formatdate is replaced by a constant (Date header masked)']
    ctx.assumptions += ['the application does not set Content-Length / Transfer-Encoding / Connection itself',
                        'response.stream = True only together with an iterator body (as Body.__set__ and '
                        'wsgi.Gateway do); request cookies absent; generator handlers (coroutines) are C04/C06',
                        'the body iterator does not raise']
    groups = [ctx.corpus(), product_cases(), size_cases(ctx), sequence_cases(ctx)]
    for cases in groups:
        for i in range(0, len(cases), 200):
            evaluate(ctx, impl, cases[i:i + 200])
            if ctx.time_up():
                return


def search(ctx):
    run(ctx)


def replay(ctx, case):
    evaluate(ctx, Impl(), [case], shrink=False)

"""
C15 - Every HTTP response is a well-formed, self-delimiting message with exact body.

The real `HTTP` component is driven in-process (http15util.Rig): complete requests are fired as
`read(sock, bytes)` events, an application component answers them from a table with every body
shape (str, bytes, list, unsized iterable, streamed generator, file object, httperror; and str / bytes /
list with `response.stream = True` set by the handler - kinds sstr, sbytes, slist, slistb), and the
`write` / `close` events per connection are recorded.

A sized body (str / bytes / list) with the stream flag is, for the Lean model, the same `Body.sized` as
without the flag (model_body maps sstr/sbytes/slist/slistb to the model's existing kinds): the body is
complete, there is nothing to stream, it is delimited by Content-Length and written in one piece.

File-like results are not only regular files: kinds trickle / ragged / pipe are stream objects whose read(n)
legally returns fewer than n bytes before the end (only b'' is the end) - an object limiting every read to k
bytes, one with ragged limits below / at / above BUFSIZE, and a real kernel object (socket.makefile('rb',
buffering=0) of an AF_UNIX SOCK_SEQPACKET pair pre-filled by the harness, one message per read).  For the
Lean model they are a `Body.stream` whose parts are exactly the pieces read(BUFSIZE) returns until b''
(read_pieces computes them from the case alone).  With `clen` the handler announces Content-Length itself
(the tools.serve_file pattern); the model's Resp has no application-set framing header, so those connections
are judged by C only (histogram connections_not_compared_with_model).

 B  correspondence : per request, the recorded events (every write, every close, in order),
                     whether the `_clients` entry is gone and whether the connection was closed
                     == CV.HttpResp.serve (Lean model of prepare/_on_response/_on_stream/_clients)
 C  spec on impl   : (1) CV.HttpSpec.checkWire - an RFC 7230 response reader written in Lean,
                     independent of the model - must recover status, application headers and the
                     exact body of every response from the connection's bytes, find nothing left
                     over, and the close event must occur iff the last response announced it;
                     (2) the same with Python's http.client.HTTPResponse as the reader;
                     (0, judged first) own_request_check: on a connection that was kept alive the k-th response
                     (k >= 1) answers the k-th request - its status, and the k-th request's tag wherever a tag
                     is carried (X-Case of a handler answer, Location of the redirect the server makes for an
                     un-normalised target): signature wrong-response-for-request(keepalive).  Directed
                     sequences (keepalive_sequence_cases) mix ordinary requests with the ones the server
                     answers itself: un-normalised path -> 301, unknown path -> 404, HEAD, httperror events.
 P  handler-return paths (c15paths.py; cases of kind 'path'): the same results produced the way applications produce
                     them - a plain `request` handler returning the value; a Controller method through `expose` + the real
                     Dispatcher; a coroutine handler yielding the pieces; `v = yield self.call(e)` / `yield self.wait(e)`
                     and yielding the callee's result; `return self.fire(e)` (a Value filled in later, also by a callee that
                     is itself a coroutine and answers 1-3 ticks later); a Value holding a filled Value; nobody handling the
                     request; and the application raising NotFound / Forbidden / Unauthorized / Redirect / ValueError in the
                     handler, in the coroutine after its first yield, or in the callee - HTTP/1.1 and 1.0, with and without
                     keep-alive, each followed by a further request on the same connection.  The manager is ticked (tasks
                     and queue) until quiescent.  B: wire == CV.HttpResp.serve for "the application produced body B with
                     status S" (the `serve` op does not know the path); the decision code's inputs (request_success with
                     the shape of the value, request_value_changed, request_failure, exception) and outputs (httperror /
                     redirect / response events) recorded by a probe == CV.HttpResp.step folded over the observed inputs
                     (`pathstep`), and the observed inputs == CV.HttpResp.trace for the handler shape (`pathtrace`).
                     C: judged first: exactly one status line is written per request (no-response /
                     N-responses-for-one-request), then everything of C above; signatures end in `via=<path>`.
 E  end to end     : (spec on impl only, no model) a real circuits.web.Server with Controllers on a
                     loopback socket in a background thread, SO_SNDBUF 64 KiB so that send() is partial;
                     http.client.HTTPConnection sends GET/HEAD, HTTP/1.1 keep-alive sequences and
                     HTTP/1.0 / Connection: close requests for bodies of 0 B .. 2 MiB (8 MiB thorough) and
                     must recover status, X-Case header and body (length + sha256 of what the controller
                     produced); the connection must be closed iff the response announced it.  The same
                     per-request clause: every request has its own tag in the target; sequences on one
                     kept-alive connection mix body requests with un-normalised paths (redirect to the normal
                     form of THAT target, or its handler's answer), unknown paths (404), HEAD, and handlers
                     returning httperror / notfound / forbidden / redirect events:
                     e2e-wrong-response-for-request(keepalive).
"""
import hashlib
import http.client
import io
import itertools
import socket
import sys
import time
import urllib.parse

from framework import Infra, hx

import c15paths as paths  # noqa: E402  (after framework: it puts the code under test on sys.path)

FIXED_DATE = 'Thu, 01 Jan 2026 00:00:00 GMT'
BODYLESS = (204, 304)

STATUSES = [200, 201, 101, 204, 205, 304, 302, 404, 413, 500]


# ---------------------------------------------------------------------------------------
# case data
# ---------------------------------------------------------------------------------------
# part encodings (JSON-able):  ['s', text] | ['b', hex] | ['n'] | ['rs', text, count] | ['rb', hex, count]

def part_value(p):
    t = p[0]
    if t == 's':
        return p[1]
    if t == 'b':
        return bytes.fromhex(p[1])
    if t == 'n':
        return None
    if t == 'rs':
        return p[1] * p[2]
    if t == 'rb':
        return bytes.fromhex(p[1]) * p[2]
    raise ValueError(p)


def enc(v):
    return v.encode('utf-8') if isinstance(v, str) else v


def body_parts(body):
    return [part_value(p) for p in body['parts']]


def produced_bytes(body):
    whole = b''.join(enc(v) for v in body_parts(body) if v is not None)
    # kind 'file' with 'skip': the handler has already consumed the first `skip` bytes of the file object it returns (it
    # read a preamble, or the whole file): the body the application produced is what is left from the current position
    return whole[body.get('skip', 0):] if body.get('kind') == 'file' else whole


# response.stream = True set by the handler although the body is complete: 'sstr' / 'sbytes' / 'slist' return the
# value, 'slistb' assigns the list to response.body and returns the response.  For the model (and for the
# property) these are the same sized Body as without the flag: Content-Length, written in one piece.
SIZED_STREAM_FLAG = {'sstr': 'str', 'sbytes': 'bytes', 'slist': 'list', 'slistb': 'list'}


# File-like results whose read(n) legally returns fewer than n bytes before the end of the data (only b'' is
# the end): body = {'kind': 'trickle' | 'ragged' | 'pipe', 'parts': <data>, 'limits': [k, ...], 'clen': bool}
#   trickle  limits = [k]: every read returns at most k bytes
#   ragged   the i-th read returns at most limits[i mod len] bytes (limits below, equal to and above BUFSIZE)
#   pipe     a real kernel object: socket.makefile('rb', buffering=0) of an AF_UNIX SOCK_SEQPACKET pair filled
#            by the harness with messages of limits[i mod len] (<= BUFSIZE) bytes; one message per read
#   clen     the handler announces Content-Length itself (the tools.serve_file pattern)
# Model: a `stream` Body whose parts are exactly the pieces read(BUFSIZE) returns until it returns b''.
FILE_LIKE = ('trickle', 'ragged', 'pipe')
PIPE_MAX_MESSAGES = 256
MAX_READS = 600


def read_pieces(body, bufsize):
    """the successive results of read(bufsize), computed from the case alone"""
    data = produced_bytes(body)
    limits = [max(1, int(x)) for x in body['limits']] or [1]
    pieces, pos, i = [], 0, 0
    while pos < len(data):
        m = min(limits[i % len(limits)], bufsize, len(data) - pos)
        pieces.append(data[pos:pos + m])
        pos += m
        i += 1
    return pieces


def announces_length(rq):
    return bool(rq['body'].get('clen')) and not rq.get('via')


def model_body(body, bufsize):
    """(kind, parts) as Response.body / Response.stream are when prepare() runs"""
    kind = SIZED_STREAM_FLAG.get(body['kind'], body['kind'])   # the stream flag does not change a sized Body
    if kind in FILE_LIKE:
        return 'stream', read_pieces(body, bufsize)
    vals = [enc(v) for v in body_parts(body) if v is not None]
    if kind in ('str', 'bytes'):
        whole = b''.join(vals)
        return 'sized', ([whole] if whole else [])
    if kind == 'list':
        return 'sized', vals
    if kind == 'gen':
        return 'iter', vals
    if kind == 'sgen':
        return 'stream', vals
    if kind == 'file':
        whole = b''.join(vals)[body.get('skip', 0):]
        return 'stream', [whole[i:i + bufsize] for i in range(0, len(whole), bufsize)]
    raise ValueError(kind)


def request_bytes(rq, path):
    s = f"{rq['method']} {path} HTTP/{rq['ver']}\r\nHost: x\r\n"
    if rq.get('conn'):
        s += f"Connection: {rq['conn']}\r\n"
    return (s + '\r\n').encode()


# rq['via'] (in-process cases): how the request reaches an answer that the server makes itself
#   'dotdot' | 'dot'  the target is an un-normalised spelling of the handler's path /c<i>: HTTP._on_read's path
#                     guard answers 301 with Location = the normal form (no handler runs)
#   'unknown'         no handler serves the target: 404
# absent / None: the application's handler answers (rq['body']; kind 'httperror' = it returns an httperror event)
VIA_TARGET = {'dotdot': '/x/../c{i}', 'dot': '/./c{i}', 'unknown': '/nosuch{i}'}
VIA_STATUS = {'dotdot': 301, 'dot': 301, 'unknown': 404}


def request_target(rq, i):
    if rq.get('path'):                      # handler-return paths (c15paths)
        return paths.target(rq, i)
    return VIA_TARGET.get(rq.get('via'), '/c{i}').format(i=i)


def expected_status(rq):
    if rq.get('via'):
        return VIA_STATUS[rq['via']]
    if rq.get('exc'):                       # the application raised: the status of the three-way choice
        return paths.exc_status(rq)
    if rq.get('path') == 'nobody':
        return 404
    return rq.get('status') or (500 if rq['body']['kind'] == 'httperror' else 200)


def expected_location(rq, i):
    """the only Location a response to request i may carry (request_bytes sends `Host: x`)"""
    if (rq.get('exc') or {}).get('cls') == 'Redirect':
        return 'http://x' + paths.redirect_target(i)
    return f'http://x/c{i}' if rq.get('via') in ('dotdot', 'dot') else None


def keep_alive(rq):
    c = (rq.get('conn') or '').lower()
    if c == 'close':
        return False
    if c == 'keep-alive':
        return True
    return rq['ver'] == '1.1'


# ---------------------------------------------------------------------------------------
# implementation
# ---------------------------------------------------------------------------------------

class Impl:
    def __init__(self):
        import circuits.web.wrappers as wrappers
        from circuits.net.sockets import BUFSIZE
        from circuits.web.constants import HTTP_STATUS_CODES, SERVER_PROTOCOL
        wrappers.formatdate = lambda *a, **k: FIXED_DATE       # mask the clock
        self.bufsize = BUFSIZE
        self.reasons = HTTP_STATUS_CODES
        self.server_protocol = SERVER_PROTOCOL
        self.rig = None

    def new_rig(self):
        from http15util import Rig
        self.rig = Rig()

    def run_conn(self, case):
        """-> list of per-request observations:
              dict(acts=[('w', bytes)|('c',)], stale=bool, closed=bool, produced=bytes|None, exc=[...])"""
        from http15util import make_body  # noqa: F401  (import check)
        if case.get('kind') == 'path':
            return paths.run_conn(self, case, body_parts, request_bytes)
        if self.rig is None:
            self.new_rig()
        rig = self.rig
        tok = rig.tok()
        out = []
        closed = False
        for i, rq in enumerate(case['reqs']):
            if closed:
                break
            path = f'/c{i}'
            spec = {'status': rq.get('status'), 'tag': f't{i}', 'ctype': rq.get('ctype')}
            b = rq['body']
            if b['kind'] == 'httperror':
                spec['body'] = {'kind': 'httperror', 'parts': []}
                spec['status'] = rq.get('status') or 500
            else:
                spec['body'] = {'kind': b['kind'], 'parts': body_parts(b)}
                if b.get('skip'):
                    spec['body']['skip'] = b['skip']
                if b['kind'] in FILE_LIKE:
                    spec['body']['limits'] = list(b['limits'])
                    spec['body']['clen'] = len(produced_bytes(b)) if b.get('clen') else None
            rig.app.table = {path: spec}
            rig.app.produced = {}
            before = len(rig.wire(tok))
            nerr = len(rig.srv.errors)
            npages = len(rig.srv.errpages)
            try:
                rig.feed(tok, request_bytes(rq, request_target(rq, i)))
            except RuntimeError as e:       # queue never drains: the rig is unusable afterwards
                self.rig = None
                out.append({'acts': list(rig.wire(tok)[before:]), 'stale': True, 'closed': closed,
                            'produced': None, 'exc': [f'no-quiescence: {e}']})
                break
            acts = list(rig.wire(tok)[before:])
            closed = any(a[0] == 'c' for a in rig.wire(tok))
            produced = rig.app.produced.get(path)
            if rq.get('via'):        # the page the server made for this request (none: a handler answered)
                pages = rig.srv.errpages[npages:]
                produced = pages[-1] if pages else None
            out.append({'acts': acts, 'stale': rig.clients(tok), 'closed': closed,
                        'produced': produced, 'exc': rig.srv.errors[nerr:]})
        rig.app.close_opened()
        rig.srv.wire.pop(tok, None)
        rig.srv.http._clients.pop(tok, None)
        rig.srv.http._buffers.pop(tok, None)
        del rig.srv.errors[:]
        del rig.srv.errpages[:]
        return out


# ---------------------------------------------------------------------------------------
# independent client: http.client.HTTPResponse over the captured bytes
# ---------------------------------------------------------------------------------------

class _Sock:
    def __init__(self, fp):
        self.fp = fp

    def makefile(self, *a, **k):
        return self.fp


class _NoClose(io.BytesIO):
    def close(self):   # HTTPResponse closes its fp after each message; keep reading from it
        pass


def client_check(wire, closed, expects):
    """-> None or (clause, index) - the property as http.client sees it"""
    fp = _NoClose(wire)
    for i, e in enumerate(expects):
        if e['status'] == 100:
            return None        # http.client swallows '100 Continue' as an interim response
        r = http.client.HTTPResponse(_Sock(fp), method='HEAD' if e['head'] else 'GET')
        try:
            r.begin()
            will_close = r.will_close
            body = r.read()
        except (http.client.HTTPException, ValueError, OSError) as ex:
            return (f'client-undecodable[{type(ex).__name__}]', i)
        if r.status != e['status']:
            return ('client-status-mismatch', i)
        for n, v in e['hdrs']:
            if r.getheader(n) != v:
                return ('client-header-lost', i)
        nobody = e['head'] or e['status'] < 200 or e['status'] in BODYLESS
        if body != (b'' if nobody else e['body']):
            return ('client-body-mismatch', i)
        if will_close:
            if fp.tell() != len(wire):
                return ('client-bytes-after-closing-response', i)
            if not closed:
                return ('client-close-announced-not-closed', i)
            return None
    if fp.tell() != len(wire):
        return ('client-trailing-bytes', len(expects))
    if closed:
        return ('client-close-not-announced', len(expects))
    return None


_OWN_DETAIL = ['']      # text for the report: set by the latest failing own_request_check


def own_request_check(wire, reqs, expects):
    """'on a kept-alive connection each further request is answered correctly after the previous response':
       the k-th response (k >= 1, so every response before it left the connection open) must be an answer to
       the k-th request - its status, and the k-th request's tag wherever a tag is carried (X-Case of a handler
       answer, Location of a redirect made for the request target).  Framing is not judged here: a response
       that cannot be read is left to the readers below.  -> None or (clause, k)"""
    fp = _NoClose(wire)
    for k, (rq, e) in enumerate(zip(reqs, expects)):
        if fp.tell() >= len(wire) or e['status'] == 100:
            return None
        r = http.client.HTTPResponse(_Sock(fp), method='HEAD' if e['head'] else 'GET')
        try:
            r.begin()
        except (http.client.HTTPException, ValueError, OSError):
            return None
        xcase, location = r.getheader('X-Case'), r.getheader('Location')
        own = (r.status == e['status'] and xcase in (None, f't{k}')
               and location in (None, expected_location(rq, k)))
        if not own:
            # the first response of a connection is judged by the readers (status-mismatch, header-lost)
            _OWN_DETAIL[0] = (f"request {k} ({rq['method']} {request_target(rq, k)}) expects status {e['status']}"
                              + (f", Location {expected_location(rq, k)}" if expected_location(rq, k) else '')
                              + ('' if rq.get('via') else f", X-Case t{k}")
                              + f"; the response at that position has status {r.status}, X-Case {xcase}, "
                              f"Location {location}")
            return ('wrong-response-for-request', k) if k > 0 else None
        try:
            r.read()
        except (http.client.HTTPException, ValueError, OSError):
            return None
        if r.will_close:
            return None
    return None


# ---------------------------------------------------------------------------------------
# evaluation
# ---------------------------------------------------------------------------------------

def act_tokens(acts):
    return ' '.join('c' if a[0] == 'c' else 'w:' + hx(a[1]) for a in acts)


def hdr_tok(n, v):
    return f'{hx(n.encode())}={hx(v.encode())}'


KIND_CLASS = {'str': 'sized', 'bytes': 'sized', 'list': 'sized', 'httperror': 'sized',
              'gen': 'iterable', 'sgen': 'stream', 'file': 'stream',
              'sstr': 'sized+stream-flag', 'sbytes': 'sized+stream-flag', 'slist': 'sized+stream-flag',
              'slistb': 'sized+stream-flag',
              'trickle': 'file-like(short reads)', 'ragged': 'file-like(short reads)',
              'pipe': 'file-like(short reads)'}


def features(case, idx):
    """deterministic classifier input: what kind of exchange is the (minimised) failing one"""
    reqs = case['reqs']
    idx = min(idx, len(reqs) - 1)
    rq = reqs[idx]
    st = expected_status(rq)
    tags = [rq['method']]
    if rq.get('via'):
        tags.append('no-handler' if rq['via'] == 'unknown' else 'path-guard')
        if idx > 0:
            tags.append('after-' + reqs[idx - 1]['method'])
        return ','.join(tags)
    if rq.get('path'):
        return ','.join(tags + path_features(case, idx))
    if st < 200:
        tags.append('1xx')
    elif st in (204, 205, 304, 413):
        tags.append(str(st))
    tags.append(KIND_CLASS[rq['body']['kind']])
    if announces_length(rq):
        tags.append('length-announced')
    if rq['body']['kind'] != 'httperror':
        vals = [v for v in body_parts(rq['body']) if v is not None]
        if not b''.join(enc(v) for v in vals):
            tags.append('empty-body')
        elif vals and not vals[0]:
            tags.append('first-part-empty')
    if idx > 0:
        tags.append('after-' + reqs[idx - 1]['method'])
    return ','.join(tags)


def path_features(case, idx):
    """classifier input for a handler-return-path exchange: result kind, what is raised where, the path"""
    rq = case['reqs'][idx]
    tags = []
    if rq.get('exc'):      # exception classes as the three-way choice of the decision code groups them
        group = {'Redirect': 'Redirect', 'ValueError': 'Exception'}.get(rq['exc']['cls'], 'HTTPException')
        tags.append(f"raises={group}@{rq['exc']['at']}")
    elif rq['path'] == 'nobody':
        tags.append('no-handler')
    else:
        st = expected_status(rq)
        if st < 200:
            tags.append('1xx')
        elif st in (204, 205, 304, 413):
            tags.append(str(st))
        tags.append(KIND_CLASS[rq['body']['kind']])
    if idx > 0:
        tags.append('after-' + case['reqs'][idx - 1]['method'])
    tags.append('via=' + paths.path_token(rq))
    return tags


SHRUNK = {}


def evaluate(ctx, impl, cases, shrink=True):
    ops, obs_all, exp_all = [], [], []
    for c in cases:
        obs = impl.run_conn(c)
        expects = []
        o = []
        for i, rq in enumerate(c['reqs']):
            b = rq['body']
            status = expected_status(rq)
            if rq.get('path'):
                b = paths.effective_body(rq)
            if b['kind'] == 'httperror' or rq.get('via') or rq.get('exc') or rq.get('path') == 'nobody':
                prod = obs[i]['produced'] if i < len(obs) else None
                body = prod if prod is not None else b''
                mk, mparts, force = 'sized', ([body] if body else []), True
            else:
                body = produced_bytes(b)
                mk, mparts = model_body(b, impl.bufsize)
                force = False
            if rq.get('via') in ('dotdot', 'dot'):    # redirect(): Content-Type, then Location
                hdrs = [('Content-Type', 'text/html'), ('Location', expected_location(rq, i))]
            elif rq.get('via') or rq.get('path') == 'nobody':
                hdrs = []
            elif (rq.get('exc') or {}).get('cls') == 'Redirect':   # handler's X-Case, then redirect(): Content-Type, Location
                hdrs = [('X-Case', f't{i}'), ('Content-Type', 'text/html'), ('Location', expected_location(rq, i))]
            else:
                hdrs = [('X-Case', f't{i}')] + ([('Content-Type', rq['ctype'])] if rq.get('ctype') else [])
            expects.append({'head': rq['method'] == 'HEAD', 'status': status, 'body': body, 'hdrs': hdrs})
            reason = impl.reasons.get(status, '')
            o.append('serve {} {} {} {} {} {} {} {} | {}'.format(
                int(rq['method'] == 'HEAD'), int(rq['ver'] == '1.1'), int(keep_alive(rq)), status,
                hx(reason.encode('latin1')), int(force), mk,
                ' '.join([hdr_tok('Date', FIXED_DATE)] + [hdr_tok(n, v) for n, v in hdrs]),
                ' '.join(hx(p) for p in mparts)))
        # spec on the implementation's own output
        flat = [a for ob in obs for a in ob['acts']]
        first_close = next((k for k, a in enumerate(flat) if a[0] == 'c'), None)
        wire = b''.join(a[1] for a in (flat if first_close is None else flat[:first_close]))
        after = first_close is not None and len(flat) > first_close + 1
        o.append('spec {} {} {} | {}'.format(
            int(first_close is not None), int(after), hx(wire),
            ' '.join('{}:{}:{}:{}'.format(int(e['head']), e['status'], hx(e['body']),
                                          ','.join(hdr_tok(n, v) for n, v in e['hdrs']) or '-')
                     for e in expects)))
        if c.get('kind') == 'path':      # the decision code on the observed events; the events the model expects
            for i, rq in enumerate(c['reqs']):
                o.append('pathstep ' + ' '.join(obs[i]['inputs'] if i < len(obs) else []))
                o.append('pathtrace {} {} {}'.format(paths.path_token(rq), paths.kind_token(rq), paths.stage_token(rq)))
        ops.append(o)
        obs_all.append((obs, wire, first_close is not None, after))
        exp_all.append(expects)
    answers = ctx.driver.batch('httpresp', ops)
    for c, (obs, wire, closed, after), expects, ans in zip(cases, obs_all, exp_all, answers):
        ok = True
        n = len(c['reqs'])
        # ---- B: correspondence, request by request
        # (a Content-Length announced by the handler for a stream body is outside the model - its Resp has no
        #  application-set framing headers: such connections are judged by C only)
        modelled = not any(announces_length(rq) for rq in c['reqs'])
        if not modelled:
            ctx.count('connections_not_compared_with_model', 'handler announces Content-Length (spec on impl only)')
        for i in range(n if modelled else 0):
            a = ans[i]
            if a == 'bad-op':
                ok = False
                ctx.disagree(c, {'where': 'httpresp.serve', 'request': i, 'impl': 'n/a', 'model': 'bad-op'})
                break
            if i < len(obs):
                want = f"{act_tokens(obs[i]['acts'])} | stale={int(obs[i]['stale'])} closed={int(obs[i]['closed'])}"
            else:
                want = None   # not sent: the connection was closed; the model must be closed as well
            if want is None:
                if not a.strip().endswith('closed=1') or a.split('|')[0].strip():
                    ok = False
                    ctx.disagree(c, {'where': 'httpresp.serve', 'request': i, 'impl': 'connection closed before',
                                     'model': a[:300]})
                    break
                continue
            if a.strip() != want.strip():
                ok = False
                ctx.disagree(c, {'where': 'httpresp.serve', 'request': i, 'features': features(c, i),
                                 'impl': want[-400:], 'model': a[-400:], 'exc': obs[i]['exc'][:2]})
                break
        if c.get('kind') == 'path':
            for i in range(min(n, len(obs))):
                ok = paths.compare_events(ctx, c, i, obs[i], ans[n + 1 + 2 * i], ans[n + 2 + 2 * i],
                                          features(c, i)) and ok
        # ---- C: spec on impl (Lean reader, then http.client)
        failure = (paths.one_response_check(obs) if c.get('kind') == 'path' else None) \
            or own_request_check(wire, c['reqs'], expects)
        sp = ans[n]
        if sp.startswith('fail'):
            _f, clause, idx = sp.split()
            if failure is None:
                failure = (clause, int(idx))
        elif sp != 'ok':
            ctx.disagree(c, {'where': 'httpresp.spec', 'impl': 'n/a', 'model': sp})
        if failure is None and not after:
            failure = client_check(wire, closed, expects)
        if failure is None and any(ob['exc'] for ob in obs):
            k = next(k for k, ob in enumerate(obs) if ob['exc'])
            failure = ('exception[' + obs[k]['exc'][0].split(':')[0] + ']', k)
        if failure is not None:
            fc, clause, idx = c, failure[0], failure[1]
            ctx.idx = idx
            shape = (clause, features(c, idx))
            if shrink and n > 1 and shape not in SHRUNK:
                # shrink once per failure shape; further cases of the same shape add nothing
                fc, clause, idx = shrink_case(ctx, impl, c, failure)
                SHRUNK[shape] = True
            elif shrink and n > 1:
                ctx.count('violations_same_shape_not_reshrunk', shape[0])
                fc = None
            if fc is not None:
                if clause == 'wrong-response-for-request':
                    sig = f'{clause}(keepalive)'
                    clause += (' (kept-alive connection: the response is not an answer to the request at this '
                               f'position: {_OWN_DETAIL[0]}; exchange: {features(fc, idx)})')
                else:
                    sig = f'{clause}({features(fc, idx)})'
                ctx.violate(fc, sig,
                            f'response {idx} on the connection: {clause}; requests: '
                            + '; '.join(f"{r['method']} {request_target(r, k)} HTTP/{r['ver']} conn={r.get('conn')} "
                                        f"status={r.get('status')} body={r['body']['kind']}"
                                        + (f" path={paths.path_token(r)}"
                                           + (f" raises {r['exc']['cls']} at {r['exc']['at']}" if r.get('exc') else '')
                                           if r.get('path') else '')
                                        + (f"(read limits {r['body']['limits']}"
                                           f"{', Content-Length announced' if r['body'].get('clen') else ''})"
                                           if r['body']['kind'] in FILE_LIKE else '')
                                        for k, r in enumerate(fc['reqs'])))
        # ---- bookkeeping
        for i, rq in enumerate(c['reqs']):
            if i < len(obs):
                ctx.count('method', rq['method'])
                ctx.count('version', rq['ver'])
                ctx.count('connection_header', rq.get('conn') or 'absent')
                if rq.get('path'):
                    paths.count_request(ctx, rq, obs[i])
                ctx.count('body_kind', rq['body']['kind'] if not rq.get('via') else 'server page (' + rq['via'] + ')')
                ctx.count('answered_by', {None: 'handler', 'dotdot': 'server: path guard 301 (/x/../c)',
                                          'dot': 'server: path guard 301 (/./c)',
                                          'unknown': 'server: no handler 404'}[rq.get('via')]
                          if rq['body']['kind'] != 'httperror' or rq.get('via') else 'handler returns httperror') \
                    if not rq.get('path') else ctx.count('answered_by', 'handler-return path: ' + paths.path_token(rq))
                if rq['body']['kind'] in FILE_LIKE and not rq.get('via'):
                    sizes = [len(p) for p in read_pieces(rq['body'], impl.bufsize)]
                    ctx.count('file_like_reads', rq['body']['kind'] + ': ' + (
                        'no data' if not sizes else
                        'short read before the end' if any(x < impl.bufsize for x in sizes[:-1]) else
                        'one read' if len(sizes) == 1 else 'only full reads before the end'))
                    ctx.count('file_like_length_announced', 'by the handler' if announces_length(rq) else 'no')
                ctx.count('status', expects[i]['status'])
                ln = len(expects[i]['body'])
                ctx.count('body_size', '0' if ln == 0 else '1-99' if ln < 100 else '100-4095' if ln < 4096
                          else '4096-4097' if ln <= 4097 else '4098-65535' if ln < 65536 else '>=65536')
                w0 = obs[i]['acts'][0][1] if obs[i]['acts'] and obs[i]['acts'][0][0] == 'w' else b''
                ctx.count('delimiter', 'chunked' if b'Transfer-Encoding: chunked' in w0 else
                          'content-length' if b'Content-Length:' in w0 else
                          'close' if obs[i]['closed'] else 'none(bodyless)')
        ctx.count('requests_per_connection', len(obs))
        ctx.count('connection_end', 'closed' if closed else 'kept-open')
        ctx.case(c, nontrivial=True, validated=ok and modelled)


def violates(ctx, impl, case):
    """(clause, idx) or None - C only, for shrinking"""
    class _Probe:
        def __init__(self):
            self.v = []
            self.driver = ctx.driver

        def violate(self, case, sig, what):
            self.v.append((sig.split('(')[0], self.idx))

        def disagree(self, *a):
            pass

        def count(self, *a, **k):
            pass

        def case(self, *a, **k):
            pass
    p = _Probe()
    evaluate(p, impl, [case], shrink=False)
    if p.v:
        return p.v[0]
    return None


def shrink_case(ctx, impl, case, failure):
    """smallest sub-connection that still violates: single requests first, then adjacent pairs"""
    clause, idx = failure
    reqs = case['reqs']
    idx = min(idx, len(reqs) - 1)
    cands = [([reqs[k]], 0) for k in range(idx + 1)]
    cands += [([reqs[k], reqs[k + 1]], 1) for k in range(idx)]
    for rs, k in cands:
        if len(rs) >= len(reqs):
            continue
        cand = {'kind': case.get('kind', 'conn'), 'reqs': rs}
        got = violates(ctx, impl, cand)
        if got is not None:
            return cand, got[0], got[1]
    return case, clause, idx


# ---------------------------------------------------------------------------------------
# generators
# ---------------------------------------------------------------------------------------

def S(t):
    return ['s', t]


def Bt(b):
    return ['b', b.hex()]


def base_bodies():
    return [
        ('str-empty', {'kind': 'str', 'parts': []}),
        ('str', {'kind': 'str', 'parts': [S('héllo')]}),
        ('bytes', {'kind': 'bytes', 'parts': [Bt(b'\x00\xffbin\r\n0\r\n\r\n')]}),
        ('list', {'kind': 'list', 'parts': [S('a'), Bt(b'bc'), S(''), ['n'], S('€')]}),
        ('list-empty', {'kind': 'list', 'parts': []}),
        ('list-blank', {'kind': 'list', 'parts': [S(''), Bt(b'')]}),
        ('gen', {'kind': 'gen', 'parts': [S('a'), Bt(b'bc'), S(''), S('d')]}),
        ('gen-none', {'kind': 'gen', 'parts': []}),
        ('gen-blank', {'kind': 'gen', 'parts': [S(''), Bt(b'')]}),
        ('sgen', {'kind': 'sgen', 'parts': [S('a'), Bt(b'bc'), S(''), S('d')]}),
        ('sgen-first-empty', {'kind': 'sgen', 'parts': [S(''), S('a'), Bt(b''), Bt(b'b')]}),
        ('sgen-none', {'kind': 'sgen', 'parts': []}),
        ('sgen-blank', {'kind': 'sgen', 'parts': [S(''), S('')]}),
        ('file', {'kind': 'file', 'parts': [Bt(b'file contents\n')]}),
        ('file-empty', {'kind': 'file', 'parts': []}),
        ('file-behind-preamble', {'kind': 'file', 'parts': [Bt(b'#preamble\nfile contents\n')], 'skip': 10}),
        ('file-consumed', {'kind': 'file', 'parts': [Bt(b'file contents\n')], 'skip': 14}),
        ('httperror', {'kind': 'httperror', 'parts': []}),
        # stream flag + complete body
        ('sstr', {'kind': 'sstr', 'parts': [S('héllo')]}),
        ('sstr-empty', {'kind': 'sstr', 'parts': []}),
        ('sbytes', {'kind': 'sbytes', 'parts': [Bt(b'\x00\xffbin\r\n0\r\n\r\n')]}),
        ('sbytes-empty', {'kind': 'sbytes', 'parts': []}),
        ('slist', {'kind': 'slist', 'parts': [S('a'), Bt(b'bc'), S(''), ['n'], S('€')]}),
        ('slist-empty', {'kind': 'slist', 'parts': []}),
        ('slist-blank', {'kind': 'slist', 'parts': [S(''), Bt(b'')]}),
        ('slistb', {'kind': 'slistb', 'parts': [S('a'), Bt(b'bc'), S(''), S('d')]}),
        ('slistb-first-empty', {'kind': 'slistb', 'parts': [S(''), S('a'), Bt(b'b')]}),
        ('slistb-empty', {'kind': 'slistb', 'parts': []}),
        ('slistb-blank', {'kind': 'slistb', 'parts': [S(''), S('')]}),
        # file-like objects with short reads
        ('trickle-1', {'kind': 'trickle', 'parts': [Bt(b'file contents\n')], 'limits': [1]}),
        ('ragged', {'kind': 'ragged', 'parts': [Bt(b'file \r\n0\r\n\r\ncontents\n')], 'limits': [3, 1, 4096, 2]}),
        ('pipe', {'kind': 'pipe', 'parts': [Bt(b'file contents\n')], 'limits': [5, 4]}),
        ('pipe-empty', {'kind': 'pipe', 'parts': [], 'limits': [5]}),
    ]


SECOND = {'method': 'GET', 'ver': '1.1', 'conn': None, 'status': None,
          'body': {'kind': 'str', 'parts': [S('second')]}}


def product_cases():
    cases = []
    for method, ver, conn, (_bn, body), status in itertools.product(
            ['GET', 'HEAD'], ['1.1', '1.0'], [None, 'keep-alive', 'close'], base_bodies(), STATUSES):
        if body['kind'] == 'httperror' and status < 400:
            continue
        first = {'method': method, 'ver': ver, 'conn': conn, 'status': status, 'body': body}
        second = dict(SECOND, ver=ver, conn=conn)
        cases.append({'kind': 'conn', 'reqs': [first, second]})
    return cases


def sized_body(rng, kind, size):
    """a body of `size` bytes of the given kind, cut into parts where the kind has parts"""
    if kind in FILE_LIKE:
        return file_like_body(rng, kind, size, rng.random() < 0.3)
    if kind in ('str', 'bytes', 'file', 'sstr', 'sbytes'):
        if kind in ('str', 'sstr'):
            return {'kind': kind, 'parts': [['rs', 'x', size]]}
        b = {'kind': kind, 'parts': [['rb', '7a', size]]}
        if kind == 'file' and size and rng.random() < 0.35:
            b['skip'] = rng.choice([1, size // 2, size - 1, size])     # the file object is handed over part-read
        return b
    parts = []
    left = size
    while left > 0:
        n = min(left, rng.choice([1, 2, 7, 4095, 4096, 4097, left]))
        parts.append(['rb', '61', n] if rng.random() < 0.5 else ['rs', 'b', n])
        left -= n
        if rng.random() < 0.3:
            parts.append(rng.choice([S(''), Bt(b'')]))
    if rng.random() < 0.3:
        parts.insert(0, S(''))
    return {'kind': kind, 'parts': parts}


def file_like_body(rng, kind, size, clen=False, limits=None):
    """a file-like body of `size` position dependent bytes; without `limits`: random read limits"""
    if limits is None:
        if kind == 'trickle':
            limits = [rng.choice([1, 7, 1000, 2048, 4095])]
        elif kind == 'ragged':
            limits = [rng.choice([1, 2, 7, 100, 1000, 4095, 4096, 4097, 5000, 9000]) for _ in range(rng.randint(2, 6))]
        else:
            limits = [rng.choice([1, 7, 1000, 4095, 4096]) for _ in range(rng.randint(1, 4))]
    parts = [Bt(bytes((i * 7 + (i >> 8)) % 251 for i in range(size)))] if size <= 10000 else \
        [Bt(bytes(i % 251 for i in range(4099))), ['rb', '7a', size - 4099]]
    body = {'kind': kind, 'parts': parts if size else [], 'limits': list(limits)}
    # keep the number of reads moderate: every piece is a stream + a write event in the rig, and the messages
    # of a pipe must fit into the socket buffer
    while len(read_pieces(body, 4096)) > (PIPE_MAX_MESSAGES if kind == 'pipe' else MAX_READS):
        body['limits'] = [x * 4 for x in body['limits']]
    if clen:
        body['clen'] = True
    return body


def short_read_cases(ctx):
    """directed: file-like results with short reads - sizes 0, 1, below / at / just above BUFSIZE, several
       chunks - x reader (trickle k in {1, 7, 1000, 4095}, ragged, real SEQPACKET pipe) x HTTP/1.1 and 1.0 x
       with and without a Content-Length announced by the handler x GET (and HEAD), followed by a second
       request on the same connection"""
    rng = ctx.rng
    cases = []
    readers = [('trickle', [1]), ('trickle', [7]), ('trickle', [1000]), ('trickle', [4095]),
               ('ragged', None), ('ragged', [1000, 4096, 10, 3000, 5000]), ('pipe', None), ('pipe', [4096, 1, 4095])]
    for size in [0, 1, 1000, 4095, 4096, 4097, 8192, 10000, 3 * 4096 + 5]:
        for ri, (kind, limits) in enumerate(readers):
            if limits in ([1], [7]) and size > (1000 if limits == [1] else 4097):
                continue
            for vi, (ver, conn) in enumerate([('1.1', None), ('1.0', 'keep-alive'), ('1.0', None)]):
                for clen in (False, True):
                    method = 'HEAD' if (ri + vi + size) % 5 == 0 else 'GET'
                    first = {'method': method, 'ver': ver, 'conn': conn, 'status': None,
                             'body': file_like_body(rng, kind, size, clen, limits)}
                    cases.append({'kind': 'conn', 'reqs': [first, dict(SECOND, ver=ver, conn=conn)]})
    return cases


def size_cases(ctx):
    rng = ctx.rng
    sizes = [1, 15, 16, 255, 256, 4095, 4096, 4097, 8192, 8193]
    if ctx.tier == 'thorough' or ctx.searching:
        sizes += [65535, 65536, 70 * 1024]
    else:
        sizes += [70 * 1024]
    cases = []
    for size in sizes:
        for kind in ['str', 'bytes', 'list', 'gen', 'sgen', 'file', 'sstr', 'sbytes', 'slist', 'slistb',
                     'trickle', 'ragged', 'pipe']:
            for ver in ['1.1', '1.0']:
                if size >= 65535 and ctx.tier == 'quick' and not (
                        kind in ('sgen', 'file', 'gen', 'trickle', 'pipe') and ver == '1.1'):
                    continue
                first = {'method': rng.choice(['GET', 'GET', 'HEAD']), 'ver': ver,
                         'conn': rng.choice([None, 'keep-alive']), 'status': None,
                         'body': sized_body(rng, kind, size)}
                cases.append({'kind': 'conn', 'reqs': [first, dict(SECOND, ver=ver, conn=first['conn'])]})
    return cases


def random_request(rng, keepish=True):
    kind = rng.choice(['str', 'bytes', 'list', 'gen', 'sgen', 'file', 'gen', 'sgen', 'httperror',
                       'sstr', 'sbytes', 'slist', 'slistb', 'trickle', 'ragged', 'pipe'])
    ver = rng.choice(['1.1', '1.1', '1.0'])
    if keepish:
        conn = 'keep-alive' if ver == '1.0' and rng.random() < 0.85 else rng.choice([None, None, 'keep-alive', 'close'])
    else:
        conn = rng.choice([None, 'keep-alive', 'close'])
    status = rng.choice([None, None, None] + STATUSES)
    if kind == 'httperror':
        status = rng.choice([400, 404, 413, 500, 503])
        body = {'kind': 'httperror', 'parts': []}
    elif kind in FILE_LIKE:
        clen = rng.random() < 0.3
        if clen:        # an announced length goes with a status that has a body
            status = rng.choice([None, None, 200, 201, 404])
        body = file_like_body(rng, kind, rng.choice([0, 1, 5, 100, 1000, 4095, 4096, 4097, 9000]), clen)
    else:
        n = rng.randint(0, 5)
        parts = []
        for _ in range(n):
            r = rng.random()
            if r < 0.25:
                parts.append(rng.choice([S(''), Bt(b'')]))
            elif r < 0.3 and kind in ('list', 'slist', 'slistb'):
                parts.append(['n'])
            elif r < 0.65:
                parts.append(S(''.join(rng.choice('ab€\r\n0 ') for _ in range(rng.randint(1, 20)))))
            else:
                parts.append(Bt(bytes(rng.randrange(256) for _ in range(rng.randint(1, 20)))))
        if kind in ('str', 'sstr'):
            parts = [p if p[0] == 's' else S('z') for p in parts]
        if kind in ('bytes', 'file', 'sbytes'):
            parts = [p if p[0] == 'b' else Bt(b'zz') for p in parts]
        body = {'kind': kind, 'parts': parts}
    rq = {'method': rng.choice(['GET', 'GET', 'HEAD']), 'ver': ver, 'conn': conn, 'status': status, 'body': body}
    if rng.random() < 0.2:
        rq['ctype'] = rng.choice(['text/plain', 'application/octet-stream'])
    return rq


def self_answered_request(via, method, ver, conn):
    """a request the server answers itself; its table entry is what the handler of the normal form would say"""
    return {'method': method, 'ver': ver, 'conn': conn, 'status': None, 'via': via,
            'body': {'kind': 'str', 'parts': [S('behind the guard')]}}


def keepalive_sequence_cases():
    """directed: every kind of answer the server (or an httperror event of the handler) makes itself, at the
       start of a connection / after a GET / after a HEAD, for every version x Connection wish, followed by two
       further requests of other kinds.  Whatever the server leaves open must go on answering request by request."""
    cases = []
    selfish = [('dotdot', 'GET'), ('dot', 'GET'), ('dotdot', 'HEAD'), ('unknown', 'GET'), ('unknown', 'HEAD'),
               ('httperror', 404), ('httperror', 403), ('httperror', 500)]
    for (ver, conn), (what, arg) in itertools.product(
            [('1.1', None), ('1.1', 'keep-alive'), ('1.0', 'keep-alive'), ('1.0', None), ('1.1', 'close')], selfish):
        def plain(method, kind, parts, status=None, ver=ver, conn=conn):
            return {'method': method, 'ver': ver, 'conn': conn, 'status': status, 'body': {'kind': kind, 'parts': parts}}
        if what == 'httperror':
            sa = plain('GET', 'httperror', [], arg)
        else:
            sa = self_answered_request(what, arg, ver, conn)
        tails = [[plain('GET', 'str', [S('second')]), plain('HEAD', 'gen', [S('a'), Bt(b'bc')])],
                 [plain('HEAD', 'str', [S('second')]), self_answered_request('dot', 'GET', ver, conn)],
                 [self_answered_request('unknown', 'GET', ver, conn), plain('GET', 'sgen', [S('a'), S(''), Bt(b'b')])]]
        leads = [[], [plain('GET', 'list', [S('a'), Bt(b'bc')], 404)], [plain('HEAD', 'bytes', [Bt(b'first')])],
                 [plain('GET', 'slist', [S('a'), Bt(b'bc')])]]
        for k, lead in enumerate(leads):
            cases.append({'kind': 'conn', 'reqs': lead + [sa] + tails[k % len(tails)]})
    return cases


def sequence_cases(ctx):
    rng = ctx.rng
    cases = []
    for _ in range(250 * ctx.scale):
        n = rng.randint(2, 4)
        reqs = [random_request(rng) for _ in range(n)]
        for k, rq in enumerate(reqs):
            if rng.random() < 0.12:
                reqs[k] = self_answered_request(rng.choice(['dotdot', 'dot', 'unknown']), rq['method'], rq['ver'], rq['conn'])
        cases.append({'kind': 'conn', 'reqs': reqs})
    return cases


# ---------------------------------------------------------------------------------------
# end-to-end group: real circuits.web.Server on a loopback socket, http.client as the client
# ---------------------------------------------------------------------------------------
# case = {'kind': 'e2e', 'sndbuf': 65536,
#         'reqs': [{'method', 'ver', 'conn', 'body': <kind>, 'size', 'piece', 'status'}, ...]}
# All requests of a case go over one TCP connection, as long as the server keeps it open.  If the last
# response does not announce a close, a tiny probe request (Connection: close) is sent after it.

KIB, MIB = 1 << 10, 1 << 20
E2E_SNDBUF = 65536
E2E_TIMEOUT = 20
E2E_KINDS = ['bytes', 'str', 'list', 'gen', 'sgen', 'file', 'sstr', 'sbytes', 'slist', 'slistb']
E2E_SIZES = [0, 1, 70 * KIB, 2 * MIB]
E2E_BIG = 8 * MIB
E2E_MAX_FAILURES = 8          # a broken transport fails everywhere, possibly by timeout: do not go on for long
E2E_MAX_FAILING_S = 45
E2E_PROBE = {'method': 'GET', 'ver': '1.1', 'conn': 'close', 'body': 'bytes', 'size': 1, 'piece': 0,
             'status': 200}
E2E_GONE = (http.client.RemoteDisconnected, ConnectionResetError, BrokenPipeError, ConnectionAbortedError)
_E2E_TAG = itertools.count()


def e2e_size_class(n):
    return {0: '0', 1: '1', 70 * KIB: '70KiB', 2 * MIB: '2MiB', 8 * MIB: '8MiB'}.get(n, f'{n}B')


def e2e_req(method, ver, conn, kind, size, piece=0, status=200, via=None, clen=False):
    rq = {'method': method, 'ver': ver, 'conn': conn, 'body': kind, 'size': size, 'piece': piece,
          'status': status}
    if via:
        rq['via'] = via
    if clen:                 # file-like kinds: the handler announces Content-Length itself
        rq['clen'] = True
    return rq


# File-like results with short reads (E2ERoot.ktrickle / kragged / kpipe, ...L = Content-Length announced by the
# handler): `piece` is the first read limit - trickle: at most `piece` bytes per read; ragged: limits `piece`,
# 4096, 1, 5000, 4095, 2, 4096, 1000 cycled; pipe: a SEQPACKET socket file filled with messages of `piece`, 4096, 1,
# 4095, 1000 bytes cycled.
E2E_SHORT_SIZES = [0, 1, 1000, 4096, 4097, 10000, 70 * KIB]


def e2e_short_read_cases():
    """directed: every reader x size x with / without announced length, on a kept-alive connection (followed by
       an ordinary request) and as closing request; the cases without announced length first (an announced
       length that is not delivered costs a timeout)"""
    cases = []
    flavours = [('1.1', None, True), ('1.0', None, False), ('1.0', 'keep-alive', True), ('1.1', 'close', False)]
    readers = [('trickle', 1), ('trickle', 7), ('trickle', 1000), ('trickle', 4095), ('ragged', 1000),
               ('ragged', 4096), ('pipe', 1000), ('pipe', 1)]
    n = 0
    for clen in (False, True):
        for size in E2E_SHORT_SIZES:
            for kind, piece in readers:
                if kind == 'trickle' and piece < 1000 and size > (1000 if piece == 1 else 4097):
                    continue
                for k in range(2):
                    ver, conn, more = flavours[(n + 2 * k) % 4 if k else n % 4]
                    method = 'HEAD' if n % 7 == 3 else 'GET'
                    reqs = [e2e_req(method, ver, conn, kind, size, piece, 200, clen=clen)]
                    if more:
                        reqs.append(e2e_req('GET', ver, conn, 'bytes', 1))
                    cases.append({'kind': 'e2e', 'sndbuf': E2E_SNDBUF, 'reqs': reqs})
                    n += 1
    return cases


# (via, status, method) of the requests that are answered by the server itself / by an error or redirect event
E2E_SELF_ANSWERED = [('dotdot', 200, 'GET'), ('dot', 200, 'GET'), ('unknown', 404, 'GET'), ('event', 404, 'GET'),
                     ('event', 403, 'GET'), ('event', 500, 'GET'), ('notfound', 404, 'GET'), ('forbidden', 403, 'GET'),
                     ('redirect', 303, 'GET'), ('redirect', 303, 'HEAD'), ('event', 410, 'HEAD'),
                     ('unknown', 404, 'HEAD'), ('dotdot', 200, 'HEAD')]


def e2e_self_answered(via, status, method, ver, conn):
    return e2e_req(method, ver, conn, 'bytes', 1, 0, status, via)


def e2e_keepalive_sequence_cases():
    """directed: every self-answered request kind on connections the client wants kept alive (HTTP/1.1, HTTP/1.1 +
       Connection: keep-alive, HTTP/1.0 + Connection: keep-alive), first on the connection and after ordinary
       requests, each followed by further requests of other kinds (ordinary GET, HEAD, a streamed body, another
       self-answered request) - whatever the server keeps alive must go on answering request by request"""
    cases = []
    flavours = [('1.1', None), ('1.1', 'keep-alive'), ('1.0', 'keep-alive')]
    for si, (via, status, method) in enumerate(E2E_SELF_ANSWERED):      # GET first: a lost answer costs a timeout
        for fi, (ver, conn) in enumerate(flavours):
            def plain(method='GET', kind='bytes', size=1, status=200, ver=ver, conn=conn):
                return e2e_req(method, ver, conn, kind, size, 0, status)
            sa = e2e_self_answered(via, status, method, ver, conn)
            other = E2E_SELF_ANSWERED[(si + 3 + fi) % len(E2E_SELF_ANSWERED)]
            tail = [plain(), plain('HEAD', 'str', 70 * KIB), e2e_self_answered(*other, ver, conn),
                    plain('GET', 'list' if ver == '1.0' else 'sgen' if si % 2 else 'slist', 4097)]
            cases.append({'kind': 'e2e', 'sndbuf': E2E_SNDBUF, 'reqs': [sa] + tail})
            lead = [plain('GET', 'str', 70 * KIB), plain('HEAD')] if (si + fi) % 2 else [plain('GET', 'list', 1, 404)]
            cases.append({'kind': 'e2e', 'sndbuf': E2E_SNDBUF, 'reqs': lead + [sa] + tail[:2]})
    return cases


def e2e_bodyless(rq, status=None):
    st = rq['status'] if status is None else status
    return rq['method'] == 'HEAD' or st < 200 or st in BODYLESS


# Requests the server (or an error / redirect event made by the handler) answers: rq['via'] =
#   'dotdot' | 'dot'   an un-normalised spelling of the handler's path (/x/../k..., /./k...): the server's path
#                      guard answers with a redirect to the normal form (or, equally acceptable, the handler's
#                      own answer is delivered)
#   'unknown'          no handler: 404
#   'event' | 'notfound' | 'forbidden' | 'redirect'
#                      E2ERoot.kanswer: the handler returns httperror(status) / self.notfound() /
#                      self.forbidden() / self.redirect(<a path that ends in the request's tag>)
# absent / None = the ordinary body requests.  Every request has its own tag; the tag is in the request target,
# handler answers echo it in X-Case, redirects carry it in Location.
E2E_REDIRECTS = (301, 302, 303, 307, 308)
E2E_ANSWERED_BY = {None: 'handler result (body kinds)', 'dotdot': 'server: un-normalised path /x/../<path>',
                   'dot': 'server: un-normalised path /./<path>', 'unknown': 'server: no handler (404)',
                   'event': 'handler returns httperror(status)', 'notfound': 'handler returns self.notfound()',
                   'forbidden': 'handler returns self.forbidden()', 'redirect': 'handler returns self.redirect()'}
E2E_VIA_GUARD = ('dotdot', 'dot')
E2E_VIA_HANDLER = {'event': None, 'notfound': 404, 'forbidden': 403, 'redirect': 303}


def e2e_target(rq, tag):
    """-> (request target as sent, the normal form a redirect may point to)"""
    via = rq.get('via')
    plain = f"/k{rq['body']}{'L' if rq.get('clen') else ''}/{rq['size']}/{rq['piece']}/{rq['status']}/{tag}"
    if via == 'dotdot':
        return '/x/..' + plain, plain
    if via == 'dot':
        return '/.' + plain, plain
    if via == 'unknown':
        return f'/nosuch/{tag}', None
    if via == 'redirect':
        return f"/kanswer/redirect/{rq['status']}/{tag}", f'/kbytes/1/0/200/{tag}'
    if via in E2E_VIA_HANDLER:
        return f"/kanswer/{via}/{rq['status']}/{tag}", None
    return plain, None


def e2e_location_ok(location, want_path, srv):
    if location is None:
        return False
    u = urllib.parse.urlsplit(location)
    return (u.path == want_path and u.scheme in ('', 'http')
            and u.netloc in ('', f'{srv.host}:{srv.port}', f'localhost:{srv.port}'))


def e2e_answers_request(rq, tag, normal, status, xcase, location, srv):
    """is (status, X-Case, Location) an answer to THIS request?  -> (None | 'status' | 'token' | 'header', detail,
       handler_body: must the body be what the controller recorded for the tag?)"""
    via = rq.get('via')
    if xcase is not None and xcase != tag:
        return 'token', f'X-Case {xcase!r} is the tag of another request (this one: {tag!r})', False
    if via in E2E_VIA_GUARD:
        if status in E2E_REDIRECTS:
            if e2e_location_ok(location, normal, srv):
                return None, '', False
            return 'token', f'redirect {status} to {location!r}, expected the normal form {normal!r} of its own target', False
        if status == rq['status'] and xcase == tag:      # the handler of the normal form answered
            return None, '', True
        return 'status', (f'status {status} (X-Case {xcase!r}, Location {location!r}), expected a redirect to '
                          f'{normal!r} or the answer of its handler'), False
    if via == 'unknown':
        if status != 404:
            return 'status', f'status {status} (Location {location!r}) for a path nothing serves, expected 404', False
        if location is not None:
            return 'token', f'404 with Location {location!r}', False
        return None, '', False
    if via == 'redirect':
        if status not in E2E_REDIRECTS:
            return 'status', f'status {status}, the handler returned a redirect', False
        if not e2e_location_ok(location, normal, srv):
            return 'token', f'redirect {status} to {location!r}, the handler redirected to {normal!r}', False
        if xcase is None:
            return 'header', f'X-Case missing, expected {tag!r}', False
        return None, '', False
    want = E2E_VIA_HANDLER.get(via) or rq['status']
    if status != want:
        return 'status', f'status {status}, expected {want}' + (f' (Location {location!r})' if location else ''), False
    if xcase is None:
        return 'header', f'X-Case missing, expected {tag!r}', False
    return None, '', via is None


def e2e_after_close(peek):
    """after a response that announced `close`: None if the server closed the connection (EOF / reset,
       and a further request gets no answer), else what was seen instead"""
    try:
        d = peek.recv(64)
    except E2E_GONE:
        return None
    except (TimeoutError, socket.timeout):
        return f'the response announced a close, but the connection was still open {E2E_TIMEOUT} s later'
    except OSError as e:
        return f'{type(e).__name__} while waiting for the announced close'
    if d:
        return f'bytes after the response that announced a close: {d[:24]!r}'
    try:
        peek.sendall(b'GET /kbytes/1/0/200/after-close HTTP/1.1\r\nHost: x\r\n\r\n')
        d = peek.recv(64)
    except OSError:
        return None
    return f'a request sent after the announced close was answered: {d[:24]!r}' if d else None


def e2e_exchange(srv, case):
    """the requests of `case` over one real connection -> (failure | None, [observation per response])
       failure = {'clause', 'idx', 'arg', 'detail'}"""
    reqs = list(case['reqs'])
    n = len(reqs)
    obs = []

    def fail(clause, idx, detail, arg=None):
        return {'clause': clause, 'idx': idx, 'arg': arg, 'detail': detail}, obs

    try:
        conn = http.client.HTTPConnection(srv.host, srv.port, timeout=E2E_TIMEOUT)
        conn.connect()
    except OSError as e:
        return fail('undecodable', 0, f'connect: {e!r}', type(e).__name__)
    peek = None
    try:
        peek = conn.sock.dup()       # a second handle: the client's own close() sends no FIN while it is open
        peek.settimeout(E2E_TIMEOUT)
        i = 0
        while i < len(reqs):
            rq = reqs[i]
            probe = i >= n
            tag = f'e{next(_E2E_TAG)}'
            path, normal = e2e_target(rq, tag)
            desc = (f"{'probe ' if probe else ''}{rq['method']} "
                    + (f"{path} " if rq.get('via') else f"{rq['body']}[{e2e_size_class(rq['size'])}] ")
                    + f"HTTP/{rq['ver']}")
            began = False
            try:
                conn._http_vsn, conn._http_vsn_str = (11, 'HTTP/1.1') if rq['ver'] == '1.1' else (10, 'HTTP/1.0')
                conn.putrequest(rq['method'], path, skip_accept_encoding=True)
                if rq.get('conn'):
                    conn.putheader('Connection', rq['conn'])
                conn.endheaders()
                resp = conn.getresponse()
                began = True
                will_close = resp.will_close
                chunked = bool(resp.chunked)
                clen = resp.getheader('Content-Length')
                xcase = resp.getheader('X-Case')
                location = resp.getheader('Location')
                status = resp.status
                h = hashlib.sha256()
                got = 0
                while True:
                    d = resp.read(1 << 18)
                    if not d:
                        break
                    got += len(d)
                    h.update(d)
            except (http.client.HTTPException, OSError, ValueError) as e:
                if i > 0 and not began and isinstance(e, E2E_GONE):
                    return fail('close-mismatch', i,
                                f'response {i - 1} announced no close, but the connection was gone for the next '
                                f'request ({desc}: {e!r})')
                return fail('undecodable', i, f'{desc}: {e!r}'[:300], type(e).__name__)
            obs.append({'rq': rq, 'probe': probe, 'will_close': will_close, 'status': status,
                        'delimiter': 'none(bodyless)' if e2e_bodyless(rq, status) else 'chunked' if chunked else
                        'content-length' if clen is not None else 'close'})
            # the i-th response must be an answer to the i-th request (its status; its tag wherever a tag is carried)
            bad, why, handler_body = e2e_answers_request(rq, tag, normal, status, xcase, location, srv)
            if bad in ('status', 'token') and i > 0:
                # requests i > 0 are only sent on a connection the previous response left open
                return fail('wrong-response-for-request', i,
                            f'{desc}, request {i} on the kept-alive connection (after {i} answered request(s)): {why}',
                            'keepalive')
            if bad in ('status', 'token'):
                return fail('status-mismatch', i, f'{desc}: {why}')
            if bad == 'header':
                return fail('header-lost', i, f'{desc}: {why}')
            if handler_body:
                produced = srv.produced.pop(tag, None)
                if produced is None:
                    return fail('body-mismatch', i, f'{desc}: the controller was not reached')
                want = (0, hashlib.sha256(b'').hexdigest()) if e2e_bodyless(rq) else produced
                if (got, h.hexdigest()) != want:
                    return fail('body-mismatch', i,
                                f'{desc}: client read {got} bytes sha256 {h.hexdigest()[:16]}, '
                                f'controller produced {want[0]} bytes sha256 {want[1][:16]}')
            elif e2e_bodyless(rq, status) and got:
                return fail('body-mismatch', i, f'{desc}: {got} body bytes on a response that has no body')
            if will_close:
                bad = e2e_after_close(peek)
                if bad:
                    return fail('close-mismatch', i, f'{desc}: {bad}')
                break
            i += 1
            if i == len(reqs) and not probe:
                reqs.append(E2E_PROBE)       # kept alive: a further request must be answered correctly
        return None, obs
    finally:
        conn.close()
        if peek is not None:
            peek.close()


def e2e_signature(case, failure):
    rq = case['reqs'][min(failure['idx'], len(case['reqs']) - 1)]
    c = failure['clause']
    if c == 'body-mismatch':
        return f"e2e-body-mismatch({rq['body']},{e2e_size_class(rq['size'])})"
    if c in ('undecodable', 'wrong-response-for-request'):
        return f"e2e-{c}({failure['arg']})"
    return 'e2e-' + c


class _E2ERig:
    """one server for consecutive cases; replaced after a failure or when the send buffer changes"""

    def __init__(self, ctx):
        self.ctx = ctx
        self.srv = None
        self.sndbuf = None

    def get(self, sndbuf):
        from http15util import E2EServer
        if self.srv is not None and self.sndbuf != sndbuf:
            self.drop()
        if self.srv is None:
            try:
                self.srv = E2EServer(sndbuf, E2E_TIMEOUT)
            except (OSError, RuntimeError) as e:
                raise Infra(f'C15 e2e: cannot start the server: {e!r}')
            self.sndbuf = sndbuf
            self.ctx.count('e2e_servers_started', f'127.0.0.1:port-0 SO_SNDBUF={sndbuf}')
        return self.srv

    def drop(self):
        srv, self.srv = self.srv, None
        if srv is not None and not srv.stop(E2E_TIMEOUT):
            self.ctx.count('e2e_server_thread_not_joined', 'x')


def e2e_evaluate(ctx, cases, shrink=True):
    rig = _E2ERig(ctx)
    failures = 0
    failing_s = 0.0
    try:
        for c in cases:
            srv = rig.get(c.get('sndbuf', E2E_SNDBUF))
            t0 = time.time()
            failure, obs = e2e_exchange(srv, c)
            server_errors = list(srv.errors)
            del srv.errors[:]
            srv.produced.clear()
            if failure is None and server_errors:
                failure = {'clause': 'server-exception', 'idx': len(obs) - 1, 'arg': None,
                           'detail': server_errors[0][:200]}
            for ob in obs:
                rq = ob['rq']
                if ob['probe']:
                    ctx.count('e2e_probe_after_kept_alive', 'answered')
                    continue
                ctx.count('e2e_method', rq['method'])
                ctx.count('e2e_version', rq['ver'])
                ctx.count('e2e_connection_header', rq.get('conn') or 'absent')
                ctx.count('e2e_body_kind', rq['body'] + (' + Content-Length announced' if rq.get('clen') else ''))
                ctx.count('e2e_body_size', e2e_size_class(rq['size']))
                ctx.count('e2e_status', ob['status'])
                ctx.count('e2e_answered_by', E2E_ANSWERED_BY[rq.get('via')])
                ctx.count('e2e_delimiter', ob['delimiter'])
                ctx.count('e2e_connection_after', 'close-announced-and-seen' if ob['will_close'] else 'kept-alive')
            ctx.count('e2e_requests_per_connection', sum(1 for ob in obs if not ob['probe']))
            if failure is not None:
                failures += 1
                rig.drop()               # whatever state that server is in: the next case gets a new one
                fc, ff = c, failure
                sig = e2e_signature(c, failure)
                if shrink and len(c['reqs']) > 1 and ('e2e', sig) not in SHRUNK:
                    SHRUNK[('e2e', sig)] = True
                    k = min(failure['idx'], len(c['reqs']) - 1)
                    for rs in ([c['reqs'][k]], c['reqs'][max(0, k - 1):k + 1]):
                        if len(rs) >= len(c['reqs']):
                            continue
                        cand = dict(c, reqs=rs)
                        f2, _o = e2e_exchange(rig.get(cand.get('sndbuf', E2E_SNDBUF)), cand)
                        rig.drop()
                        if f2 is not None and e2e_signature(cand, f2) == sig:
                            fc, ff = cand, f2
                            break
                ctx.violate(fc, e2e_signature(fc, ff),
                            f"end to end (real sockets, http.client): response {ff['idx']} on the connection: "
                            f"{ff['detail']}; requests: "
                            + '; '.join(f"{r['method']} HTTP/{r['ver']} conn={r.get('conn')} status={r['status']} "
                                        + (f"via={r['via']}" if r.get('via') else
                                           f"body={r['body']}[{r['size']} B, pieces of {r['piece'] or 'all'}"
                                           f"{', Content-Length announced' if r.get('clen') else ''}]")
                                        for r in fc['reqs']))
                failing_s += time.time() - t0
            ctx.case(c, nontrivial=True, validated=failure is None)
            if failures >= E2E_MAX_FAILURES or failing_s > E2E_MAX_FAILING_S:
                ctx.count('e2e_stopped_after_failures', failures)
                break
            if ctx.time_up():
                break
    finally:
        rig.drop()


def e2e_case_list(ctx):
    rng = ctx.rng
    big = ctx.tier == 'thorough' or ctx.searching
    sizes = E2E_SIZES + ([E2E_BIG] if big else [])
    small_sizes = [0, 1, 70 * KIB]
    pieces = [4096, 4097, 65537, 0]            # 0 = the whole body in one piece

    def small(self_answered=0.0):
        if rng.random() < self_answered:
            via, status, method = rng.choice(E2E_SELF_ANSWERED)
            return e2e_self_answered(via, status, method, '1.1', rng.choice([None, None, 'keep-alive']))
        if rng.random() < 0.15:
            clen = rng.random() < 0.3
            return e2e_req(rng.choice(['GET', 'GET', 'HEAD']), '1.1', rng.choice([None, None, 'keep-alive']),
                           rng.choice(FILE_LIKE), rng.choice([0, 1, 1000, 4096, 4097, 10000]),
                           rng.choice([7, 1000, 2048, 4095]),
                           rng.choice([200, 200, 201, 404]) if clen else rng.choice([200, 200, 201, 404, 204, 304]),
                           clen=clen)
        return e2e_req(rng.choice(['GET', 'GET', 'HEAD']), '1.1', rng.choice([None, None, 'keep-alive']),
                       rng.choice(E2E_KINDS), rng.choice(small_sizes), rng.choice(pieces),
                       rng.choice([200, 200, 200, 200, 201, 404, 204, 304]))

    def case(reqs):
        return {'kind': 'e2e', 'sndbuf': E2E_SNDBUF, 'reqs': reqs}

    cases = []
    closing = [('1.0', None), ('1.1', 'close'), ('1.0', 'keep-alive')]
    for si, size in enumerate(sizes):
        for ki, kind in enumerate(E2E_KINDS):
            # (a) HTTP/1.1 keep-alive: the body under test first, 1-2 further requests behind it
            piece = 512 * KIB if size >= MIB else rng.choice(pieces)
            reqs = [e2e_req('GET', '1.1', rng.choice([None, 'keep-alive']), kind, size, piece), small()]
            if rng.random() < 0.5:
                reqs.append(e2e_req('HEAD', '1.1', None, kind, size, piece) if rng.random() < 0.5 else small())
            cases.append(case(reqs))
            # (b) a GET that implies / asks for a close, or HTTP/1.0 keep-alive (every kind meets all three)
            ver, conn = closing[(si + ki) % 3]
            piece = rng.choice([512 * KIB, 65537, 0]) if size >= MIB else rng.choice(pieces)
            cases.append(case([e2e_req('GET', ver, conn, kind, size, piece)]))
            # (c) HEAD for the same, with another of the three
            if size > 1:
                ver, conn = closing[(si + ki + 1) % 3]
                cases.append(case([e2e_req('HEAD', ver, conn, kind, size, piece)]))
    # (d) every self-answered request kind on kept-alive connections, mixed with ordinary requests
    cases += e2e_keepalive_sequence_cases()
    # (d') file-like results with short reads
    cases += e2e_short_read_cases()
    # (e) random connections
    for _ in range(16 * ctx.scale):
        reqs = []
        nreq = rng.randint(2, 3)
        for k in range(nreq):
            last = k == nreq - 1
            rq = small(0.2)
            if not rq.get('via') and rq['body'] not in FILE_LIKE and rng.random() < 0.25:
                rq.update(size=rng.choice(sizes), status=200)
                if rq['size'] >= MIB:
                    rq['piece'] = rng.choice([512 * KIB, 65537, 0])
            if rng.random() < 0.3:      # only the last request asks for a close (unsized HTTP/1.0 bodies close anyway)
                rq.update(ver='1.0', conn=rng.choice(['keep-alive', 'keep-alive', None]) if last else 'keep-alive')
            elif last and rng.random() < 0.3:
                rq['conn'] = 'close'
            reqs.append(rq)
        cases.append(case(reqs))
    return cases


def e2e_cases(ctx):
    """the end-to-end group (C, spec on impl only - there is no model of the transport to compare with)"""
    t0 = time.time()
    e2e_evaluate(ctx, e2e_case_list(ctx))
    ctx.extra['e2e_wall_s'] = round(ctx.extra.get('e2e_wall_s', 0) + time.time() - t0, 2)


def run(ctx):
    impl = Impl()
    ctx.param('SERVER_PROTOCOL == (1, 1)  (model: res.protocol = min(request version, 1.1))',
              tuple(impl.server_protocol) == (1, 1), repr(impl.server_protocol))
    ctx.param('BUFSIZE > 0  (file bodies are cut into BUFSIZE pieces by the harness as file_generator does)',
              isinstance(impl.bufsize, int) and impl.bufsize > 0, repr(impl.bufsize))
    ctx.rule = ('full product {GET,HEAD} x {1.1,1.0} x Connection{absent,keep-alive,close} x 31 body shapes '
                '(str/bytes/list/unsized iterable/streamed generator/file/httperror, and str/bytes/list with '
                'response.stream = True set by the handler - returned, or the list assigned to response.body - which the '
                'model treats as the same sized Body as without the flag; file-like objects with short reads: trickle / '
                'ragged / SEQPACKET pipe, for the model a stream Body of the pieces read(BUFSIZE) returns; empty, blank parts, first part '
                'empty) x 10 statuses, each followed by a second request on the same connection (exhaustive over '
                'that table); directed short-read cases: sizes {0, 1, 1000, 4095, 4096, 4097, 8192, 10000, 3*4096+5} x readers '
                '{trickle k=1/7/1000/4095, ragged random and fixed, pipe random and fixed} x {HTTP/1.1, HTTP/1.0 keep-alive, '
                'HTTP/1.0} x {no length announced, Content-Length announced by the handler (C only, not compared with '
                'the model)}, GET and HEAD, each followed by a second request; directed keep-alive sequences: 5 version/Connection flavours x 8 self-answered '
                'request kinds (un-normalised path /x/../c and /./c -> 301 of the path guard, GET and HEAD; unknown '
                'path -> 404, GET and HEAD; handler returns httperror 404/403/500) x 4 positions (first, after a '
                'GET, after a HEAD, after a stream-flagged list), each followed by two further requests of other kinds; body sizes around '
                '16/256/BUFSIZE/2*BUFSIZE and 70 KiB per kind and version; random sequences of 2-4 requests per '
                'connection (12% of the requests self-answered); oracle clause on every connection: response k >= 1 '
                'on a kept-alive connection is the answer to request k (status, X-Case tag, Location); '
                'HANDLER-RETURN PATHS (cases of kind path; real HTTP + Dispatcher + Controller + plain request handler + '
                'callee component, manager ticked until quiescent): directed: 11 paths (plain, plain-gen, plain-call, '
                'plain-fire, plain-value, nobody, expose, expose-gen, expose-call, expose-wait, expose-fire) x callee delay '
                '{0, 1, 3 ticks} where there is a callee x every result kind the path can carry (direct paths: str, bytes, '
                'list, generator, streamed generator, file, httperror event, stream-flagged str / list / list-via-body, '
                'short-read file-like; yielded pieces: several / one; values in a Value: str, bytes, list, file, empty str) '
                'x 4 version/Connection flavours, GET and HEAD, 4 statuses; and every path x stage the application can '
                'raise at (handler, after the first yield, callee) x {NotFound, Forbidden, Unauthorized, Gone(traceback=False), Redirect, '
                'ValueError} x 4 flavours, a third of them after an ordinary request; each followed by a further request '
                'through another path; random: connections of 2-4 requests with random path / body / delay, 25% raising; '
                'non-trivial = every case (each is a full exchange); '
                'distinct = distinct case; END-TO-END group (spec on impl only, no model comparison): a real '
                'circuits.web.Server + Controller on 127.0.0.1:0 in a thread, SO_SNDBUF 64 KiB, driven by '
                'http.client.HTTPConnection over loopback: 10 body kinds (bytes, str, list, generator, streamed '
                'generator, file object, and str / bytes / list / list-via-response.body with response.stream = True) x sizes {0, 1, 70 KiB, 2 MiB (+ 8 MiB thorough)}, each once first on an '
                'HTTP/1.1 keep-alive connection of 2-3 requests and once as HTTP/1.0 / Connection: close / '
                'HTTP/1.0 keep-alive request (GET and HEAD), plus directed short-read cases (file-like results trickle / '
                'ragged / SEQPACKET pipe x sizes {0, 1, 1000, 4096, 4097, 10000, 70 KiB} x with / without a Content-Length '
                'announced by the handler x kept-alive with a further request / closing, GET and HEAD), plus 78 directed keep-alive sequences (13 '
                'self-answered request kinds: un-normalised path, unknown path, handler returning httperror / '
                'notfound / forbidden / redirect, GET and HEAD x HTTP/1.1, HTTP/1.1 keep-alive, HTTP/1.0 keep-alive x '
                'first / after ordinary requests, 4-5 requests each), plus random connections (20% of the small '
                'requests self-answered); oracle: status, X-Case header, body length + sha256 as produced by the '
                'controller, connection closed iff announced, kept-alive connection answers a further request, '
                'response k on a kept-alive connection is the answer to request k (own tag in X-Case / Location, '
                'redirect of an un-normalised path points to the normal form of that very path)')
    ctx.exhaustive = False
    ctx.trusted += ['http.client.HTTPResponse as second, independent reader',
                    'request line / Connection header -> (HEAD?, version, keep-alive) is computed by the harness '
                    '(parser.should_keep_alive is C13 territory) and cross-checked by the correspondence',
                    'str parts are utf-8 encoded by the harness (Response.encoding = utf-8)',
                    'wrappers.formatdate is replaced by a constant (Date header masked)',
                    'pages the server makes itself (301 of the path guard, 404 without handler): the expected body '
                    'is str(event) of the httperror event as captured by the rig; expected status and Location are '
                    'computed by the harness from the request target (un-normalised spellings used: /x/../<path> and '
                    '/./<path>)',
                    'e2e group: http.client.HTTPConnection/HTTPResponse as the independent client (HTTP/1.0 request '
                    'lines via its _http_vsn attributes), the loopback TCP stack of the kernel, a dup()ed socket '
                    'handle to observe the server side close']
    ctx.trusted += ['handler-return paths: the probe component (c15paths.Probe) classifies the value of request_success / '
                    'request_value_changed / exception events with the same isinstance tests the decision code uses (it '
                    'reads, never writes); error and redirect pages: the expected body is str(event) of the real httperror '
                    'event (errors.py is not modelled), expected status / Location are computed from the case']
    ctx.assumptions += ['handler-return paths: a handler that returns self.fire(e) whose handler is a coroutine (a promise) is a '
                        'Controller method: request_value_changed is delivered to the component that fired (the Dispatcher '
                        'for Controllers); a plain component returning such a Value has to handle request_value_changed '
                        'itself (observed: otherwise no response is ever written) - not generated; a coroutine handler '
                        'yields at least one piece; the callee does not return bool / None; an error triple that a handler '
                        'obtains from v.errors is re-raised by the handler (not yielded as a result)',
                        'the application does not set Transfer-Encoding / Connection itself, and Content-Length only '
                        'for a file-like stream body and then correctly (the serve_file pattern)',
                        'file-like bodies: read(n) returns at most n bytes and b\'\' only at the end of the data; '
                        'at most 600 reads per body (256 messages for the SEQPACKET pipe)',
                        'request cookies absent; generator handlers (coroutines) are C04/C06',
                        'the body iterator does not raise',
                        'e2e group: spec on impl only (not compared with the Lean model; the transport below the '
                        '`write` events is C11 territory, here only its HTTP-level consequence is observed); one '
                        'client connection at a time; the client reads promptly; plain TCP (no TLS); SO_SNDBUF '
                        '64 KiB set through the public socket_options keyword so that send() accepts only part of '
                        'a large piece']
    corpus = ctx.corpus()
    groups = [[c for c in corpus if c.get('kind') != 'e2e'], keepalive_sequence_cases(), short_read_cases(ctx),
              paths.directed_cases(SECOND), paths.random_cases(ctx, random_request),
              product_cases(),
              size_cases(ctx), sequence_cases(ctx)]
    e2e_evaluate(ctx, [c for c in corpus if c.get('kind') == 'e2e'])
    names = ['corpus', 'keepalive sequences', 'short reads', 'handler-return paths (directed)',
             'handler-return paths (random)', 'product', 'sizes', 'random sequences']
    walls = ctx.extra.setdefault('group_wall_s', {})
    for name, cases in zip(names, groups):
        t0 = time.time()
        for i in range(0, len(cases), 200):
            evaluate(ctx, impl, cases[i:i + 200])
            if ctx.time_up():
                return
        walls[name] = round(walls.get(name, 0) + time.time() - t0, 2)
    import c15_fail                      # body iterators that raise, handlers that return a flag
    t0 = time.time()
    c15_fail.run(ctx, sys.modules[__name__])
    walls['failing iterators'] = round(walls.get('failing iterators', 0) + time.time() - t0, 2)
    e2e_cases(ctx)


def search(ctx):
    run(ctx)


def replay(ctx, case):
    if case.get('kind') == 'fail':
        import c15_fail
        c15_fail.replay(ctx, case, sys.modules[__name__])
    elif case.get('kind') == 'e2e':
        e2e_evaluate(ctx, [case], shrink=False)
    else:
        evaluate(ctx, Impl(), [case], shrink=False)

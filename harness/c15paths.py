"""
C15, handler-return paths: the same application results as in c15.py, but produced the way applications
produce them - by *returning / yielding from a request handler* - and carried to the response by the real
`HTTP._on_request_success` / `_on_request_failure` / `_on_exception` / `Dispatcher._on_request_value_changed`.

Rig (in-process, no network): http15util.FakeServer (+ HTTP) + a real `circuits.web.Dispatcher` + a `Controller`
(channel '/') + a plain component handling `request` on the server channel + a worker component on channel
'app' (the callee of call() / wait() / fire()).  The manager is *ticked* (tasks + queue) until quiescent, so that
coroutine handlers run.

Paths (rq['path']):
  plain        plain `request` handler returns the value
  plain-gen    plain handler is a coroutine: yields the pieces
  plain-call   plain coroutine: v = yield self.call(work(), 'app'); yield v.value
  plain-fire   plain handler returns self.fire(work(), 'app')           (callee answers at once)
  plain-value  plain handler returns a Value whose value is the Value of an event it fired (the callee answers at
               once): at request_success a Value with `result and not errors`, or - the callee raising - with `errors`
  nobody       no handler takes the request (the Dispatcher finds none): notfound
  expose       Controller method (through `expose` and the Dispatcher) returns the value
  expose-gen   Controller coroutine: yields the pieces
  expose-call  Controller coroutine: v = yield self.call(work(), 'app'); yield v.value
  expose-wait  Controller coroutine: v = self.fire(e, 'app'); yield self.wait(e); yield v.value
  expose-fire  Controller method returns self.fire(work(), 'app') - a Value filled in later; with rq['late'] = k > 0
               the callee is itself a coroutine that answers after k ticks
rq['exc'] = {'cls': NotFound | Forbidden | Unauthorized | Redirect | ValueError, 'at': handler | after-yield | callee}
  the application's result is an exception raised in the handler, in the coroutine after its first yield, or in
  the callee.

Observed besides the wire: the *HTTP-level event trace* of the request - what the core delivered to the
decision code (`request_success` with the shape of the value, `request_value_changed`, `request_failure`,
`exception`) and what that code fired (`httperror` / `redirect` / `response` events) - compared with the Lean
model CV.HttpResp (HttpRespPath.lean: `step`, `decisions`, `trace`).
"""

EXC_CODES = {'NotFound': 404, 'Forbidden': 403, 'Unauthorized': 401, 'ValueError': 500, 'GoneNoTraceback': 410}
PATHS = ['plain', 'plain-gen', 'plain-call', 'plain-fire', 'plain-value', 'nobody', 'expose', 'expose-gen',
         'expose-call', 'expose-wait', 'expose-fire']
COROUTINE_PATHS = ('plain-gen', 'plain-call', 'expose-gen', 'expose-call', 'expose-wait')
CALLEE_PATHS = ('plain-call', 'plain-fire', 'expose-call', 'expose-wait', 'expose-fire')
VALUE_KINDS = ('str', 'bytes', 'list', 'file')       # results that can travel in a Value / be yielded
URL = {'plain': '/p/{i}', 'plain-gen': '/p/{i}', 'plain-call': '/p/{i}', 'plain-fire': '/p/{i}',
       'plain-value': '/p/{i}', 'nobody': '/nosuch/{i}',
       'expose': '/eret/{i}', 'expose-gen': '/egen/{i}', 'expose-call': '/ecall/{i}', 'expose-wait': '/ewait/{i}',
       'expose-fire': '/efire/{i}'}


def target(rq, i):
    return URL[rq['path']].format(i=i)


def redirect_target(i):
    return f'/moved{i}'


def exc_status(rq):
    cls = rq['exc']['cls']
    if cls == 'Redirect':
        return 303          # exceptions.Redirect.code (the class attribute; HTTP passes it on as the code)
    return EXC_CODES[cls]


def make_exc(cls, i):
    from circuits.web import exceptions
    if cls == 'ValueError':
        return ValueError('boom')
    if cls == 'Redirect':
        return exceptions.Redirect(redirect_target(i))
    if cls == 'GoneNoTraceback':            # HTTPException(traceback=False): the page is made without the error triple
        return exceptions.Gone(traceback=False)
    return getattr(exceptions, cls)()


_DEFS = {}


def defs():
    """the circuits components of the rig (built on first use: the code under test is importable only after the
       framework has put it on sys.path)"""
    if _DEFS:
        return _DEFS
    from circuits import BaseComponent, Component, Event, handler
    from circuits.core.values import Value

    class work(Event):
        """the event the handlers call() / wait() for / fire()"""


    class Worker(Component):
        channel = 'app'

        def init(self):
            self.spec = None

        def work(self):
            s = self.spec
            late = s.get('late') or 0
            exc = s.get('exc') if (s.get('exc') or {}).get('at') == 'callee' else None
            if late:
                def g():
                    for _ in range(late):
                        yield None
                    if exc:
                        raise make_exc(exc['cls'], s['i'])
                    yield s['value']()
                return g()
            if exc:
                raise make_exc(exc['cls'], s['i'])
            return s['value']()


    def _prepare(spec, res):
        if spec.get('status') is not None:
            res.status = spec['status']
        res.headers['X-Case'] = spec.get('tag', 'x')
        if spec.get('ctype'):
            res.headers['Content-Type'] = spec['ctype']


    def _raise_at(spec, where):
        e = spec.get('exc')
        if e and e['at'] == where:
            raise make_exc(e['cls'], spec['i'])


    def _direct(spec, req, res, rig):
        """the ordinary way (as http15util.App): return the value / the response / an httperror event"""
        from http15util import FILE_LIKE, make_body
        body = spec['body']
        kind = body['kind']
        if kind in ('str', 'bytes', 'list', 'file'):
            return make_body(body)
        if kind in FILE_LIKE:
            f = make_body(body)
            rig.opened.append(f)
            return f
        if kind == 'gen':
            res.body = make_body(body)
            return res
        if kind == 'sgen':
            res.body = make_body(body)
            res.stream = True
            return res
        if kind in ('sstr', 'sbytes', 'slist'):
            res.stream = True
            return make_body(body)
        if kind == 'slistb':
            res.stream = True
            res.body = make_body(body)
            return res
        if kind == 'httperror':
            from circuits.web.errors import httperror
            ev = httperror(req, res, spec['status'])
            rig.returned_page = str(ev).encode('utf-8')     # what the application produced
            return ev
        raise ValueError(kind)


    def _pieces(spec):
        return [p for p in spec['body']['parts']]


    def _controller(rig):
        from circuits.web import Controller

        class Root(Controller):
            def _spec(self):
                spec = rig.table[self.request.path]
                _prepare(spec, self.response)
                return spec

            def eret(self, i):
                spec = self._spec()
                _raise_at(spec, 'handler')
                return _direct(spec, self.request, self.response, rig)

            # a coroutine method cannot use self.request / self.response once it runs (expose removes them when the
            # wrapper returns): status and headers are set before the generator is handed to the framework
            def egen(self, i):
                spec = self._spec()
                _raise_at(spec, 'handler')

                def g():
                    first = True
                    for p in _pieces(spec):
                        yield p
                        if first:
                            _raise_at(spec, 'after-yield')
                            first = False
                return g()

            def ecall(self, i):
                spec = self._spec()
                _raise_at(spec, 'handler')

                def g():
                    v = yield self.call(work(), 'app')
                    _raise_at(spec, 'after-yield')
                    if v.errors:
                        raise v.value[1]
                    yield v.value
                return g()

            def ewait(self, i):
                spec = self._spec()
                _raise_at(spec, 'handler')

                def g():
                    e = work()
                    v = self.fire(e, 'app')
                    yield self.wait(e)
                    _raise_at(spec, 'after-yield')
                    if v.errors:
                        raise v.value[1]
                    yield v.value
                return g()

            def efire(self, i):
                spec = self._spec()
                _raise_at(spec, 'handler')
                return self.fire(work(), 'app')

        return Root


    class Plain(BaseComponent):
        """plain `request` handlers on the server channel (no Controller, no expose)"""
        channel = 'web'

        def __init__(self, rig):
            super().__init__()
            self.rig = rig

        @handler('request', priority=0.5)
        def _on_request(self, event, req, res):
            spec = self.rig.table.get(req.path)
            if spec is None or not spec['path'].startswith('plain'):
                return None
            event.stop()
            _prepare(spec, res)
            path = spec['path']
            if path == 'plain':
                _raise_at(spec, 'handler')
                return _direct(spec, req, res, self.rig)
            if path == 'plain-fire':
                _raise_at(spec, 'handler')
                return self.fire(work(), 'app')
            if path == 'plain-value':
                # the Value of a fired event wrapped in another Value (what a Controller's result is to the
                # Dispatcher, made by hand): the callee has answered - or failed - when request_success is handled
                _raise_at(spec, 'handler')
                inner = self.fire(work(), 'app')
                outer = Value(event, self)
                outer.value = inner
                return outer
            if path == 'plain-gen':
                _raise_at(spec, 'handler')

                def g():
                    first = True
                    for p in _pieces(spec):
                        yield p
                        if first:
                            _raise_at(spec, 'after-yield')
                            first = False
                return g()
            if path == 'plain-call':
                _raise_at(spec, 'handler')

                def g():
                    v = yield self.call(work(), 'app')
                    _raise_at(spec, 'after-yield')
                    if v.errors:
                        raise v.value[1]
                    yield v.value
                return g()
            raise ValueError(path)


    def exc_token(evalue):
        from circuits.web.exceptions import HTTPException, Redirect as RedirectException
        if isinstance(evalue, RedirectException):
            return f'redirect:{evalue.code if evalue.code is not None else 0}'
        if isinstance(evalue, HTTPException):
            return f'http:{evalue.code}'
        return 'other'


    def seen_token(v):
        """the shape of the value as `_on_request_success` distinguishes it (after its own unwrapping of a Value that
           is not a promise)"""
        from circuits.web import wrappers
        from circuits.web.errors import httperror
        if isinstance(v, Value) and not v.promise:
            v = v.getValue(recursive=False)
        if v is None:
            return 'none'
        if isinstance(v, httperror):
            return f'errorevent:{v.code}'
        if isinstance(v, wrappers.Response):
            return 'response'
        if isinstance(v, Value):
            if v.result and not v.errors:
                return 'valready'
            if v.errors:
                return 'valerror:' + exc_token(v.value[1])
            return 'valpending'
        if isinstance(v, tuple):
            return 'triple:' + exc_token(v[1])
        if isinstance(v, bool):
            return 'flag'
        return 'plain'


    class Probe(BaseComponent):
        """records, in dispatch order, the HTTP-level events of the current request"""
        channel = 'web'

        def __init__(self, rig):
            super().__init__()
            self.rig = rig

        @handler('request_success', priority=100)
        def _success(self, e, value):
            self.rig.inputs.append('success:' + seen_token(e.value.getValue(recursive=False)))

        @handler('request_failure', priority=100)
        def _failure(self, erequest, error):
            self.rig.inputs.append('failure:' + exc_token(error[1]))

        @handler('request_value_changed', channel='*', priority=100)
        def _changed(self, value):
            if value.result and not value.errors:
                t = 'ready'
            elif value.promise:
                t = 'promise'
            else:
                t = 'other'
            self.rig.inputs.append('changed:' + t)

        @handler('exception', channel='*', priority=101)
        def _exception(self, etype, evalue, tb, handler=None, fevent=None):
            from circuits.web.events import request, response
            if isinstance(fevent, (request, response)):
                t = 'own'
            elif isinstance(getattr(getattr(getattr(fevent, 'value', None), 'parent', None), 'event', None), request):
                t = 'nested:' + exc_token(evalue)
            else:
                t = 'foreign'
            self.rig.inputs.append('exception:' + t)

        @handler('httperror', priority=101)
        def _httperror(self, event, *args, **kwargs):
            from circuits.web.errors import redirect
            self.rig.outputs.append(('redirect:' if isinstance(event, redirect) else 'error:') + str(event.code))

        @handler('response', priority=101)
        def _response(self, event, *args, **kwargs):
            self.rig.outputs.append('response')


    _DEFS.update(work=work, Worker=Worker, Plain=Plain, Probe=Probe, controller=_controller)
    return _DEFS


def settle(m, limit=4000):
    n = 0
    while len(m) or m._tasks:
        m.tick()
        n += 1
        if n > limit:
            raise RuntimeError('queue / tasks do not settle')


class PathRig:
    def __init__(self):
        from circuits.web.dispatchers import Dispatcher
        from http15util import FakeServer
        self.srv = FakeServer()
        self.table = {}
        self.opened = []
        self.inputs = []
        self.outputs = []
        self.returned_page = None
        self.dispatcher = Dispatcher(channel='web').register(self.srv)
        d = defs()
        self.root = d['controller'](self)().register(self.srv)
        self.plain = d['Plain'](self).register(self.srv)
        self.worker = d['Worker']().register(self.srv)
        self.probe = d['Probe'](self).register(self.srv)
        settle(self.srv)
        self.ntok = 0

    def tok(self):
        from http15util import Tok
        self.ntok += 1
        return Tok(self.ntok)

    def feed(self, tok, data):
        from circuits.net.events import read
        self.srv.fire(read(tok, data), 'web')
        settle(self.srv)

    def wire(self, tok):
        return self.srv.wire.get(tok, [])

    def clients(self, tok):
        return tok in self.srv.http._clients

    def close_opened(self):
        for f in self.opened:
            try:
                f.close()
            except OSError:
                pass
        del self.opened[:]


def value_factory(body_spec):
    """what the callee returns: built anew for every call"""
    from http15util import make_body
    return lambda: make_body(body_spec)


def run_conn(impl, case, body_parts, request_bytes):
    """like c15.Impl.run_conn, for a 'path' connection"""
    if getattr(impl, 'prig', None) is None:
        impl.prig = PathRig()
    rig = impl.prig
    tok = rig.tok()
    out = []
    closed = False
    for i, rq in enumerate(case['reqs']):
        if closed:
            break
        b = rq['body']
        spec = {'status': rq.get('status'), 'tag': f't{i}', 'ctype': rq.get('ctype'), 'path': rq['path'], 'i': i,
                'late': rq.get('late') or 0, 'exc': rq.get('exc'),
                'body': {'kind': b['kind'], 'parts': body_parts(b)}}
        if b['kind'] == 'httperror':
            spec['status'] = rq.get('status') or 500
        if 'limits' in b:
            spec['body']['limits'] = list(b['limits'])
        spec['value'] = value_factory(spec['body'])
        url = target(rq, i)
        rig.table = {url: spec}
        rig.worker.spec = spec
        del rig.inputs[:]
        del rig.outputs[:]
        rig.returned_page = None
        before = len(rig.wire(tok))
        nerr = len(rig.srv.errors)
        npages = len(rig.srv.errpages)
        try:
            rig.feed(tok, request_bytes(rq, url))
        except RuntimeError as e:
            impl.prig = None
            out.append({'acts': list(rig.wire(tok)[before:]), 'stale': True, 'closed': closed, 'produced': None,
                        'exc': [f'no-quiescence: {e}'], 'inputs': list(rig.inputs), 'outputs': list(rig.outputs)})
            break
        acts = list(rig.wire(tok)[before:])
        closed = any(a[0] == 'c' for a in rig.wire(tok))
        pages = rig.srv.errpages[npages:]
        excs = rig.srv.errors[nerr:]
        if rq.get('exc'):      # the exception the application raised is its result, not a crash of the framework
            want = {'GoneNoTraceback': 'Gone'}.get(rq['exc']['cls'], rq['exc']['cls'])
            excs = [x for x in excs if not x.startswith(want + ':')]
        out.append({'acts': acts, 'stale': rig.clients(tok), 'closed': closed,
                    'produced': pages[-1] if pages else rig.returned_page, 'pages': len(pages), 'exc': excs,
                    'inputs': list(rig.inputs), 'outputs': list(rig.outputs)})
    rig.close_opened()
    rig.srv.wire.pop(tok, None)
    rig.srv.http._clients.pop(tok, None)
    rig.srv.http._buffers.pop(tok, None)
    del rig.srv.errors[:]
    del rig.srv.errpages[:]
    return out


# ---------------------------------------------------------------------------------------
# expectations (what the application produced) and the model ops
# ---------------------------------------------------------------------------------------

def yields_value(rq):
    """the body kind the framework sees when the pieces are yielded one by one (Value.setValue collects them)"""
    return rq['path'] in ('plain-gen', 'expose-gen')


def product_token(rq):
    """the application's result, for the model: body | fail:<exc>"""
    e = rq.get('exc')
    if not e:
        return 'errorevent:%d' % (rq.get('status') or 500) if rq['body']['kind'] == 'httperror' else (
            'response' if rq['body']['kind'] in ('gen', 'sgen', 'slistb') else 'body')
    cls = e['cls']
    if cls == 'Redirect':
        return 'fail:redirect:303'
    if cls == 'ValueError':
        return 'fail:other'
    return f'fail:http:{EXC_CODES[cls]}'


def where_token(rq):
    e = rq.get('exc')
    return e['at'] if e else 'none'


def path_token(rq):
    return rq['path'] + ('-late' if rq.get('late') and rq['path'] == 'expose-fire' else '')


def kind_token(rq):
    if rq.get('exc'):
        return 'value'
    k = rq['body']['kind']
    if k == 'httperror':
        return 'errorevent:%d' % (rq.get('status') or 500)
    return 'response' if k in ('gen', 'sgen', 'slistb') else 'value'


def stage_token(rq):
    e = rq.get('exc')
    if not e:
        return 'ok'
    return e['at'] + ':' + product_token(rq)[len('fail:'):]


def effective_body(rq):
    """the body as the framework gets it: pieces yielded one by one are collected by Value.setValue - one piece
       stays what it is (str / bytes), several become a list"""
    b = rq['body']
    if not yields_value(rq):
        return b
    parts = [p for p in b['parts'] if p[0] != 'n']
    if len(parts) == 1:
        return {'kind': 'str' if parts[0][0] in ('s', 'rs') else 'bytes', 'parts': parts}
    return {'kind': 'list', 'parts': parts}


def compare_events(ctx, case, i, ob, step_answer, trace_answer, feats):
    """B for the decision code: (1) the model's `step` folded over the *observed* events fires what the real code
       fired; (2) the observed events are the ones the model's `trace` lists for this handler shape"""
    ok = True
    outs = ob['outputs']
    fired_impl = [x for x in outs if x != 'response']
    nresp = sum(1 for x in outs if x == 'response')
    if step_answer == 'bad-op':
        ctx.disagree(case, {'where': 'httpresp.pathstep', 'request': i, 'impl': ob['inputs'], 'model': 'bad-op'})
        ok = False
    else:
        fired_model = [] if step_answer.strip() == '-' else step_answer.split()
        want_err = [x for x in fired_model if x != 'respond']
        if want_err != fired_impl or nresp != len(fired_model):
            ctx.disagree(case, {'where': 'httpresp.pathstep', 'request': i, 'features': feats,
                                'events': ob['inputs'], 'impl': {'fired': fired_impl, 'responses': nresp},
                                'model': fired_model})
            ok = False
    if '|' not in trace_answer:
        ctx.disagree(case, {'where': 'httpresp.pathtrace', 'request': i, 'features': feats, 'impl': ob['inputs'],
                            'model': trace_answer})
        return False
    evs, _expected = trace_answer.split('|')
    evs = [] if evs.strip() == '-' else evs.split()
    if evs != ob['inputs']:
        ctx.disagree(case, {'where': 'httpresp.pathtrace', 'request': i, 'features': feats, 'impl': ob['inputs'],
                            'model': evs})
        ok = False
    return ok


def one_response_check(obs):
    """C, judged first on these connections: every request that was sent got exactly one response - counted on
       the wire as status lines written for it (bodies of the cases never start with 'HTTP/1.')
       -> None or (clause, k)"""
    for k, ob in enumerate(obs):
        heads = sum(1 for a in ob['acts'] if a[0] == 'w' and a[1].startswith(b'HTTP/1.'))
        if heads == 0:
            return ('no-response', k)
        if heads != 1:
            return (f'{heads}-responses-for-one-request', k)
    return None


def count_request(ctx, rq, ob):
    ctx.count('handler_path', path_token(rq))
    e = rq.get('exc')
    ctx.count('handler_outcome', f"raises {e['cls']} {e['at']}" if e else
              'nobody' if rq['path'] == 'nobody' else 'result: ' + kind_token(rq).split(':')[0])
    ctx.count('handler_path_x_outcome', path_token(rq) + ' / ' + (f"{e['cls']}@{e['at']}" if e else 'ok'))
    if rq['path'] in CALLEE_PATHS:
        ctx.count('callee_answers_after_ticks', rq.get('late') or 0)
    for t in ob['inputs']:
        ctx.count('decision_code_event', ':'.join(t.split(':')[:2]))
    ctx.count('responses_fired_per_request', sum(1 for x in ob['outputs'] if x == 'response'))


# ---------------------------------------------------------------------------------------
# generators
# ---------------------------------------------------------------------------------------

EXC_CLASSES = ['NotFound', 'Forbidden', 'Unauthorized', 'GoneNoTraceback', 'Redirect', 'ValueError']
DIRECT_KINDS = ['str', 'bytes', 'list', 'gen', 'sgen', 'file', 'httperror', 'sstr', 'slist', 'slistb', 'trickle']


def stages(path):
    """where the application can raise on this path"""
    if path == 'nobody':
        return []
    if path == 'plain-value':
        return ['handler', 'callee']
    out = ['handler']
    if path in COROUTINE_PATHS:
        out.append('after-yield')
    if path in CALLEE_PATHS:
        out.append('callee')
    return out


def sample_body(kind):
    S = lambda t: ['s', t]          # noqa: E731
    B = lambda b: ['b', b.hex()]    # noqa: E731
    return {'str': {'kind': 'str', 'parts': [S('héllo wörld')]},
            'bytes': {'kind': 'bytes', 'parts': [B(b'\x00\xffbin\r\n0\r\n\r\n')]},
            'list': {'kind': 'list', 'parts': [S('a'), B(b'bc'), S(''), S('€')]},
            'file': {'kind': 'file', 'parts': [B(b'file contents\n' * 400)]},
            'gen': {'kind': 'gen', 'parts': [S('a'), B(b'bc'), S(''), S('d')]},
            'sgen': {'kind': 'sgen', 'parts': [S(''), S('a'), B(b'bc')]},
            'httperror': {'kind': 'httperror', 'parts': []},
            'sstr': {'kind': 'sstr', 'parts': [S('héllo')]},
            'slist': {'kind': 'slist', 'parts': [S('a'), B(b'bc')]},
            'slistb': {'kind': 'slistb', 'parts': [S('a'), S(''), B(b'b')]},
            'trickle': {'kind': 'trickle', 'parts': [B(b'file contents\n')], 'limits': [5]},
            'empty': {'kind': 'str', 'parts': []},
            'one': {'kind': 'list', 'parts': [S('only piece')]}}[kind]


def kinds_for(path):
    if path in ('plain', 'expose'):
        return DIRECT_KINDS
    if path in ('plain-gen', 'expose-gen'):
        return ['list', 'one']
    if path == 'nobody':
        return ['str']
    return ['str', 'bytes', 'list', 'file', 'empty']


def make_rq(path, method, ver, conn, body, status=None, late=0, exc=None):
    rq = {'method': method, 'ver': ver, 'conn': conn, 'status': status, 'body': body, 'path': path}
    if late and path in CALLEE_PATHS:
        rq['late'] = late
    if exc:
        rq['exc'] = exc
    if body['kind'] == 'httperror':
        rq['status'] = status if status and status >= 400 else 503
    return rq


FLAVOURS = [('1.1', None), ('1.1', 'close'), ('1.0', 'keep-alive'), ('1.0', None)]


def lates_for(path):
    if path == 'plain-fire':
        return [0]          # see assumptions: a promise is resolved through the Dispatcher (Controller paths)
    return [0, 1, 3] if path in CALLEE_PATHS else [0]


def directed_cases(second):
    """every path x result kind it can carry x HTTP flavour, and every path x stage x exception class, each
       followed by a further request (through another path) on the same connection"""
    cases = []
    n = 0
    others = ['plain', 'expose', 'expose-fire', 'expose-call', 'plain-gen']
    for path in PATHS:
        for late in lates_for(path):
            for kind in kinds_for(path):
                for ver, conn in FLAVOURS:
                    n += 1
                    method = 'HEAD' if n % 5 == 0 else 'GET'
                    status = [None, None, 201, 404][n % 4] if kind != 'httperror' else [404, 500, 503][n % 3]
                    first = make_rq(path, method, ver, conn, sample_body(kind), status, late)
                    nxt = make_rq(others[n % len(others)], 'GET', ver, conn, sample_body('str'), None, n % 2)
                    cases.append({'kind': 'path', 'reqs': [first, nxt]})
            for at in stages(path):
                for cls in EXC_CLASSES:
                    for ver, conn in FLAVOURS:
                        n += 1
                        method = 'HEAD' if n % 7 == 0 else 'GET'
                        body = sample_body('list' if path.endswith('gen') else 'str')
                        first = make_rq(path, method, ver, conn, body, None, late, {'cls': cls, 'at': at})
                        nxt = make_rq(others[n % len(others)], 'GET', ver, conn, sample_body('str'))
                        # an error response closes the connection: the request before it shows that the path works
                        # after an ordinary exchange, the one after it must not be answered
                        lead = make_rq(others[(n + 1) % len(others)], 'GET', ver, conn, sample_body('bytes'))
                        cases.append({'kind': 'path', 'reqs': ([lead] if n % 3 == 0 else []) + [first, nxt]})
    return cases


def random_cases(ctx, random_request):
    """random connections of 2-4 requests, each through a random path it can travel (bodies from c15.random_request)"""
    rng = ctx.rng
    cases = []
    for _ in range(120 * ctx.scale):
        reqs = []
        for _k in range(rng.randint(2, 4)):
            path = rng.choice(PATHS)
            base = random_request(rng)
            for _try in range(50):
                if base['body']['kind'] in ('pipe', 'ragged') or base['body'].get('clen'):
                    base = random_request(rng)
                    continue
                k = base['body']['kind']
                if path in ('plain', 'expose'):
                    break
                if path in ('plain-gen', 'expose-gen'):
                    if k in ('list', 'slist') and any(p[0] != 'n' for p in base['body']['parts']):
                        base['body'] = {'kind': 'list', 'parts': [p for p in base['body']['parts'] if p[0] != 'n']}
                        break
                elif k in ('str', 'bytes', 'list', 'file'):
                    break
                base = random_request(rng)
            else:
                path = 'plain'
            rq = make_rq(path, base['method'], base['ver'], base['conn'], base['body'], base['status'],
                         rng.choice(lates_for(path)))
            if base.get('ctype'):
                rq['ctype'] = base['ctype']
            st = stages(path)
            if st and rng.random() < 0.25:
                rq['exc'] = {'cls': rng.choice(EXC_CLASSES), 'at': rng.choice(st)}
                rq.pop('ctype', None)
                if rq['body']['kind'] == 'httperror' or yields_value(rq) and not rq['body']['parts']:
                    rq['body'] = sample_body('list' if yields_value(rq) else 'str')
            reqs.append(rq)
        cases.append({'kind': 'path', 'reqs': reqs})
    return cases

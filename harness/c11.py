"""
C11 - Stream writes arrive in order, each byte once, and close waits for the buffer.

The real `TCPServer` / `UNIXServer` (one to three accepted connections, each with its own writes and
close request), `TCPClient`, `UNIXClient` and `File` components are driven in-process: real `write` /
`close` events and real poller `_write` events, flushed to quiescence after every op.  A Server has
two forms of the close request: `close(sock)` (op `c`) and the server-wide `close()` (op `C`, index
-1), which is a close request on every connection accepted so far, at that point of its trace (the
listening socket is not a stream endpoint; its disconnect is not attributed to any connection).  A
connection may be accepted later (op `acc`, case key `late`): it has no close request pending.  What is substituted (from outside, no hooks):

  * the socket: `SockDouble`, a `socket.socket` subclass whose `send` follows the outcome
    the op carries (accept k bytes / raise errno) and records every call; closed -> EBADF,
  * for `File`: the module global `circuits.io.file.fd_write` and a file-object double,
  * the poller: `PollerDouble`, a `BasePoller` (the real interest bookkeeping) that never polls.

Correspondence (B): per op, the observer-visible events (send calls with the bytes accepted
or the errno, socket close, `error` / disconnect events, handler exceptions, writer interest)
against CV.Model.Stream.step.  Spec on impl (C): CV.Model.StreamSpec.check evaluated by the
Lean driver on the implementation's own event stream.  Parameter obligations: the reaction
of each `_write` to every errno Python knows is measured on the live code and the driver
evaluates the theorems' hypothesis `goodTable` on it.
"""
import errno
import itertools
import os
import shutil
import socket
import tempfile
import zlib

from framework import Infra, ddmin, hx, unhx

TRANSIENT = (11, 4, 105)      # EAGAIN/EWOULDBLOCK, EINTR, ENOBUFS (checked in params())
KINDS = ('server', 'unixserver', 'tcpclient', 'unixclient', 'file')
SERVERS = ('server', 'unixserver')
MODEL_KIND = {'server': 'server', 'unixserver': 'server', 'tcpclient': 'client', 'unixclient': 'client', 'file': 'file'}
BIG = 1 << 40
PROBE_DEFAULT = 9999          # an errno no table mentions


def pattern(n, seed):
    return bytes(((seed + 31 * i + i // 251) & 255) for i in range(n))


_pat_cache = {}


def payload_of(op):
    """op = ['w', hex] | ['wp', len, seed]"""
    if op[0] == 'w':
        return unhx(op[1])
    key = (op[1], op[2])
    if key not in _pat_cache:
        if len(_pat_cache) > 8:
            _pat_cache.clear()
        _pat_cache[key] = pattern(op[1], op[2])
    return _pat_cache[key]


# ---------------------------------------------------------------------------------------
# doubles
# ---------------------------------------------------------------------------------------

class Script:
    """outcome of the send calls of the current op + 'a dead socket stays dead'"""

    def __init__(self):
        self.outcome = None
        self.dead = False

    def effective(self, planned):
        if self.dead and (planned[0] == 'a' or planned[1] in TRANSIENT):
            return ('r', errno.EPIPE)
        return planned


def _send(double, data):
    """common send behaviour of socket and fd double"""
    data = bytes(data)
    if double.is_closed:
        double.log.append(('r', errno.EBADF))
        raise OSError(errno.EBADF, os.strerror(errno.EBADF))
    o = double.script.outcome
    if o is None:
        raise Infra('send() outside a writable op')
    if o[0] == 'a':
        n = min(o[1], len(data))
        double.log.append(('a', data[:n]))
        return n
    if o[1] not in TRANSIENT:
        double.script.dead = True
    double.log.append(('r', o[1]))
    raise OSError(o[1], os.strerror(o[1]) if o[1] < 1000 else 'unknown')


class SockDouble(socket.socket):
    def __init__(self, ident):
        super().__init__(socket.AF_INET, socket.SOCK_STREAM)
        self.ident = ident
        self.log = []
        self.script = Script()
        self.is_closed = False

    def send(self, data, *flags):
        return _send(self, data)

    def setblocking(self, flag):
        pass

    def getpeername(self):
        return ('127.0.0.1', 40000 + self.ident)

    def getsockname(self):
        return ('127.0.0.1', 50000 + self.ident)

    def shutdown(self, how):
        self.log.append(('shutdown',))

    def close(self):
        self.log.append(('x',))
        self.is_closed = True
        super().close()

    def release(self):
        socket.socket.close(self)


class FdDouble:
    """stands for an open binary file object (File accepts a file object as `filename`)"""

    mode = 'wb'
    name = '<double>'

    def __init__(self):
        self._fileno = os.open(os.devnull, os.O_WRONLY)
        self.log = []
        self.script = Script()
        self.is_closed = False

    @property
    def closed(self):
        return self.is_closed

    def fileno(self):
        if self.is_closed:
            raise ValueError('I/O operation on closed file')
        return self._fileno

    def close(self):
        self.log.append(('x',))
        if not self.is_closed:
            self.is_closed = True
            os.close(self._fileno)

    def release(self):
        if not self.is_closed:
            self.is_closed = True
            os.close(self._fileno)


def make_poller():
    from circuits.core.pollers import BasePoller

    class PollerDouble(BasePoller):
        channel = 'pollerdouble'

        def _generate_events(self, event):
            pass

    return PollerDouble()


# ---------------------------------------------------------------------------------------
# endpoints: drive the real components
# ---------------------------------------------------------------------------------------

class Trace(list):
    """the events observed on one connection; `foreign` = positions of the events that happened
    while the op being executed was addressed to ANOTHER connection of the same component"""

    def __init__(self, *a):
        super().__init__(*a)
        self.foreign = set()
        self.wide = set()      # positions of the events that happened during a server-wide close()
        self.stats = {}


class Endpoint:
    """one real component with `nconn` stream endpoints"""

    def __init__(self, kind, nconn=1, late=()):
        from circuits import Manager
        from circuits.core.pollers import _write
        from cutil import Capture, drain
        self.kind = kind
        self._drain = drain
        self._write_ev = _write
        self.m = Manager()
        self.poller = make_poller().register(self.m)
        self.cap = Capture({'error', 'disconnect', 'disconnected', 'closed', 'exception'}).register(self.m)
        self.restore = []
        self.tmpdir = None
        self.accepted = [True] * nconn
        if kind in SERVERS:
            from circuits.net.events import close, write
            from circuits.net.sockets import TCPServer, UNIXServer
            if kind == 'server':
                self.comp = TCPServer(('127.0.0.1', 0)).register(self.m)
            else:
                self.tmpdir = tempfile.mkdtemp(prefix='c11-')
                self.comp = UNIXServer(os.path.join(self.tmpdir, 's')).register(self.m)
            drain(self.m)
            self.doubles = [SockDouble(i) for i in range(nconn)]
            self.accepted = [i not in late for i in range(nconn)]
            for i, d in enumerate(self.doubles):
                if self.accepted[i]:
                    self.comp._on_accept_done(d)
            self._mk_write = lambda i, p: write(self.doubles[i], p)
            self._mk_close = lambda i: close(self.doubles[i])
            self._mk_close_all = lambda: close()
        elif kind in ('tcpclient', 'unixclient'):
            from circuits.net.events import close, write
            from circuits.net.sockets import TCPClient, UNIXClient
            d = SockDouble(0)
            self.doubles = [d]
            self.comp = (TCPClient if kind == 'tcpclient' else UNIXClient)(d).register(self.m)
            self.comp._connected = True      # as circuits.net.sockets.Pipe does
            self._mk_write = lambda i, p: write(p)
            self._mk_close = lambda i: close()
        elif kind == 'file':
            import circuits.io.file as fmod
            from circuits.io.events import close, write
            d = FdDouble()
            self.doubles = [d]
            old = fmod.fd_write
            fmod.fd_write = lambda fileno, data: _send(d, data)
            self.restore.append(lambda: setattr(fmod, 'fd_write', old))
            self.comp = fmod.File(d, channel='file').register(self.m)
            self._mk_write = lambda i, p: write(p)
            self._mk_close = lambda i: close()
        else:
            raise Infra(f'unknown kind {kind}')
        drain(self.m)
        del self.cap.log[:]
        for d in self.doubles:
            del d.log[:]
        self.traces = [Trace() for _ in self.doubles]

    def handle(self, i):
        return self.doubles[i]

    def interest(self, i):
        return self.poller.isWriting(self.handle(i))

    def accept(self, i):
        """the connection is accepted now (as Server._accept / the TLS handshake do when they are done)"""
        self.comp._on_accept_done(self.doubles[i])
        self._drain(self.m)
        self.accepted[i] = True

    def _conn_of_event(self, name, args, default):
        if self.kind in SERVERS and name in ('error', 'disconnect'):
            if args and isinstance(args[0], SockDouble):
                return args[0].ident
            if name == 'disconnect':
                return None       # the listening socket: not a stream endpoint
        return default

    def op(self, i, op, planned=None):
        """execute one op on connection i (server-wide close: on every accepted connection, i is
        ignored); returns the event tokens (with real bytes) of this op per connection"""
        wide = op[0] == 'C'
        targets = [j for j in range(len(self.doubles)) if self.accepted[j]] if wide else [i]
        d = None if wide else self.doubles[i]
        marks = [len(x.log) for x in self.doubles]
        cmark = len(self.cap.log)
        evs = {j: [] for j in range(len(self.doubles))}
        if wide:
            if self.kind not in SERVERS:
                raise Infra('server-wide close on a non-server endpoint')
            for j in targets:
                evs[j].append(('cr',))
            self.m.fire(self._mk_close_all(), self.comp.channel)
        elif op[0] in ('w', 'wp'):
            evs[i].append(('w', op))
            self.m.fire(self._mk_write(i, payload_of(op)), self.comp.channel)
        elif op[0] == 'c':
            evs[i].append(('cr',))
            self.m.fire(self._mk_close(i), self.comp.channel)
        elif op[0] == 'p':
            d.script.outcome = planned
            self.m.fire(self._write_ev(d), self.comp.channel)
        else:
            raise Infra(f'bad op {op}')
        try:
            self._drain(self.m)
        finally:
            if d is not None:
                d.script.outcome = None
        for j, x in enumerate(self.doubles):
            for rec in x.log[marks[j]:]:
                if rec[0] != 'shutdown':
                    evs[j].append(rec)
        for name, args, _kw, _ch in self.cap.log[cmark:]:
            j = self._conn_of_event(name, args, '*' if wide else i)
            if j is None:
                continue
            # an event of a server-wide close that names no connection concerns all of them
            for j in (targets if j == '*' else [j]):
                if name == 'error':
                    evs[j].append(('e',))
                elif name in ('disconnect', 'disconnected'):
                    evs[j].append(('d',))
                elif name == 'closed':
                    # net `closed` (server shut down) is not a per-connection event; File's is
                    if self.kind == 'file':
                        evs[j].append(('d',))
                elif name == 'exception':
                    evs[j].append(('!', repr(args[:2])))
        for j in targets:
            evs[j].append(('b', 1 if self.interest(j) else 0))
        for j in evs:
            span = range(len(self.traces[j]), len(self.traces[j]) + len(evs[j]))
            if j not in targets:
                self.traces[j].foreign.update(span)
            elif wide:
                self.traces[j].wide.update(span)
            self.traces[j].extend(evs[j])
        return evs

    def teardown(self):
        for f in self.restore:
            f()
        for d in self.doubles:
            try:
                d.release()
            except OSError:
                pass
        for fd in (self.poller._ctrl_recv, self.poller._ctrl_send):
            try:
                os.close(fd)
            except (OSError, TypeError):
                pass
        if self.kind in SERVERS and self.comp._sock is not None:
            try:
                self.comp._sock.close()
            except OSError:
                pass
        if self.tmpdir:
            shutil.rmtree(self.tmpdir, ignore_errors=True)


# token forms --------------------------------------------------------------------------------

def tok_compare(rec):
    """token as the model prints it"""
    t = rec[0]
    if t == 'w':
        return 'w'
    if t == 'a':
        return f'a:{len(rec[1])}:{zlib.adler32(rec[1])}'
    if t == 'r':
        return f'r:{rec[1]}'
    if t == 'b':
        return f'b:{rec[1]}'
    if t == '!':
        return '!'
    return t


def tok_spec(rec):
    """token with the real bytes, for the spec"""
    t = rec[0]
    if t == 'w':
        op = rec[1]
        return f'w:{op[1]}' if op[0] == 'w' else f'wp:{op[1]}:{op[2]}'
    if t == 'a':
        return f'a:{hx(rec[1])}'
    return tok_compare(rec)


def canon(tokens):
    """send/close calls happen inside the handler, events are dispatched after it: compare the
    two groups separately (each in its own order), then the boundary"""
    sys_ = [t for t in tokens if t[0] in 'wacrx' and not t.startswith('b:')]
    evs = [t for t in tokens if t in ('e', 'd', '!')]
    bd = [t for t in tokens if t.startswith('b:')]
    return sys_, evs, bd


def op_line(op, planned):
    if op[0] == 'w':
        return f'w {op[1]}'
    if op[0] == 'wp':
        return f'wp {op[1]} {op[2]}'
    if op[0] == 'c':
        return 'c'
    return f'p {planned[0]} {planned[1]}'


# ---------------------------------------------------------------------------------------
# errno tables measured on the live code (parameter obligations)
# ---------------------------------------------------------------------------------------

_tables = {}


def measure_table(kind):
    """for every errno: what does `_write` do when send raises it?  (requeue, error, close)"""
    if kind in _tables:
        return _tables[kind]
    table = {}
    for e in sorted(errno.errorcode) + [PROBE_DEFAULT]:
        ep = Endpoint(kind)
        try:
            ep.op(0, ['w', '6162'])
            ep.op(0, ['w', '63'])
            ev = ep.op(0, ['p'], ('r', e))[0]
            names = [r[0] for r in ev]
            err = 'e' in names
            closed = 'x' in names
            requeue = False
            if not closed:
                ep.doubles[0].script.dead = False
                ev2 = ep.op(0, ['p'], ('a', BIG))[0]
                sent = [r[1] for r in ev2 if r[0] == 'a']
                requeue = sent[:1] == [b'ab']
            table[e] = (requeue, err, closed)
        finally:
            ep.teardown()
    _tables[kind] = table
    return table


def acts_line(kind):
    t = measure_table(kind)
    rec = lambda r: ''.join('1' if b else '0' for b in r)
    return 'acts ' + rec(t[PROBE_DEFAULT]) + ' ' + ' '.join(f'{e}:{rec(r)}' for e, r in sorted(t.items()) if e != PROBE_DEFAULT)


def params(ctx):
    ok = (errno.EAGAIN == errno.EWOULDBLOCK == 11 and errno.EINTR == 4 and errno.ENOBUFS == 105 and errno.EBADF == 9)
    ctx.param('errno-constants', ok, 'EAGAIN=EWOULDBLOCK=11, EINTR=4, ENOBUFS=105, EBADF=9 as in CV.Stream')
    for kind in KINDS:
        t = measure_table(kind)
        ans = ctx.driver.run('stream', [f'kind {MODEL_KIND[kind]}', acts_line(kind), 'goodacts'])
        bad = [errno.errorcode.get(e, str(e)) for e, r in sorted(t.items())
               if (e in TRANSIENT and not (r[0] and not r[2])) or (e not in TRANSIENT and not (r[1] or r[2]))]
        ctx.param(f'goodTable({kind})', ans[2] == 'ok',
                  f'{len(t)} errnos measured on {kind}._write; transient={ {errno.errorcode[e]: t[e] for e in TRANSIENT} } '
                  f'(requeue,error,close); offending={bad[:8]}')
        if (ans[2] == 'ok') != (not bad):
            raise Infra('goodTable: driver and harness disagree')


# ---------------------------------------------------------------------------------------
# running cases
# ---------------------------------------------------------------------------------------

def run_impl(case):
    """returns (executed ops per connection as model lines, traces per connection)"""
    kind = case['kind']
    nconn = case.get('nconn', 1)
    ep = Endpoint(kind, nconn, tuple(case.get('late', ())))
    lines = [[] for _ in range(nconn)]
    perop = [[] for _ in range(nconn)]
    stats = {'wide': 0, 'wide-buffered': 0, 'per-socket': 0, 'late': 0}
    try:
        def do(i, op):
            if op[0] == 'acc':
                if not ep.accepted[i]:
                    ep.accept(i)
                    stats['late'] += 1
                return
            if op[0] == 'C':
                targets = [j for j in range(nconn) if ep.accepted[j]]
                stats['wide'] += 1
                stats['wide-buffered'] += sum(1 for j in targets if ep.interest(j))
                evs = ep.op(None, op)
                for j in range(nconn):
                    if j in targets:
                        lines[j].append('c')
                        perop[j].append(evs[j])
                    elif evs[j]:
                        perop[j].append(('foreign', evs[j]))
                return
            if not ep.accepted[i]:
                return            # an op on a connection that does not exist (yet): not executed
            if op[0] == 'c':
                stats['per-socket'] += 1
            planned = None
            if op[0] == 'p':
                planned = ep.doubles[i].script.effective((op[1], op[2]))
            evs = ep.op(i, op, planned)
            lines[i].append(op_line(op, planned))
            perop[i].append(evs[i])
            for j in evs:
                if j != i and evs[j]:
                    perop[j].append(('foreign', evs[j]))
        # measured for the evidence: how many deferred closes were pending together, and whether
        # they completed in another order than they were requested
        req_order, done_order, maxpend = [], [], 0
        seen = [0] * nconn
        has_cr = [False] * nconn
        has_x = [False] * nconn

        def watch():
            nonlocal maxpend
            pend = 0
            for j, tr in enumerate(ep.traces):
                for r in tr[seen[j]:]:
                    if r[0] == 'cr':
                        has_cr[j] = True
                    elif r[0] == 'x':
                        has_x[j] = True
                seen[j] = len(tr)
                if has_cr[j] and not has_x[j] and ep.interest(j):
                    pend += 1
                    if j not in req_order:
                        req_order.append(j)
                elif has_x[j] and j in req_order and j not in done_order:
                    done_order.append(j)
            maxpend = max(maxpend, pend)
        for op in case['ops']:
            do(op[0], op[1:])
            if nconn > 1:
                watch()
        if case.get('drain', True):
            # the poller reports an endpoint writable as long as it is registered as a writer
            for i in range(nconn):
                n = 0
                while ep.interest(i) and n < 64:
                    do(i, ['p', 'a', BIG])
                    n += 1
                    if nconn > 1:
                        watch()
        stats['maxpend'] = maxpend
        stats['crossed'] = done_order != [j for j in req_order if j in done_order]
        ep.traces[0].stats = stats
        return lines, perop, ep.traces
    finally:
        ep.teardown()


def classify(case, conn, trace, clause):
    """deterministic signature of a failing (minimised) case"""
    kind = MODEL_KIND[case['kind']]
    if clause in ('not-next-bytes', 'stalled', 'close-before-drain'):
        # replay the trace up to the failure; a transient refusal after which bytes went
        # missing is the `payload-dropped` shape
        pending = b''
        accepted = b''
        last_transient = None
        foreign = getattr(trace, 'foreign', ())
        for pos, rec in enumerate(trace):
            if rec[0] == 'x' and pending and pos in getattr(trace, 'wide', ()):
                # the server-wide form of the close request did not wait for this connection's buffer
                return f'close-before-drain({kind},server-wide-close)'
            if rec[0] == 'x' and pending and pos in foreign:
                # closed with bytes pending while the component was handling an op of another
                # connection (whatever happened on this one before)
                return f'close-before-drain({kind},during-op-of-other-connection)'
            if rec[0] == 'w':
                pending += payload_of(rec[1])
            elif rec[0] == 'r' and rec[1] in TRANSIENT:
                last_transient = rec[1]
            elif rec[0] == 'r':
                break
            elif rec[0] == 'a':
                if pending.startswith(rec[1]):
                    pending = pending[len(rec[1]):]
                    accepted += rec[1]
                    continue
                if last_transient is not None:
                    return f'payload-dropped({kind},{errno.errorcode[last_transient]})'
                if rec[1] and accepted.endswith(rec[1]):
                    return f'duplicate({kind})'
                return f'reorder-or-loss({kind})'
            elif rec[0] == 'x' or (rec[0] == 'b' and rec[1] == 0):
                if pending and last_transient is not None:
                    return f'payload-dropped({kind},{errno.errorcode[last_transient]})'
                if pending:
                    return ('close-before-drain' if rec[0] == 'x' else 'stalled-interest') + f'({kind})'
        return f'{clause}({kind})'
    if clause == 'fatal-unsignalled':
        errs = [rec[1] for rec in trace if rec[0] == 'r' and rec[1] not in TRANSIENT]
        return f'fatal-unsignalled({kind},{errno.errorcode.get(errs[-1], errs[-1]) if errs else "?"})'
    return f'{clause}({kind})'


def spec_of(ctx, kind, traces):
    lines = []
    for tr in traces:
        if not tr:
            tr = [('b', 0)]      # a connection that was never accepted (keeps the answers aligned)
        lines.append([f'kind {MODEL_KIND[kind]}', 'spec ' + ' '.join(tok_spec(r) for r in tr)])
    return [a[1] for a in ctx.driver.batch('stream', lines)]


def minimise(ctx, case, clause):
    def fails(ops):
        c = dict(case, ops=ops)
        try:
            _l, _p, traces = run_impl(c)
        except Infra:
            raise
        except Exception:
            return False
        return any(a == f'fail {clause}' for a in spec_of(ctx, c['kind'], traces))
    try:
        ops = ddmin(case['ops'], fails)
    except Infra:
        raise
    return dict(case, ops=ops)


_budget = [30]
_sigmap = {}


def evaluate(ctx, cases):
    impl = []
    batch = []
    index = []
    for ci, case in enumerate(cases):
        try:
            lines, perop, traces = run_impl(case)
        except Infra:
            raise
        except Exception as e:
            # handler exceptions are caught by circuits (and observed as `!`); anything that
            # escapes here comes from the harness itself
            raise Infra(f'driving {case["kind"]} raised {e!r}')
        impl.append((lines, perop, traces))
        head = [f'kind {MODEL_KIND[case["kind"]]}', acts_line(case['kind'])]
        for i in range(len(lines)):
            if not lines[i] and not traces[i]:
                continue          # a connection that was never accepted: there is nothing to judge
            batch.append(head + lines[i] + ['spec ' + ' '.join(tok_spec(r) for r in traces[i])])
            index.append((ci, i))
    answers = ctx.driver.batch('stream', batch) if batch else []
    per_case = {}
    for (ci, i), ans in zip(index, answers):
        per_case.setdefault(ci, []).append((i, ans))
    for ci, case in enumerate(cases):
        if impl[ci] is None:
            ctx.case(case, validated=False)
            continue
        lines, perop, traces = impl[ci]
        kind = MODEL_KIND[case['kind']]
        ok = True
        nontrivial = False
        for i, ans in per_case.get(ci, []):
            if ans[0] != 'ok' or ans[1] != 'ok':
                raise Infra(f'driver refused kind/acts: {ans[:2]}')
            model_ops = ans[2:-1]
            k = 0
            for n, evs in enumerate(perop[i]):
                if isinstance(evs, tuple) and evs[0] == 'foreign':
                    ok = False
                    ctx.disagree(case, {'where': 'stream.foreign', 'conn': i,
                                        'impl': [tok_compare(r) for r in evs[1]], 'model': 'nothing (op of another connection)'})
                    continue
                want = canon([tok_compare(r) for r in evs])
                got = canon(model_ops[k].split())
                if want != got and ok:
                    ok = False
                    ctx.disagree(case, {'where': f'stream.step({kind})', 'conn': i, 'op': k, 'line': lines[i][k],
                                        'impl': ' '.join(tok_compare(r) for r in evs), 'model': model_ops[k]})
                k += 1
            verdict = ans[-1]
            tr = traces[i]
            names = [r[0] for r in tr]
            if 'a' in names:
                ctx.count('branch', 'accept')
            for r in tr:
                if r[0] == 'r':
                    ctx.count('errno', errno.errorcode.get(r[1], r[1]))
            if any(r[0] == 'r' and r[1] in TRANSIENT for r in tr):
                ctx.count('branch', 'transient-refusal')
            if any(r[0] == 'r' and r[1] not in TRANSIENT for r in tr):
                ctx.count('branch', 'fatal-or-closed-refusal')
            if 'cr' in names and 'x' in names:
                ci_, xi_ = names.index('cr'), names.index('x')
                ctx.count('branch', 'deferred-close' if any(n == 'a' for n in names[ci_:xi_]) else 'immediate-or-fatal-close')
            if 'x' in names and 'w' in names[names.index('x'):]:
                ctx.count('branch', 'write-after-close')
            if '!' in names:
                ctx.count('branch', 'handler-raised')
            if verdict == 'osbad':
                raise Infra('socket double accepted bytes after a fatal error')
            if verdict.startswith('fail'):
                clause = verdict.split()[1]
                small = case
                prelim = sig = classify(case, i, tr, clause)
                if _budget[0] > 0 or (clause, prelim) not in _sigmap:
                    # minimise, then classify the minimal case (the classifier looks at what is left);
                    # a preliminary signature not seen before is always minimised (there are only
                    # kinds x shapes x errnos of them), repeats only while the budget lasts
                    _budget[0] -= 1
                    small = minimise(ctx, case, clause)
                    try:
                        _l, _p, tr2 = run_impl(small)
                        cl = [c for c, a in enumerate(spec_of(ctx, small['kind'], tr2)) if a == f'fail {clause}']
                        if cl:
                            sig = classify(small, cl[0], tr2[cl[0]], clause)
                    except Infra:
                        raise
                    except Exception:
                        pass
                    _sigmap.setdefault((clause, prelim), sig)
                else:
                    sig = _sigmap.get((clause, prelim), prelim)
                ctx.violate(small, sig, f'{case["kind"]} connection {i}: spec clause {clause} fails on the '
                                        f'implementation\'s own event stream ({len(small["ops"])} ops)')
            elif verdict != 'ok':
                raise Infra(f'spec answer {verdict!r}')
            has_partial = any(r[0] == 'a' for r in tr) and any(r[0] == 'r' for r in tr)
            nontrivial = nontrivial or has_partial or ('x' in names and 'a' in names)
        st = traces[0].stats
        if len(traces) > 1:
            maxpend, crossed = st['maxpend'], st['crossed']
            ctx.count('connections', len(traces))
            ctx.count('deferred-closes-pending-together', maxpend)
            if maxpend >= 2:
                ctx.count('branch', 'deferred-closes-complete-' + ('out-of-request-order' if crossed else 'in-request-order'))
        if case['kind'] in SERVERS:
            ctx.count('close-request', 'server-wide close()', st['wide'])
            ctx.count('close-request', 'close(sock)', st['per-socket'])
            if st['wide']:
                ctx.count('branch', 'server-wide-close-' + ('while-data-buffered' if st['wide-buffered'] else 'nothing-buffered'))
                ctx.count('connections-with-buffered-data-at-server-wide-close', st['wide-buffered'])
            if st['late']:
                ctx.count('branch', 'connection-accepted-later')
        ctx.count('kind', case['kind'])
        ctx.count('ops', min(len(case['ops']) // 4 * 4, 40))
        ctx.case(case if len(str(case)) < 2000 else {'kind': case['kind'], 'note': 'large case', 'nops': len(case['ops'])},
                 nontrivial=nontrivial, validated=ok)


# ---------------------------------------------------------------------------------------
# generators
# ---------------------------------------------------------------------------------------

FATALS = [errno.EPIPE, errno.ECONNRESET, errno.ENOTCONN, errno.EBADF, errno.EIO, errno.ETIMEDOUT]
SMALL_ALPHA = [['w', '-'], ['w', '61'], ['w', '6263'], ['c'],
               ['p', 'a', 0], ['p', 'a', 1], ['p', 'a', 9],
               ['p', 'r', 11], ['p', 'r', 4], ['p', 'r', 105], ['p', 'r', 32], ['p', 'r', 104]]


def exhaustive_cases(ctx):
    depth = 3 if ctx.tier == 'quick' and not ctx.searching else 4
    alpha = SMALL_ALPHA if depth == 3 else [SMALL_ALPHA[i] for i in (0, 1, 2, 3, 4, 5, 6, 7, 10)]
    cases = []
    for kind in ('server', 'tcpclient', 'file'):   # UNIXClient shares Client's methods: random/huge/corpus only
        # a Server has a second form of the close request, the server-wide close()
        alpha_k = alpha + [['C']] if kind in SERVERS else alpha
        for n in range(1, depth + 1):
            for tup in itertools.product(alpha_k, repeat=n):
                if not any(o[0] == 'w' for o in tup):
                    continue
                cases.append({'kind': kind, 'ops': [[-1 if o == ['C'] else 0] + o for o in tup]})
    return cases


def rand_payload(rng, big):
    r = rng.random()
    if r < 0.08:
        return ['w', '-']
    if r < 0.55:
        return ['w', hx(bytes(rng.randrange(256) for _ in range(rng.choice([1, 1, 2, 2, 3, 5, 8]))))]
    if r < 0.80:
        return ['wp', rng.choice([4095, 4096, 4097, 17, 300]), rng.randrange(256)]
    return ['wp', rng.choice(big), rng.randrange(256)]


def rand_outcome(rng, lens):
    r = rng.random()
    if r < 0.30:
        n = rng.choice(lens) if lens else 1
        return ['p', 'a', rng.choice([0, 1, 2, max(0, n - 1), max(1, n // 2), rng.randrange(0, max(1, n))])]
    if r < 0.45:
        return ['p', 'r', rng.choice(TRANSIENT)]
    if r < 0.50:
        return ['p', 'r', rng.choice(FATALS)]
    return ['p', 'a', BIG]


def random_case(rng, kind, big, nconn=1):
    npay = rng.randint(1, 12)
    ops = []
    lens = []
    close_at = rng.randint(0, npay + 2) if rng.random() < 0.8 else None
    for k in range(npay):
        if close_at == k:
            ops.append(['c'])
        w = rand_payload(rng, big)
        lens.append(len(w[1]) // 2 if w[0] == 'w' else w[1])
        ops.append(w)
        for _ in range(rng.choice([0, 0, 1, 1, 2, 3])):
            ops.append(rand_outcome(rng, lens))
    if close_at is not None and close_at >= npay:
        ops.append(['c'])
    for _ in range(rng.randint(0, 6)):
        ops.append(rand_outcome(rng, lens))
    if rng.random() < 0.15:
        ops.append(['w', '7a7a'])
        ops.append(['p', 'a', BIG])
    if kind in SERVERS:
        # a Server has two forms of the close request: close(sock) and the server-wide close()
        ops = [['C'] if o == ['c'] and rng.random() < 0.3 else o for o in ops]
    if nconn == 1:
        return {'kind': kind, 'nconn': nconn, 'ops': [[-1 if o == ['C'] else 0] + o for o in ops]}
    # several connections: the ops above are dealt out at random; the close request (if any) goes
    # to one connection, and every OTHER connection gets a close request of its own at a random
    # position with probability 0.7 - deferred closes of several connections are pending together
    out = [([-1] if o == ['C'] else [rng.randrange(nconn)]) + o for o in ops]
    owners = {o[0] for o in out if o[1] == 'c'}
    for i in range(nconn):
        if i not in owners and rng.random() < 0.7:
            out.insert(rng.randint(0, len(out)), [i, 'c'])
    if rng.random() < 0.3:
        out.insert(rng.randint(0, len(out)), [-1, 'C'])
    return {'kind': kind, 'nconn': nconn, 'ops': out}


def random_cases(ctx):
    rng = ctx.rng
    cases = []
    big = [65536] if ctx.tier == 'quick' else [65536, 65537, 1 << 18]
    per_kind = 100 * ctx.scale
    for kind in KINDS:
        for _ in range(per_kind):
            cases.append(random_case(rng, kind, big))
    for k in range(60 * ctx.scale):
        cases.append(random_case(rng, SERVERS[k % 5 == 4], big, nconn=2 if k % 3 else 3))
    return cases


# several connections of one Server, each with its own close request ------------------------------

ROLES = ('D', 'L', 'N', 'I')
#  D  writes, then close while everything is still buffered (deferred close)
#  L  writes, part of it is accepted, then close (deferred close, requested late)
#  N  writes, no close request at all (must stay open and keep its bytes)
#  I  close requested with an empty buffer (immediate), written to afterwards


def crossed_case(roles, req_order, drain_order, variant):
    """Directed: every connection gets its writes (and close request) in `req_order`, all of them
    are then held back by partial accepts / transient refusals so that the close requests are
    pending AT THE SAME TIME, and finally they are allowed to drain one after the other in
    `drain_order` - while the others keep seeing partial accepts.  Deterministic."""
    n = len(roles)
    ops = []
    npay = {}
    for k, i in enumerate(req_order):
        r = roles[i]
        if r == 'I':
            ops.append([i, 'c'])
            ops.append([i, 'w', hx(bytes([0x49, 0x30 + i]))])
            npay[i] = 0
            continue
        cnt = 1 + (i + k + variant) % 3
        npay[i] = cnt
        for q in range(cnt):
            if variant % 2 and q == 0:
                ops.append([i, 'wp', 4097, 16 * i + variant])
            else:
                ops.append([i, 'w', hx(bytes([0x41 + 8 * i + q] * (2 + q + i)))])
        if r == 'L':
            ops.append([i, 'p', 'a', 1])
        if r in 'DL':
            ops.append([i, 'c'])
    # hold everybody back: nothing may be closed, nothing lost
    for i in range(n):
        ops.append([i, 'p', 'r', TRANSIENT[(i + variant) % 3]])
        ops.append([i, 'p', 'a', 1])
    # drain in the given order; after each step of the draining connection the others move a little
    for i in drain_order:
        for q in range(npay[i] + 1):
            ops.append([i, 'p', 'a', BIG])
            for j in range(n):
                if j != i:
                    ops.append([j, 'p', 'a', (q + j + variant) % 2])
    return {'kind': 'server', 'nconn': n, 'ops': ops}


def directed_cases(ctx):
    """Same list in both tiers and for every seed."""
    cases = []
    for n in (2, 3):
        conns = list(range(n))
        for roles in itertools.product(ROLES, repeat=n):
            if sum(r in 'DL' for r in roles) < 2 and not (n == 2 and sum(r in 'DL' for r in roles) == 1):
                continue
            v = 0
            for req in itertools.permutations(conns):
                for dr in itertools.permutations(conns):
                    cases.append(crossed_case(roles, list(req), list(dr), v))
                    v += 1
    return cases


# the server-wide form of the close request -------------------------------------------------------

WIDE_STATES = ('E', 'B', 'P', 'Q', 'T', 'X')
#  state of a connection when the server-wide close() comes:
#  E  nothing buffered (never written to)          B  one or two whole payloads buffered
#  P  a partially sent payload buffered            Q  buffered + its own close(sock) already pending
#  T  buffered, last send refused transiently      X  already closed by its own close(sock)


def _wide_prefix(i, st, v):
    a = hx(bytes([0x61 + 5 * i] * (3 + i)))
    b = hx(bytes([0x62 + 5 * i] * (2 + v % 3)))
    big = ['wp', 4097, 32 * i + v]
    first = [i] + (big if (v + i) % 4 == 3 else ['w', a])
    if st == 'E':
        return []
    if st == 'B':
        return [first] + ([[i, 'w', b]] if v % 2 else [])
    if st == 'P':
        return [first, [i, 'w', b], [i, 'p', 'a', 1 + v % 2]]
    if st == 'Q':
        return [first, [i, 'c']]
    if st == 'T':
        return [first, [i, 'p', 'r', TRANSIENT[(i + v) % 3]]]
    if st == 'X':
        return [[i, 'c']]
    raise Infra(st)


def wide_case(kind, states, pos, v, late=False):
    """Directed: `states[i]` is what connection i looks like when the server-wide close() comes;
    pos = 'after' (all writes before it), 'between' (more writes after it) or 'before' (it comes
    first: the connections are closed at once, the writes go to closed connections).  Afterwards
    the connections are held back a little, one of them gets its own close(sock), and they drain
    in forward or reverse order.  late = one more connection is accepted after the close()."""
    n = len(states)
    ops = []
    pre = [o for i in range(n) for o in _wide_prefix(i, states[i], v)]
    if pos == 'before':
        ops.append([-1, 'C'])
        ops += pre
    else:
        ops += pre
        ops.append([-1, 'C'])
    if pos == 'between':
        for i in range(n):
            ops.append([i, 'w', hx(bytes([0x7a - i] * (1 + (v + i) % 3)))])
    total = n
    case = {'kind': kind, 'nconn': n, 'ops': ops}
    if late:
        j = n
        total = n + 1
        case['nconn'] = total
        case['late'] = [j]
        ops.append([j, 'acc'])
        ops.append([j, 'w', hx(bytes([0x4c] * 4))])
        ops.append([j, 'w', hx(bytes([0x6c] * 3))])
        if v % 2:
            ops.append([j, 'p', 'a', 2])
    for i in range(total):
        ops.append([i, 'p', 'a', (v + i) % 2])
        if (v + i) % 3 == 0:
            ops.append([i, 'p', 'r', TRANSIENT[(v + i) % 3]])
    ops.append([v % total, 'c'])
    if v % 4 == 1:
        ops.append([-1, 'C'])            # requested twice
    order = list(range(total))
    if v % 2:
        order.reverse()
    for i in order:
        for q in range(3):
            ops.append([i, 'p', 'a', BIG])
            if total > 1:
                ops.append([(i + 1) % total, 'p', 'a', q % 2])
    return case


def wide_cases(ctx):
    """Same list in both tiers and for every seed."""
    cases = []
    v = 0
    for kind in SERVERS:
        for n in (1, 2, 3):
            if n == 3 and kind != 'server':
                continue
            alphabet = WIDE_STATES if n < 3 else WIDE_STATES[:4]
            for states in itertools.product(alphabet, repeat=n):
                for pos in ('after', 'between', 'before'):
                    for _rep in range(2):
                        cases.append(wide_case(kind, states, pos, v))
                        v += 1
        for n in (1, 2):
            for states in itertools.product(WIDE_STATES[:4], repeat=n):
                for _rep in range(2):
                    cases.append(wide_case(kind, states, 'after', v, late=True))
                    v += 1
    return cases


def huge_cases(ctx):
    rng = ctx.rng
    size = (1 << 18) if ctx.tier == 'quick' else (1 << 21)
    cases = []
    for kind in KINDS:
        for rep in range(1 if ctx.tier == 'quick' else 2):
            s1, s2 = rng.randrange(256), rng.randrange(256)
            ops = [['wp', size, s1], ['p', 'a', size // 3], ['p', 'r', rng.choice(TRANSIENT)], ['w', '0102'],
                   ['p', 'a', rng.randrange(size // 2)], ['wp', size + 1, s2], ['c'], ['p', 'r', rng.choice(TRANSIENT)],
                   ['p', 'a', BIG], ['p', 'a', 5]]
            if kind == 'unixserver':
                ops = [['C'] if o == ['c'] else o for o in ops]
            cases.append({'kind': kind, 'ops': [[-1 if o == ['C'] else 0] + o for o in ops]})
    return cases


def run(ctx):
    ctx.rule = ('exhaustive: every op sequence of length <=3 (quick; <=4 over 9 symbols thorough) over writes of 0/1/2 bytes, '
                'close (for the server both close(sock) and the server-wide close()), writable with accept 0/1/all, EAGAIN, EINTR, '
                'ENOBUFS, EPIPE, ECONNRESET, for each of TCPServer connection, TCPClient, File; random: 1-12 payloads (0..3, 4095-4097, 64 KiB, 256 KiB bytes), 30% '
                'partial / 15% transient / 5% fatal outcomes, close at a random position, writes after close, all five kinds incl. UNIXServer and UNIXClient, two '
                'or three interleaved server connections, each with its own close request (70%); directed (both tiers, every seed): 2 and 3 '
                'connections of one TCPServer, every assignment of roles (close while all is buffered / close after a partial send / '
                'no close / close before the write) with at least two (one for 2 connections) deferred closes, every order of the '
                'requests x every order in which the connections are allowed to drain, the others held back by partial accepts '
                'and transient refusals; directed-server-wide-close (both tiers, every seed): TCPServer with 1-3 and UNIXServer with 1-2 '
                'connections, every combination of connection states at the moment of the server-wide close() (nothing buffered / whole '
                'payloads buffered / partially sent payload / own close(sock) pending / just refused transiently / already closed), '
                'close() before, between and after the writes, followed by a close(sock), optionally a second close(), a connection '
                'accepted after the close(), drains in both orders; random server cases: 30% of the close requests are server-wide, '
                'multi-connection cases get an extra close() with 30%, every fifth is a UNIXServer; huge: 256 KiB (quick) / 2 MiB (thorough) payloads; every case ends with the poller '
                'reporting writable while writer interest lasts. non-trivial = a trace with accepted bytes and a refusal, or '
                'accepted bytes and a close; distinct = distinct case')
    ctx.trusted += ['socket double: send accepts a prefix or raises OSError(errno); a closed socket raises EBADF; '
                    'after a fatal errno every later send fails (dead socket stays dead)',
                    'poller double = real BasePoller interest bookkeeping, never polls; `_write` events are fired by the harness',
                    'File: module global fd_write substituted; file object double (fileno() raises ValueError once closed)',
                    'accepted chunks are compared with the model by length+adler32; the spec receives the real bytes']
    ctx.assumptions += ['a server-wide close() is a close request on every connection accepted so far (what the property says '
                        'about a close request is demanded of each of them separately); nothing is demanded of the listening '
                        'socket, and a connection accepted afterwards has no close request pending',
                        'OS consistency: no bytes are accepted on a socket after it raised a fatal errno, nor after close()',
                        'ops = write / close(endpoint) / poller _write; peer-initiated disconnects, reads, TLS and '
                        'unregistering are not part of this model (C12)',
                        'errno numbers are those of this platform (Linux)']
    params(ctx)
    corpus = ctx.corpus()
    groups = [('corpus', corpus), ('directed', directed_cases(ctx)), ('directed-server-wide-close', wide_cases(ctx)), ('exhaustive', exhaustive_cases(ctx)),
              ('huge', huge_cases(ctx)), ('random', random_cases(ctx))]
    ctx.exhaustive = False
    for name, cases in groups:
        for i in range(0, len(cases), 300):
            evaluate(ctx, cases[i:i + 300])
            if ctx.time_up():
                return
        ctx.count('group', name, len(cases))


def search(ctx):
    run(ctx)


def replay(ctx, case):
    evaluate(ctx, [case])

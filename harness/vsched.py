"""
Controlled thread scheduler for C03 (and whoever needs deterministic interleavings).

Real Python threads, but exactly one *managed* thread runs at any time: a thread runs from one
scheduling point to the next and then hands the baton to the thread the schedule chooses.
Scheduling points are
  * every source line of the monitored functions (sys.monitoring LINE events), and
  * every potentially blocking operation of the doubles (lock acquire, Event.wait, select/poll).
A thread inside a blocking operation is *enabled* only when its predicate holds (lock free,
flag set, ctrl pipe readable).  Time-outs never expire by themselves: a run in which no thread
is enabled is *quiescent*; the owner decides (callback) whether that is the normal end or a
lost wake-up.

A schedule is the list of deviations `[(step, thread)]` from the default policy "keep running
the current thread while it is enabled, otherwise take the enabled thread with the smallest
index"; `step` counts scheduling decisions.  Same code + same deviations = same run.
"""
import sys
import threading

PARK_TIMEOUT = 30.0


class SchedError(Exception):
    pass


class _MT:
    __slots__ = ('idx', 'thread', 'sem', 'state', 'pred', 'what', 'exc')

    def __init__(self, idx):
        self.idx = idx
        self.thread = None
        self.sem = threading.Semaphore(0)
        self.state = 'new'      # new | ready | blocked | done
        self.pred = None
        self.what = None
        self.exc = None


class Sched:
    def __init__(self, deviations=None, chooser=None, max_steps=20000):
        self.th = []
        self.by_ident = {}
        self.cur = None
        self.active = False
        self.step = 0
        self.deviations = dict(deviations or {})
        self.chooser = chooser          # optional: f(step, default, enabled) -> idx
        self.applied = []               # deviations that took effect [(step, thread)]
        self.decisions = []             # (step, default, tuple(enabled)) for child generation
        self.record_decisions = True
        self.main_sem = threading.Semaphore(0)
        self.on_quiescent = None        # callback() -> None, may change predicates' outcome
        self.dead = False
        self.max_steps = max_steps
        self.overrun = False
        self.switches = 0

    # ------------------------------------------------------------------ thread management
    def spawn(self, fn, pred=None, what='start'):
        mt = _MT(len(self.th))
        self.th.append(mt)

        def body():
            self.by_ident[threading.get_ident()] = mt.idx
            self._park(mt.idx)
            mt.state, mt.pred, mt.what = 'ready', None, None
            try:
                if not self.dead:
                    fn()
            except BaseException as e:  # noqa
                mt.exc = e
            finally:
                self._finish(mt.idx)

        mt.thread = threading.Thread(target=body, daemon=True, name=f'sched-{mt.idx}')
        if pred is not None:
            mt.state, mt.pred, mt.what = 'blocked', pred, what
        else:
            mt.state = 'ready'
        mt.thread.start()
        return mt.idx

    def me(self):
        if not self.active:
            return None
        return self.by_ident.get(threading.get_ident())

    def go(self, timeout=60.0):
        """start with thread 0; returns when every thread is done or the run is dead"""
        self.active = True
        self.cur = 0
        self.th[0].sem.release()
        ok = self.main_sem.acquire(timeout=timeout)
        self.active = False
        if not ok:
            self.dead = True
            raise SchedError('scheduler run timed out')
        if not self.dead:
            for mt in self.th:
                mt.thread.join(5.0)

    def _park(self, idx):
        if not self.th[idx].sem.acquire(timeout=PARK_TIMEOUT if not self.dead else None):
            self.dead = True
            self.main_sem.release()
            self.th[idx].sem.acquire()

    def _enabled(self):
        res = []
        for mt in self.th:
            if mt.state == 'ready':
                res.append(mt.idx)
            elif mt.state == 'blocked' and mt.pred():
                res.append(mt.idx)
        return res

    def _finish(self, idx):
        mt = self.th[idx]
        mt.state = 'done'
        if self.dead:
            return
        en = self._enabled()
        if not en and any(t.state != 'done' for t in self.th) and self.on_quiescent:
            self.on_quiescent()
            en = self._enabled()
        if en:
            nxt = self._choose(idx, en)
            self.cur = nxt
            self.switches += 1
            self.th[nxt].sem.release()
        else:
            if any(t.state != 'done' for t in self.th):
                self.dead = True
            self.main_sem.release()

    def _choose(self, me, enabled):
        default = me if me in enabled else enabled[0]
        step = self.step
        self.step += 1
        if self.step > self.max_steps:
            self.overrun = True
        choice = default
        if self.chooser is not None:
            choice = self.chooser(step, default, enabled)
        elif step in self.deviations:
            choice = self.deviations[step]
        if choice not in enabled:
            choice = default
        if self.record_decisions and len(enabled) > 1:
            self.decisions.append((step, default, tuple(enabled)))
        if choice != default:
            self.applied.append((step, choice))
        return choice

    # ------------------------------------------------------------------ scheduling points
    def yield_point(self):
        me = self.me()
        if me is None or self.dead or me != self.cur:
            return
        en = self._enabled()
        nxt = self._choose(me, en)
        if nxt != me:
            self.cur = nxt
            self.switches += 1
            self.th[nxt].sem.release()
            self._park(me)

    def block_until(self, pred, what):
        """returns when scheduled with pred() true (pred may be made true by on_quiescent)"""
        me = self.me()
        if me is None or self.dead:
            return
        mt = self.th[me]
        mt.state, mt.pred, mt.what = 'blocked', pred, what
        while True:
            en = self._enabled()
            if not en and self.on_quiescent:
                self.on_quiescent()
                en = self._enabled()
            if not en:
                self.dead = True
                self.main_sem.release()
                self.th[me].sem.acquire()     # parked for ever (daemon thread)
            nxt = self._choose(me, en)
            if nxt == me:
                break
            self.cur = nxt
            self.switches += 1
            self.th[nxt].sem.release()
            self._park(me)
            if self.dead:
                return
            if pred():
                break
        mt.state, mt.pred, mt.what = 'ready', None, None


# ---------------------------------------------------------------------------------------
# sys.monitoring: a scheduling point before every line of the given code objects
# ---------------------------------------------------------------------------------------

class LineHooks:
    def __init__(self, codes, callback):
        self.codes = list(codes)
        self.callback = callback
        self.tool = None

    def __enter__(self):
        mon = sys.monitoring
        for tid in (4, 3, 5, 2, 1):
            try:
                mon.use_tool_id(tid, 'verif-c03')
                self.tool = tid
                break
            except ValueError:
                continue
        if self.tool is None:
            raise SchedError('no free sys.monitoring tool id')
        mon.register_callback(self.tool, mon.events.LINE, self.callback)
        for c in self.codes:
            mon.set_local_events(self.tool, c, mon.events.LINE)
        return self

    def __exit__(self, *a):
        mon = sys.monitoring
        for c in self.codes:
            mon.set_local_events(self.tool, c, 0)
        mon.register_callback(self.tool, mon.events.LINE, None)
        mon.free_tool_id(self.tool)
        self.tool = None

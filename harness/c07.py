"""C07 - see core_mod.SPEC['C07'] (generators, projections) and core_props.oracle_c07 (spec on the implementation)."""
import core_mod


def run(ctx):
    core_mod.run(ctx, 'C07')


def search(ctx):
    core_mod.run(ctx, 'C07')


def replay(ctx, case):
    core_mod.replay(ctx, 'C07', case)

"""
C12 - Every connection: one connect, ordered reads, one disconnect, then no trace.

A real `TCPServer` / `UNIXServer` with a real Select / Poll / EPoll is stepped in-process (explicit
zero-timeout poll rounds, `tick()` to quiescence, no `run()`); the peers are plain sockets driven by
the history.  What is substituted, from outside: the listening socket handed to the server is a
`socket.socket` subclass whose `accept()` returns `LogSock` objects - real sockets that record the
`recv`/`send`/`close`/`getpeername` calls the server makes on them.

Correspondence (B): per op, the `connect/read/disconnect/error` events in dispatch order, the socket
calls in order, and after every op the per-socket membership in `_clients`, `_buffers`, `_closeq`,
poller `_read`, `_write`, `_targets`, `_map`  vs.  CV.Model.Conn (machine `conn`).  The kernel is an
input tape: readiness comes from an independent fresh `select.poll()` probe, `recv`/`send` results
from the LogSock record (the model says which calls it makes; the records must coincide).
Spec on impl (C): CV.Conn.obsFail (ConnSpec.lean: per-socket automaton, reads = chunks recv
delivered, tables hold only connected sockets, closed sockets were disconnected) is evaluated by the
Lean driver on the implementation's own observations; plus the end-to-end comparison with what
the peer really sent (here, plain bytes comparison); plus the unread-input clause: immediately before
every round the harness asks the kernel (FIONREAD, independent of the server's own calls) how many
bytes are queued on each server-side socket; a round in which the server closes such a socket on its
own initiative (no `close`/injected hang-up for it earlier, no fatal `send` in that round) without
calling `recv()` at all, or with fewer bytes received than were queued, has lost input that the
kernel had delivered: `read-loss(no-recv-before-close,round)` / `read-loss(unread-left-at-close,round)`;
plus the termination clause: a connection that was announced with `connect` and whose peer has closed or
reset its socket must have got its `disconnect` once the server has been given rounds until nothing changes
any more (two consecutive rounds with the same readiness, the same socket calls with the same results, no
events and the same tables; the harness appends such rounds itself, bounded) - otherwise
`no-disconnect(after-peer-close,<pending-server-close|output-pending|idle>)`.  Connections whose peer is
still open (half closed, not reading) may stay pending and are not judged.
Clients: a real `TCPClient` against a plain listening socket; `connected`/`disconnected` events per
op vs. CV.Conn.Client, and CV.Conn.Client.alternates on the implementation's events.
W11 (additive): server-wide `close()` (`closeall`) and the `stopped` event (`stop`) at any point of a server
history (model ops `ca` / `st` = CV.Conn.XOp), judged on the implementation too: every connection that was open
without queued output must have got exactly one `disconnect` in the course of that op and be closed and in no
table, every one with queued output must wait in `_closeq` (or be disconnected), the listening socket must be
closed and unregistered (`server-close(...)` signatures); `accept()` faults (EAGAIN / EPERM / EMFILE / ENFILE /
ENOBUFS / ENOMEM / ECONNABORTED) injected through the listening-socket double: nothing may happen and the
connection is accepted in a later round; clients: `UNIXClient` against a unix listener and `Pipe()` ends, under
Select / Poll / EPoll, with `prepare_unregister` (`unreg`) and `stopped` (`cstop`) while connected, connect to a
dead port / dead path, connect-close-reconnect cycles; judged on the implementation: a connected client that is
unregistered (or stopped with nothing queued) reports exactly one `disconnected` in that op and its socket is closed
(`client-release(...)`).
"""
import errno
import fcntl
import os
import select
import shutil
import socket
import struct
import tempfile
import termios
import time

from framework import Infra, ddmin, hx

KINDS = ['select', 'poll', 'epoll']
FAMILIES = ['tcp', 'unix']
AGAIN_RECV = (errno.EWOULDBLOCK, errno.EAGAIN)
AGAIN_SEND = (errno.EINTR, errno.EWOULDBLOCK, errno.EAGAIN, errno.ENOBUFS)
F_CLIENTS, F_BUFFERS, F_CLOSEQ, F_READ, F_WRITE, F_TARGETS, F_MAP, F_CLOSED = 1, 2, 4, 8, 16, 32, 64, 128
MAXCONN = 6


class GE:
    """stand-in for the generate_events event: zero timeout"""
    time_left = 0

    def stop(self):
        pass

    def reduce_time_left(self, _t):
        pass


def settle(m, limit=400):
    n = 0
    while len(m) or m._tasks:
        m.tick()
        n += 1
        if n > limit:
            raise Infra('manager does not settle')


class LogSock(socket.socket):
    """a real socket that records what the server does with it"""
    rig = None
    oid = None

    def recv(self, *a):
        try:
            d = super().recv(*a)
        except OSError as e:
            self.rig.log.append(('R', self.oid, 'again' if e.args[0] in AGAIN_RECV else 'err'))
            raise
        self.rig.log.append(('R', self.oid, d.hex() if d else 'eof'))
        return d

    def send(self, data, *a):
        n = len(data)
        try:
            k = super().send(data, *a)
        except OSError as e:
            self.rig.log.append(('S', self.oid, n, 'again' if e.args[0] in AGAIN_SEND else 'fatal'))
            raise
        self.rig.log.append(('S', self.oid, n, str(k)))
        return k

    def getpeername(self):
        try:
            return super().getpeername()
        except OSError:
            self.rig.gone.add(self.oid)
            raise

    def close(self):
        if self.fileno() >= 0:
            self.rig.log.append(('X', self.oid))
        super().close()


class LogListen(socket.socket):
    rig = None

    def accept(self):
        if self.rig.faults:
            code = self.rig.faults.pop(0)
            self.rig.fault_log.append(code)
            raise OSError(code, os.strerror(code))
        fd, addr = self._accept()
        s = LogSock(self.family, self.type, self.proto, fileno=fd)
        self.rig.adopt(s)
        return s, addr


def make_observer(rig):
    from circuits import BaseComponent, handler

    class Observer(BaseComponent):
        channel = 'server'

        @handler('closed', priority=50)
        def _on_closed(self, event, *args):
            rig.log.append(('L', 'closed'))

        @handler('connect', 'read', 'disconnect', 'error', priority=50)
        def _on(self, event, *args):
            if args and args[0] is rig.ls:
                rig.log.append(('L', event.name))      # the listening socket is not an object of the pool
                return
            o = rig.ids.get(id(args[0]), None) if args else None
            if o is None:
                rig.log.append(('?', event.name))
                return
            if event.name == 'read':
                rig.log.append(('r', o, bytes(args[1]).hex()))
            else:
                rig.log.append(({'connect': 'c', 'disconnect': 'd', 'error': 'e'}[event.name], o))

    return Observer()


class Rig:
    """one real server + poller + observer; peers are plain sockets"""

    def __init__(self, kind, family):
        from circuits import Manager
        from circuits.core.pollers import EPoll, Poll, Select
        from circuits.net.sockets import TCPServer, UNIXServer
        self.kind, self.family = kind, family
        self.tmp = None
        self.log = []
        self.faults = []     # errno values the next accept() calls raise
        self.fault_log = []
        self.gone = set()
        self.socks = {}      # object id -> LogSock (kept for ever)
        self.ids = {}        # id(sock) -> object id
        self.fnos = {}       # object id -> file number at creation
        self.ever = []
        self.accepted = []   # object ids in accept order, not yet reported to the model
        self.peers = {}      # peer index -> socket
        self.sent = {}       # peer index -> bytes sent by the peer
        self.m = Manager()
        self.p = {'select': Select, 'poll': Poll, 'epoll': EPoll}[kind]().register(self.m)
        if family == 'tcp':
            ls = LogListen(socket.AF_INET, socket.SOCK_STREAM)
            ls.setsockopt(socket.SOL_SOCKET, socket.SO_REUSEADDR, 1)
            ls.bind(('127.0.0.1', 0))
            self.addr = ls.getsockname()
        else:
            self.tmp = tempfile.mkdtemp(prefix='c12-')
            ls = LogListen(socket.AF_UNIX, socket.SOCK_STREAM)
            self.addr = os.path.join(self.tmp, 's')
            ls.bind(self.addr)
        ls.rig = self
        ls.listen(64)
        ls.setblocking(False)
        self.ls = ls
        self.srv = (TCPServer if family == 'tcp' else UNIXServer)(ls).register(self.m)
        self.obs = make_observer(self).register(self.m)
        settle(self.m)
        del self.log[:]

    # --- bookkeeping ---------------------------------------------------------------------
    def adopt(self, s):
        o = len(self.socks) + 1
        s.rig, s.oid = self, o
        try:
            s.setsockopt(socket.SOL_SOCKET, socket.SO_SNDBUF, 4096)
        except OSError:
            pass
        self.socks[o] = s
        self.ids[id(s)] = o
        self.fnos[o] = s.fileno()
        if s.fileno() not in self.ever:
            self.ever.append(s.fileno())
        self.accepted.append(o)

    def probe_once(self):
        pp = select.poll()
        byno = {}
        for o, s in self.socks.items():
            if s.fileno() >= 0:
                pp.register(s.fileno(), select.POLLIN | select.POLLOUT)
                byno[s.fileno()] = 0
        for f, ev in pp.poll(0):
            byno[f] = ((1 if ev & select.POLLIN else 0) | (2 if ev & select.POLLOUT else 0)
                       | (4 if ev & select.POLLHUP else 0) | (8 if ev & select.POLLERR else 0))
        return ' '.join(f'{f}:{byno[f]}' if f in byno else f'{f}:x' for f in self.ever)

    def listener_ready(self):
        if self.ls.fileno() < 0:
            return False
        pp = select.poll()
        pp.register(self.ls.fileno(), select.POLLIN)
        return bool(pp.poll(0))

    def probe(self):
        """readiness of every open pool file, once it is stable"""
        a = (self.probe_once(), self.listener_ready())
        for _ in range(40):
            time.sleep(0.0003)
            b = (self.probe_once(), self.listener_ready())
            if a == b:
                break
            a = b
        return a[0]

    def pending(self):
        """bytes the kernel holds for the server on every open pool socket (FIONREAD; the server's own
        recv() record is not consulted)"""
        res = {}
        for o, s in self.socks.items():
            if s.fileno() >= 0:
                try:
                    res[o] = struct.unpack('i', fcntl.ioctl(s.fileno(), termios.FIONREAD, b'\0\0\0\0'))[0]
                except OSError:
                    pass
        return res

    def wait_visible(self, fd, mask=select.POLLIN | select.POLLHUP | select.POLLERR, timeout=300):
        pp = select.poll()
        pp.register(fd, mask)
        pp.poll(timeout)

    def rows(self):
        srv, p = self.srv, self.p
        res = []
        for o, s in self.socks.items():
            fl = 0
            if s in srv._clients:
                fl |= F_CLIENTS
            if s in srv._buffers:
                fl |= F_BUFFERS
            if s in srv._closeq:
                fl |= F_CLOSEQ
            if s in p._read:
                fl |= F_READ
            if s in p._write:
                fl |= F_WRITE
            if s in p._targets:
                fl |= F_TARGETS
            if any(v is s for v in getattr(p, '_map', {}).values()):
                fl |= F_MAP
            if s.fileno() < 0:
                fl |= F_CLOSED
            res.append(f'{o}={fl}')
        return 'T:' + ','.join(res)

    def shutdown(self):
        for s in list(self.peers.values()) + list(self.socks.values()) + [self.ls]:
            try:
                socket.socket.close(s)
            except OSError:
                pass
        p = self.p
        for fd in (p._ctrl_recv, p._ctrl_send):
            try:
                os.close(fd) if isinstance(fd, int) else fd.close()
            except OSError:
                pass
        if self.kind == 'epoll':
            try:
                p._poller.close()
            except Exception:
                pass
        if self.tmp:
            shutil.rmtree(self.tmp, ignore_errors=True)


def tok(e):
    return ':'.join(str(x) for x in e)


def execute(ops, kind, family):
    """run a history on the implementation.
    -> groups [(model_lines, impl {'ev': [...], 'sys': [...], 'tab': str}, spec_line)], stats"""
    from circuits.core.events import stopped
    from circuits.core.pollers import _disconnect
    from circuits.net.events import close, write
    rig = Rig(kind, family)
    groups = []
    stats = {'late_write': 0, 'late_close': 0, 'exc': [], 'partial': 0, 'accepts': 0, 'gone': 0, 'disc': 0,
             'reads': 0, 'e2e': [], 'reuse': 0, 'eof': set(), 'unknown_ev': 0, 'unread_hangup': [],
             'unread_close_judged': 0, 'epilogue': 0, 'term': 'none', 'listener_ev': [], 'closeall': [], 'faults': []}
    disconnected = set()
    connected = set()    # sockets announced with `connect`
    asked = set()        # sockets the server side was told to close / that got an injected hang-up
    errlog = []

    def finish(lines_for):
        """close the current op: split the log into the op proper and the accepts it contained"""
        log, rig.log[:] = rig.log[:], []
        acc = list(rig.accepted)
        del rig.accepted[:]
        new = set(acc)
        for e in log:
            if e[0] == '?':
                stats['unknown_ev'] += 1
            if e[0] == 'L':
                stats['listener_ev'].append(e[1])
        log = [e for e in log if e[0] != 'L']
        main = [e for e in log if e[0] != '?' and e[1] not in new]
        for e in log:
            if e[0] == 'c':
                connected.add(e[1])
        for e in main:
            if e[0] == 'd':
                disconnected.add(e[1])
                stats['disc'] += 1
            if e[0] == 'r':
                stats['reads'] += 1
            if e[0] == 'S' and e[3].isdigit() and int(e[3]) < e[2]:
                stats['partial'] += 1
            if e[0] == 'R' and e[2] == 'eof':
                stats['eof'].add(e[1])
        parts = [(lines_for(main), main)]
        for o in acc:
            mine = [e for e in log if e[0] != '?' and e[1] == o]
            gone = o in rig.gone
            stats['accepts'] += 1
            stats['gone'] += int(gone)
            if rig.fnos[o] in [rig.fnos[x] for x in rig.socks if x < o]:
                stats['reuse'] += 1
            for e in mine:
                if e[0] == 'd':
                    disconnected.add(o)
            parts.append(([f'acc {o} {rig.fnos[o]} {int(gone)}'], mine))
        tab = rig.rows()
        for i, (lines, es) in enumerate(parts):
            last = i == len(parts) - 1
            impl = {'ev': [tok(e) for e in es if e[0] in 'crde'], 'sys': [tok(e) for e in es if e[0] in 'RSX'],
                    'tab': tab if last else None}
            specline = 'spec ' + ' '.join(impl['sys'] + impl['ev'] + ([tab] if last else []))
            groups.append((lines, impl, specline.rstrip()))
        return main

    def unread_clause(ready, pend, main):
        """input the kernel held for the server before the round vs. what the server did in the round"""
        flags = {}
        for t in ready.split():
            f, v = t.split(':')
            if v != 'x':
                flags[int(f)] = int(v)
        for o, n in sorted(pend.items()):
            if n <= 0:
                continue
            fl = flags.get(rig.fnos[o], 0)
            if fl & 12:
                stats['unread_hangup'].append('in' + ('+hup' if fl & 4 else '') + ('+err' if fl & 8 else '')
                                              + ('+out' if rig.socks[o] in wr_before else ''))
            if not any(e[0] == 'X' and e[1] == o for e in main):
                continue
            if o in asked or any(e[0] == 'S' and e[1] == o and e[3] == 'fatal' for e in main):
                continue     # the server's own decision / the connection died under a send: nothing promised
            stats['unread_close_judged'] += 1
            got = [e for e in main if e[0] == 'R' and e[1] == o]
            nread = sum(len(e[2]) // 2 for e in got if e[2] not in ('eof', 'again', 'err'))
            if not got:
                stats['e2e'].append((o, 'read-loss(no-recv-before-close,round)', 0, n))
            elif nread < n:
                stats['e2e'].append((o, 'read-loss(unread-left-at-close,round)', nread, n))

    wr_before = ()
    last_round = [None]  # what the last op showed if it was a round: (readiness, log, accepts, tables)

    def do_round():
        """one zero-timeout poll round; -> True iff it repeated the previous round exactly (nothing moves any more)"""
        nonlocal wr_before
        ready = rig.probe()
        pend = rig.pending()
        wr_before = [x for x in rig.p._write if isinstance(x, socket.socket)]
        rig.p._generate_events(GE())
        settle(rig.m)
        nacc = len(rig.accepted)

        def lines_for(main, ready=ready):
            rs = [f'r:{e[1]}:{e[2]}' for e in main if e[0] == 'R']
            ss = [f's:{e[1]}:{e[3]}' for e in main if e[0] == 'S']
            return [f"po {ready} | {' '.join(rs)} | {' '.join(ss)}"]
        main = finish(lines_for)
        unread_clause(ready, pend, main)
        now = (ready, sorted(tok(e) for e in main), nacc, groups[-1][1]['tab'])
        same = now == last_round[0] and nacc == 0 and not any(e[0] in 'crde' for e in main)
        last_round[0] = now
        return same

    def owed():
        """connections that were announced, whose peer has closed its socket, and that have no disconnect yet"""
        return [i for i, c in sorted(rig.peers.items())
                if c.fileno() < 0 and i in rig.socks and i in connected and i not in disconnected]

    try:
        for idx, op in enumerate(ops):
            name = op[0]
            try:
                if name == 'poll':
                    do_round()
                    continue
                last_round[0] = None
                i = op[1] if len(op) > 1 else None
                if name == 'afault':
                    # the next accept() of the listening socket fails with this errno (one of those `_accept` tolerates)
                    rig.faults.append(getattr(errno, op[1]))
                    stats['faults'].append(op[1])
                    continue
                if name in ('closeall', 'stop'):
                    srv = rig.srv
                    was = {o: bool(srv._buffers.get(sk)) for o, sk in rig.socks.items() if sk in srv._clients}
                    asked.update(was)
                    if name == 'closeall':
                        rig.m.fire(close(), 'server')
                    else:
                        rig.m.fire(stopped(rig.m))
                    settle(rig.m)
                    main = finish(lambda main, line={'closeall': 'ca', 'stop': 'st'}[name]: [line])
                    tab = dict((int(a), int(b)) for a, b in (t.split('=') for t in groups[-1][1]['tab'][2:].split(',') if t))
                    nidle = nq = 0
                    for o, queued in sorted(was.items()):
                        nd = sum(1 for e in main if e[0] == 'd' and e[1] == o)
                        fl = tab.get(o, 0)
                        if not queued:
                            nidle += 1
                            if nd != 1:
                                stats['e2e'].append((o, f'server-close(open-connection-got-{min(nd, 2)}-disconnects,{name})', nd, fl))
                            elif fl != F_CLOSED:
                                stats['e2e'].append((o, f'server-close(residue-after-disconnect,{name})', nd, fl))
                        else:
                            nq += 1
                            if nd == 0 and not (fl & F_CLOSEQ):
                                stats['e2e'].append((o, f'server-close(queued-connection-not-waiting,{name})', nd, fl))
                    if rig.ls.fileno() >= 0 or rig.ls in rig.p._read:
                        stats['e2e'].append((0, f'server-close(listener-left-open,{name})', 0, 0))
                    stats['closeall'].append((name, nidle, nq))
                    continue
                if name == 'conn':
                    if i in rig.peers or len(rig.peers) >= MAXCONN or rig.ls.fileno() < 0:
                        continue
                    c = socket.socket(socket.AF_INET if family == 'tcp' else socket.AF_UNIX, socket.SOCK_STREAM)
                    try:
                        c.setsockopt(socket.SOL_SOCKET, socket.SO_RCVBUF, 2048)
                    except OSError:
                        pass
                    c.settimeout(2)
                    c.connect(rig.addr)
                    c.setblocking(False)
                    rig.peers[i] = c
                    rig.sent[i] = b''
                    rig.wait_visible(rig.ls.fileno(), select.POLLIN)
                    continue
                if name in ('send', 'shut', 'pclose', 'rst', 'drain'):
                    c = rig.peers.get(i)
                    if c is None or c.fileno() < 0:
                        continue
                    if name == 'send':
                        data = bytes((i * 37 + len(rig.sent[i]) + j) & 255 or 1 for j in range(op[2]))
                        try:
                            k = c.send(data)
                            rig.sent[i] += data[:k]
                        except OSError:
                            pass
                    elif name == 'shut':
                        try:
                            c.shutdown(socket.SHUT_WR)
                        except OSError:
                            pass
                    elif name == 'pclose':
                        c.close()
                    elif name == 'rst':
                        c.setsockopt(socket.SOL_SOCKET, socket.SO_LINGER, struct.pack('ii', 1, 0))
                        c.close()
                    elif name == 'drain':
                        # ['drain', i]: what is there now; ['drain', i, n]: at most n bytes;
                        # ['drain', i, 'all']: until nothing more arrives (the server side kernel pushes on)
                        left = op[2] if len(op) > 2 and isinstance(op[2], int) else None
                        try:
                            while left is None or left > 0:
                                try:
                                    d = c.recv(1 << 16 if left is None else min(left, 1 << 16))
                                except OSError as e:
                                    if e.args[0] in AGAIN_RECV and len(op) > 2 and op[2] == 'all':
                                        pp = select.poll()
                                        pp.register(c.fileno(), select.POLLIN)
                                        if pp.poll(8):
                                            continue
                                    raise
                                if not d:
                                    break
                                if left is not None:
                                    left -= len(d)
                        except OSError:
                            pass
                    s = rig.socks.get(i)
                    if s is not None and s.fileno() >= 0 and name in ('shut', 'pclose', 'rst'):
                        # POLLIN may be up already (unread input): wait for the hang-up condition itself
                        rig.wait_visible(s.fileno(), select.POLLRDHUP)
                    elif s is not None and s.fileno() >= 0 and name != 'drain':
                        rig.wait_visible(s.fileno())
                    continue
                if name in ('write', 'close', 'hup'):
                    s = rig.socks.get(i)
                    if s is None:
                        continue
                    if name == 'hup':
                        # what Poll/EPoll fire for HUP/ERR without pending input
                        asked.add(i)
                        rig.m.fire(_disconnect(s), 'server')
                        line = f'hu {i}'
                    elif name == 'write':
                        if i in disconnected:
                            stats['late_write'] += 1
                        rig.m.fire(write(s, bytes(op[2])), 'server')
                        line = f'wr {i} {op[2]}'
                    else:
                        if i in disconnected:
                            stats['late_close'] += 1
                        asked.add(i)
                        rig.m.fire(close(s), 'server')
                        line = f'cl {i}'
                    settle(rig.m)
                    finish(lambda main, line=line: [line])
                    continue
                raise ValueError(f'unknown op {op!r}')
            except Infra:
                raise
            except Exception as e:   # the stepped loop must never raise
                stats['exc'].append((idx, f'{type(e).__name__}: {e}'))
                break
        # termination: rounds until every connection whose peer is gone got its disconnect, or nothing moves any more
        if not stats['exc']:
            try:
                steady = False
                while owed() and not steady and stats['epilogue'] < 12:
                    steady = do_round()
                    stats['epilogue'] += 1
                if owed():
                    stats['term'] = 'judged-missing' if steady else 'not-quiescent'
                    tab = dict(t.split('=') for t in groups[-1][1]['tab'][2:].split(',')) if steady else {}
                    for o in (owed() if steady else []):
                        fl = int(tab.get(str(o), 0))
                        state = ('pending-server-close' if fl & F_CLOSEQ else 'output-pending' if fl & F_BUFFERS else 'idle')
                        stats['e2e'].append((o, f'no-disconnect(after-peer-close,{state})', fl, stats['epilogue']))
                elif any(c.fileno() < 0 and i in connected for i, c in rig.peers.items()):
                    stats['term'] = 'judged-ok'
            except Infra:
                raise
            except Exception as e:
                stats['exc'].append((len(ops), f'{type(e).__name__}: {e}'))
        # end-to-end: what the observers read is a prefix of what the peer sent; all of it after a clean EOF
        reads = {}
        for _lines, impl, _s in groups:
            for t in impl['ev']:
                if t.startswith('r:'):
                    _r, o, h = t.split(':')
                    reads[int(o)] = reads.get(int(o), b'') + bytes.fromhex(h)
        for o, got in reads.items():
            want = rig.sent.get(o, b'')
            if not want.startswith(got):
                stats['e2e'].append((o, 'read-corrupt', len(got), len(want)))
        for o in stats['eof']:
            if reads.get(o, b'') != rig.sent.get(o, b''):
                stats['e2e'].append((o, 'read-loss-before-eof', len(reads.get(o, b'')), len(rig.sent.get(o, b''))))
    finally:
        rig.shutdown()
    stats['eof'] = len(stats['eof'])
    return groups, stats


def driver_lines(groups, kind):
    lines = [f'kind {kind}']
    for mlines, _impl, spec in groups:
        lines.extend(mlines)
        lines.append(spec)
    return lines


def per_socket(toks):
    d = {}
    for t in toks:
        d.setdefault(t.split(':')[1], []).append(t)
    return d


def judge(groups, answers):
    """-> disagreements [(index, line, impl, model)], spec failures [(index, clause)]"""
    dis, fails = [], []
    it = iter(answers[1:])
    for gi, (mlines, impl, spec) in enumerate(groups):
        for line in mlines:
            got = next(it)
            if got == 'bad-op':
                dis.append((gi, line, 'the operation happened', 'bad-op'))
                continue
            toks = [] if got == '-' else got.split()
            ev = [t for t in toks if t[0] in 'crde']
            sy = [t for t in toks if t[0] in 'RSX']
            tab = [t for t in toks if t.startswith('T:')]
            # per socket, in order (the order in which a poller reports *different* descriptors is the kernel's)
            if per_socket(ev) != per_socket(impl['ev']):
                dis.append((gi, line, {'events': impl['ev']}, {'events': ev}))
            elif per_socket(sy) != per_socket(impl['sys']):
                dis.append((gi, line, {'calls': impl['sys']}, {'calls': sy}))
            elif impl['tab'] is not None and tab != [impl['tab']]:
                dis.append((gi, line, {'tables': impl['tab']}, {'tables': tab}))
        sa = next(it)
        if sa.startswith('fail'):
            fails.append((gi, sa.split(' ', 1)[1]))
        elif sa != 'ok':
            dis.append((gi, spec[:200], 'spec observer accepts the line', sa))
    return dis, fails


CAUSE = {'wr': 'write-event', 'cl': 'close-event', 'po': 'round', 'acc': 'accept', 'hu': 'hangup'}


def signature_of(clause, cause, late):
    """deterministic classifier: which clause of the spec failed, at which kind of op, and whether the op
    addressed a socket that was already disconnected"""
    if late and cause in ('write-event', 'close-event'):
        cause = 'late-' + cause.split('-')[0]
    w = clause.split()
    if w[0] == 'leak':
        return f"leak({w[1]},{cause},{w[2]})"
    return f"{clause.replace(' ', '-')}({cause})"


def run_one(ctx, case):
    groups, st = execute(case['ops'], case['kind'], case['family'])
    ans = ctx.driver.run('conn', driver_lines(groups, case['kind']))
    dis, fails = judge(groups, ans)
    return groups, st, dis, fails


def problems_of(groups, st, fails):
    """all spec-level failures of one execution as signatures"""
    res = []
    for gi, c in fails:
        line = groups[gi][0][0]
        late = False
        if line.split()[0] in ('wr', 'cl'):
            o = line.split()[1]
            late = any(f'd:{o}' in g[1]['ev'] for g in groups[:gi])
        res.append(signature_of(c, CAUSE.get(line.split()[0], '?'), late))
    if st['exc']:
        res.append('loop-raised(end)')
    res += [k if k.endswith(')') else f'{k}(end)' for _o, k, _a, _b in st['e2e']]
    if st['unknown_ev']:
        res.append('event-for-unknown-socket(end)')
    return res


def shrink(ctx, case, sig):
    budget = [40]

    def fails(sub):
        if budget[0] <= 0:
            return False
        budget[0] -= 1
        try:
            g, st, _d, fl = run_one(ctx, dict(case, ops=sub))
        except Exception:
            return False
        return sig in problems_of(g, st, fl)

    try:
        return ddmin(case['ops'], fails)
    except Exception:
        return case['ops']


def evaluate(ctx, cases, do_shrink=True):
    execd = []
    for c in cases:
        try:
            groups, st = execute(c['ops'], c['kind'], c['family'])
        except OSError as e:
            raise Infra(f'socket setup failed: {e}')
        execd.append((groups, st))
    answers = ctx.driver.batch('conn', [driver_lines(g, c['kind']) for c, (g, _s) in zip(cases, execd)])
    for c, (groups, st), ans in zip(cases, execd, answers):
        dis, fails = judge(groups, ans)
        if dis:
            # kernel timing (readiness changing between probe and poll) must not count: once more
            groups, st = execute(c['ops'], c['kind'], c['family'])
            dis, fails = judge(groups, ctx.driver.run('conn', driver_lines(groups, c['kind'])))
            ctx.count('retries', 'disagreement-retried')
        ok = True
        for i, line, impl, model in dis[:1]:
            ok = False
            ctx.disagree(c, {'where': f"{c['kind']}.{line.split()[0]}", 'kind': c['kind'], 'family': c['family'],
                             'index': i, 'line': line[:300], 'impl': impl, 'model': model})
        seen = set()
        for sig in problems_of(groups, st, fails):
            if sig in seen:
                continue
            seen.add(sig)
            fresh = sig not in {v['signature'] for v in ctx.violations}
            ops = shrink(ctx, c, sig) if do_shrink and fresh else c['ops']
            detail = f": {st['exc'][0][1]}" if sig.startswith('loop-raised') else ''
            for o, k, a, b in st['e2e']:
                if k == sig and sig.startswith('no-disconnect('):
                    names = [n for f, n in ((F_CLIENTS, 'server._clients'), (F_BUFFERS, 'server._buffers'),
                                            (F_CLOSEQ, 'server._closeq'), (F_READ, 'poller._read'), (F_WRITE, 'poller._write'),
                                            (F_TARGETS, 'poller._targets'), (F_MAP, 'poller._map')) if a & f]
                    detail = (f": socket {o} was announced with connect and its peer has closed, but after rounds until nothing "
                              f"changed any more ({b} appended) no disconnect was fired for it; still mentioned by "
                              f"{', '.join(names) or 'no table'}")
                    break
                if k == sig and sig.startswith('server-close('):
                    detail = (f": socket {o} (0 = the listening socket): {a} disconnect event(s) in the course of the "
                              f"server-wide close, table flags afterwards {b}")
                    break
                if k == sig and sig.startswith('read-loss('):
                    detail = (f": the kernel held {b} unread byte(s) for socket {o} before the round; the server closed the "
                              f"socket in that round having received {a} of them through recv()")
                    break
            ctx.violate({'ops': ops, 'kind': c['kind'], 'family': c['family']}, sig,
                        f"{c['kind']}/{c['family']}: {sig} on the implementation's own observations{detail}")
        for op in c['ops']:
            ctx.count('op_kinds', op[0])
        ctx.count('poller', c['kind'])
        ctx.count('family', c['family'])
        ctx.count('connections', st['accepts'])
        ctx.count('late_writes', 'yes' if st['late_write'] else 'no')
        ctx.count('late_closes', 'yes' if st['late_close'] else 'no')
        ctx.count('partial_sends', 'yes' if st['partial'] else 'no')
        ctx.count('dead_on_accept', 'yes' if st['gone'] else 'no')
        ctx.count('fd_reuse', 'yes' if st['reuse'] else 'no')
        ctx.count('clean_eof', 'yes' if st['eof'] else 'no')
        for k in st['unread_hangup']:
            ctx.count('rounds_with_unread_input_at_hangup', f"{c['kind']}/{c['family']}:{k}")
        ctx.count('unread_input_close_judged', 'yes' if st['unread_close_judged'] else 'no')
        ctx.count('termination_after_peer_close', st['term'])
        ctx.count('rounds_appended_until_quiescence', st['epilogue'])
        for name, nidle, nq in st['closeall']:
            ctx.count('server_wide_close', f"{name}:{c['kind']}/{c['family']}")
            ctx.count('server_wide_close_open_connections', f'idle={min(nidle, 3)}{"+" if nidle > 3 else ""},queued={min(nq, 2)}')
        for f in st['faults']:
            ctx.count('accept_faults', f)
        for n in st['listener_ev']:
            ctx.count('listener_events', n)
        for _l, impl, _s in groups:
            for t in impl['ev']:
                ctx.count('events', t[0])
            for t in impl['sys']:
                if t[0] == 'R':
                    ctx.count('recv', t.split(':')[2] if t.split(':')[2] in ('eof', 'again', 'err') else 'data')
                elif t[0] == 'S':
                    r = t.split(':')[3]
                    ctx.count('send', r if not r.isdigit() else ('full' if int(r) >= int(t.split(':')[2]) else 'partial'))
        nontrivial = st['accepts'] > 0 and st['disc'] > 0
        ctx.case(c, nontrivial=nontrivial, validated=ok)


# ---------------------------------------------------------------------------------------
# generators
# ---------------------------------------------------------------------------------------

def gen_history(rng):
    nconn = rng.randint(1, 5)
    nops = rng.randint(20, 60)
    ops = []
    opened = []
    weights = [('poll', 34), ('conn', 7), ('send', 14), ('shut', 4), ('pclose', 6), ('rst', 5), ('drain', 4),
               ('write', 14), ('close', 8), ('hup', 2)]
    names = [n for n, _w in weights]
    ws = [w for _n, w in weights]
    big = rng.random() < 0.4
    for _ in range(nops):
        name = rng.choices(names, ws)[0]
        if name == 'poll':
            ops.append(['poll'])
        elif name == 'conn' or not opened:
            if len(opened) < nconn:
                i = len(opened) + 1
                opened.append(i)
                ops.append(['conn', i])
                if rng.random() < 0.75:
                    ops.append(['poll'])
        else:
            i = rng.choice(opened)
            if name == 'send':
                ops.append(['send', i, rng.choice([1, 2, 3, 17, 100, 300, 4096, 5000])])
                if rng.random() < 0.25:
                    # the peer goes away before the server gets to poll: input and hang-up arrive together
                    ops.append([rng.choice(['rst', 'rst', 'pclose', 'shut']), i])
            elif name == 'write':
                ops.append(['write', i, rng.choice([0, 1, 5, 64, 1000, 70000 if big else 200, 300000 if big else 33])])
            else:
                ops.append([name, i])
    ops += [['poll'], ['poll'], ['poll']]
    return ops


def P(n=1):
    return [['poll']] * n


DIRECTED = [
    # the plain dialogue
    [['conn', 1]] + P() + [['send', 1, 3]] + P() + [['send', 1, 2], ['send', 1, 4]] + P() + [['pclose', 1]] + P(2),
    # late write / late close after the disconnect (DESIGN 7 #12, #14)
    [['conn', 1]] + P() + [['pclose', 1]] + P(2) + [['write', 1, 4]] + P(2),
    [['conn', 1]] + P() + [['pclose', 1]] + P(2) + [['close', 1]] + P(2),
    [['conn', 1]] + P() + [['pclose', 1]] + P(2) + [['write', 1, 4], ['close', 1]] + P(2) + [['write', 1, 1]] + P(),
    [['conn', 1]] + P() + [['close', 1]] + P() + [['write', 1, 9]] + P() + [['close', 1]] + P(),
    # reset before the server accepts
    [['conn', 1], ['rst', 1]] + P(3),
    [['conn', 1], ['conn', 2], ['rst', 1]] + P(3) + [['send', 2, 5]] + P() + [['pclose', 2]] + P(2),
    # half close, then the server answers and closes
    [['conn', 1]] + P() + [['send', 1, 5], ['shut', 1]] + P(2) + [['write', 1, 10]] + P(2),
    [['conn', 1]] + P() + [['write', 1, 10], ['shut', 1]] + P(3),
    # close while the server is writing: stalled peer, close deferred, then the peer dies
    [['conn', 1]] + P() + [['write', 1, 400000]] + P(2) + [['close', 1]] + P() + [['rst', 1]] + P(3),
    [['conn', 1]] + P() + [['write', 1, 400000]] + P(2) + [['close', 1]] + P() + [['pclose', 1]] + P(3),
    [['conn', 1]] + P() + [['write', 1, 400000]] + P(2) + [['close', 1]] + P() + [['drain', 1]] + P(4)
    + [['drain', 1]] + P(4) + [['drain', 1]] + P(4),
    [['conn', 1]] + P() + [['write', 1, 400000]] + P(2) + [['rst', 1]] + P(3) + [['write', 1, 3]] + P(),
    [['conn', 1]] + P() + [['write', 1, 400000]] + P(2) + [['pclose', 1]] + P(3),
    # fatal send error with a pending close
    [['conn', 1]] + P() + [['rst', 1], ['write', 1, 10], ['close', 1]] + P(3),
    [['conn', 1]] + P() + [['pclose', 1], ['write', 1, 10], ['write', 1, 10], ['close', 1]] + P(4),
    # hang-up reported by the poller while a close is pending (DESIGN 7 #14: _closeq)
    [['conn', 1]] + P() + [['write', 1, 400000]] + P(2) + [['close', 1], ['hup', 1]] + P(2),
    [['conn', 1]] + P() + [['hup', 1], ['hup', 1], ['write', 1, 3], ['close', 1]] + P(2),
    # many at once, number reuse
    [['conn', 1], ['conn', 2], ['conn', 3]] + P(3) + [['send', 1, 1], ['send', 2, 2], ['send', 3, 3]] + P()
    + [['pclose', 2]] + P(2) + [['conn', 4]] + P() + [['send', 4, 4], ['rst', 1], ['close', 3]] + P(3),
    # empty write, server-side close with data in flight
    [['conn', 1]] + P() + [['write', 1, 0]] + P() + [['send', 1, 7], ['close', 1]] + P(2),
    [['conn', 1]] + P() + [['send', 1, 5000]] + P() + [['shut', 1]] + P(3),
]


def abort_histories():
    """peer sends k bytes and goes away (reset / close / half close) with NO round in between, so that the
    next round finds unread input and the hang-up together; alone, after traffic that was polled, after two
    sends, with a server-side write queued or stalled, followed by late server-side events, and with several
    connections at once"""
    res = []
    for k in (1, 300, 5000):
        for ab in ('rst', 'pclose', 'shut'):
            burst = [['send', 1, k], [ab, 1]]
            res.append([['conn', 1]] + P() + burst + P(4))
            res.append([['conn', 1]] + P() + [['send', 1, 300]] + P() + [['write', 1, 5]] + P() + burst + P(4))
            res.append([['conn', 1]] + P() + [['send', 1, 300]] + burst + P(4) + [['write', 1, 4], ['close', 1]] + P())
            # a server-side write is queued but not yet attempted / stalled behind a peer that does not read
            res.append([['conn', 1]] + P() + [['write', 1, 10]] + burst + P(4))
            res.append([['conn', 1]] + P() + [['write', 1, 400000]] + P(2) + burst + P(4))
        # several connections, each going away in its own way in the same round; one stays and goes on talking
        res.append([['conn', 1], ['conn', 2], ['conn', 3], ['conn', 4]] + P(4)
                   + [['send', 1, k], ['send', 2, k], ['send', 3, k], ['send', 4, 7], ['rst', 1], ['pclose', 2], ['shut', 3]]
                   + P(4) + [['send', 4, 5]] + P() + [['write', 4, 3]] + P() + [['pclose', 4]] + P(2))
        res.append([['conn', 1], ['conn', 2], ['conn', 3]] + P(3) + [['write', 2, 10], ['write', 3, 400000]] + P()
                   + [['send', 3, k], ['rst', 3], ['send', 1, k], ['send', 2, k], ['rst', 2], ['rst', 1]] + P(5))
    return res


def stall_histories():
    """the peer stops reading, the server writes a payload of which the kernel takes only a part, the server asks
    for the connection to be closed (after the partial send, or - control - before the write was attempted), the
    peer then reads everything / a part / nothing and closes or resets; 1 and 2 connections"""
    res = []

    def one(i, size, pre, close_first, rd, end):
        h = [['send', i, 5]] + P()
        if pre:
            h += [['write', i, 5]] + P() + [['write', i, 10]]
        h += [['write', i, size]]
        h += ([['close', i]] + P(2)) if close_first else (P(2) + [['close', i]] + P())
        h += {'all': [['drain', i, 'all']], 'part': [['drain', i, 3000]], 'none': []}[rd]
        return h + [[end, i]] + P(3)

    for size in (20000, 70000, 400000):
        for pre in (False, True):
            for close_first in (False, True):
                res.append([['conn', 1]] + P() + one(1, size, pre, close_first, 'all', 'pclose'))
    for close_first in (False, True):
        for rd, end in (('all', 'rst'), ('part', 'pclose'), ('part', 'rst'), ('none', 'pclose'), ('none', 'rst')):
            res.append([['conn', 1]] + P() + one(1, 70000, False, close_first, rd, end))
    # the peer reads on while the close is pending, in steps, and only then closes
    res.append([['conn', 1]] + P() + [['write', 1, 30000]] + P(2) + [['close', 1]] + P()
               + ([['drain', 1, 'all']] + P(2)) * 3 + [['pclose', 1]] + P(3))
    # two connections: both stalled; one stalled next to an ordinary dialogue
    for size in (20000, 70000):
        a = one(1, size, False, False, 'all', 'pclose')
        b = one(2, size, True, False, 'all', 'pclose')
        mix = [x for pair in zip(a, b) for x in pair] + a[len(b):] + b[len(a):]
        res.append([['conn', 1], ['conn', 2]] + P(2) + mix)
        res.append([['conn', 1], ['conn', 2]] + P(2) + one(1, size, False, False, 'all', 'pclose')
                   + [['send', 2, 3]] + P() + [['write', 2, 4]] + P() + [['pclose', 2]] + P(2))
        res.append([['conn', 1], ['conn', 2]] + P(2) + one(2, size, False, True, 'all', 'pclose')
                   + one(1, size, False, False, 'part', 'rst'))
    return res


def small_scope(maxlen):
    """every op sequence of length <= maxlen over one connection, after it was accepted"""
    import itertools
    alphabet = [['poll'], ['send', 1, 2], ['shut', 1], ['pclose', 1], ['rst', 1], ['write', 1, 3], ['close', 1], ['hup', 1]]
    for n in range(1, maxlen + 1):
        for tup in itertools.product(alphabet, repeat=n):
            yield [['conn', 1], ['poll']] + [list(t) for t in tup] + [['poll'], ['poll']]


# --- W11: server-wide close / stop / accept faults -----------------------------------------

ACCEPT_FAULTS = ['EAGAIN', 'EWOULDBLOCK', 'EPERM', 'EMFILE', 'ENOBUFS', 'ENFILE', 'ENOMEM', 'ECONNABORTED']


def close_histories():
    res = []
    for end in ('closeall', 'stop'):
        E = [[end]]
        # idle connections; one with unread input; one whose peer is already gone; one still in the backlog
        res.append([['conn', 1], ['conn', 2], ['conn', 3]] + P(3) + E + P(2))
        res.append([['conn', 1]] + P() + [['send', 1, 5]] + E + P(2))
        res.append([['conn', 1]] + P() + [['pclose', 1]] + E + P(2))
        res.append([['conn', 1]] + P() + [['rst', 1], ['write', 1, 10]] + E + P(3))
        res.append([['conn', 1]] + P() + [['conn', 2]] + E + P(3))
        res.append([['conn', 1]] + E + P(2))
        # queued output: small (flushed by the next round), stalled (peer does not read, then reads / dies)
        res.append([['conn', 1], ['conn', 2]] + P(2) + [['write', 1, 10]] + E + P(3))
        res.append([['conn', 1], ['conn', 2]] + P(2) + [['write', 2, 400000]] + P(2) + E + P()
                   + ([['drain', 2, 'all']] + P(3)) * 3 + [['pclose', 2]] + P(3))
        res.append([['conn', 1], ['conn', 2]] + P(2) + [['write', 2, 400000]] + P(2) + E + P() + [['rst', 2]] + P(3))
        res.append([['conn', 1]] + P() + [['write', 1, 400000]] + P(2) + [['close', 1]] + E + [['hup', 1]] + P(2))
        # late events after the server is closed; closed twice; closed and stopped
        res.append([['conn', 1]] + P() + E + [['write', 1, 4], ['close', 1]] + E + [['stop'], ['closeall']] + P(2)
                   + [['conn', 2]] + P(2))
        res.append(E + P(2) + [['conn', 1]] + P(2) + E)
    for i, f in enumerate(ACCEPT_FAULTS):
        res.append([['conn', 1], ['afault', f]] + P(3) + [['send', 1, 3]] + P() + [['pclose', 1]] + P(2))
        res.append([['conn', 1], ['conn', 2], ['afault', f], ['afault', ACCEPT_FAULTS[(i + 3) % len(ACCEPT_FAULTS)]]] + P(5)
                   + [['send', 2, 3], ['write', 1, 7]] + P(2) + [['closeall' if i % 2 else 'stop']] + P(2))
    return res


def gen_close_history(rng):
    """a random history with accept faults before some connects and one or two server-wide closes / stops in its
    second half (what follows them are late events and peers that find the listener gone)"""
    ops = []
    for op in gen_history(rng):
        if op[0] == 'conn' and rng.random() < 0.3:
            ops.append(['afault', rng.choice(ACCEPT_FAULTS)])
        ops.append(op)
    for _ in range(rng.choice([1, 1, 2])):
        ops.insert(rng.randint(len(ops) // 2, len(ops) - 2), [rng.choice(['closeall', 'stop'])])
    return ops


def small_scope_close(maxlen):
    """every op sequence of length <= maxlen over one accepted connection that contains a server-wide close or stop"""
    import itertools
    alphabet = [['poll'], ['send', 1, 2], ['shut', 1], ['pclose', 1], ['rst', 1], ['write', 1, 3], ['close', 1], ['hup', 1],
                ['closeall'], ['stop']]
    for n in range(1, maxlen + 1):
        for tup in itertools.product(alphabet, repeat=n):
            if any(t[0] in ('closeall', 'stop') for t in tup):
                yield [['conn', 1], ['poll']] + [list(t) for t in tup] + [['poll'], ['poll']]


# ---------------------------------------------------------------------------------------
# clients
# ---------------------------------------------------------------------------------------

def client_case(ctx, ops, family='tcp', kind='select', pipe=False):
    """a real TCPClient against a plain listening socket (W11: or a UNIXClient against a unix listener, or one end of
    a Pipe() whose other end is driven as a plain socket; under Select / Poll / EPoll);
    -> (model lines, impl event lists per op, all impl events)"""
    import circuits.net.sockets as S
    from circuits import BaseComponent, Manager, handler
    from circuits.core.events import stopped
    from circuits.core.pollers import EPoll, Poll, Select
    from circuits.net.events import close, connect, write
    log, calls = [], []
    tmp = None

    class CSock(socket.socket):
        def recv(self, *a):
            try:
                d = super().recv(*a)
            except OSError as e:
                calls.append(('rd', 'again' if e.args[0] in AGAIN_RECV else 'err'))
                raise
            calls.append(('rd', d.hex() if d else 'eof'))
            return d

        def send(self, data, *a):
            try:
                k = super().send(data, *a)
            except OSError as e:
                calls.append(('wt', 'pipe' if e.args[0] in (errno.EPIPE, errno.ENOTCONN) else
                              ('again' if e.args[0] in AGAIN_SEND else 'other')))
                raise
            calls.append(('wt', str(k)))
            return k

    class Obs(BaseComponent):
        channel = 'client'

        @handler('connected', 'disconnected', 'read', 'error', 'unreachable', priority=50)
        def _on(self, event, *args):
            n = event.name
            log.append('r:' + bytes(args[0]).hex() if n == 'read' else
                       {'connected': 'C', 'disconnected': 'D', 'error': 'E', 'unreachable': 'U'}[n])

        @handler('_read', '_write', '_disconnect', priority=50)
        def _on_p(self, event, *args):
            log.append('@' + event.name)

    if family == 'tcp':
        ls = socket.socket(socket.AF_INET, socket.SOCK_STREAM)
        ls.bind(('127.0.0.1', 0))
        ls.listen(8)
        ls.settimeout(1)
        port = ls.getsockname()[1]
        dead = socket.socket(socket.AF_INET, socket.SOCK_STREAM)
        dead.bind(('127.0.0.1', 0))
        deadport = dead.getsockname()[1]
        dead.close()
        good, bad = ('127.0.0.1', port), ('127.0.0.1', deadport)
    else:
        tmp = tempfile.mkdtemp(prefix='c12c-')
        ls = socket.socket(socket.AF_UNIX, socket.SOCK_STREAM)
        ls.bind(os.path.join(tmp, 's'))
        ls.listen(8)
        ls.settimeout(1)
        good, bad = (os.path.join(tmp, 's'),), (os.path.join(tmp, 'nobody'),)
    saved = S.socket
    saved_pair = S.socketpair
    S.socket = CSock

    def logged_pair(*a):
        x, y = saved_pair(*a)
        return (CSock(x.family, x.type, x.proto, fileno=x.detach()), CSock(y.family, y.type, y.proto, fileno=y.detach()))

    m = Manager()
    peer = [None]
    skipped, forced = [0], [0]
    problems = []
    lines, per_op = ['cli reset pipe' if pipe else 'cli reset'], []
    try:
        p = {'select': Select, 'poll': Poll, 'epoll': EPoll}[kind]().register(m)
        if pipe:
            S.socketpair = logged_pair
            cl, other = S.Pipe('client', 'c12-other-end')
            S.socketpair = saved_pair
            cl.register(m)               # the other end is not a component here: its socket plays the peer
            peer[0] = other._sock
        elif family == 'tcp':
            cl = S.TCPClient(connect_timeout=0.05).register(m)
        else:
            cl = S.UNIXClient().register(m)
        Obs().register(m)
        settle(m)
        del log[:]
        for op in ops:
            del log[:]
            del calls[:]
            name = op[0]
            if name == 'co':
                was = bool(cl.connected)
                if was and 'force' not in op:
                    skipped[0] += 1      # connect is only issued while not connected (client_pairing_partial)
                    continue
                if was:
                    forced[0] += 1
                m.fire(connect(*(good if op[1] else bad)), 'client')
                t0 = time.time()
                while (len(m) or m._tasks) and time.time() - t0 < 3:
                    m.tick()
                evs = [t for t in log if not t.startswith('@')]
                if op[1] and not was and (family == 'tcp' or 'C' in evs):
                    try:
                        peer[0] = ls.accept()[0]
                        peer[0].setblocking(False)
                    except OSError:
                        pass
                # UNIXClient: an error answer of connect_ex() is reported as `error` alone (no `unreachable`, no `_close()`)
                mline = 'cli co ' + ('ok' if 'C' in evs else ('refused' if 'E' in evs and (family == 'tcp' or 'U' in evs) else
                                                               ('failed' if 'E' in evs else 'timeout')))
                lines.append(mline)
                per_op.append((mline, evs))
                continue
            if name in ('psend', 'pclose', 'prst'):
                c = peer[0]
                if c is None or c.fileno() < 0:
                    continue
                try:
                    if name == 'psend':
                        c.send(bytes([65 + op[1] % 20]) * op[1])
                    elif name == 'pclose':
                        c.close()
                    else:
                        c.setsockopt(socket.SOL_SOCKET, socket.SO_LINGER, struct.pack('ii', 1, 0))
                        c.close()
                except OSError:
                    pass
                if cl._sock.fileno() >= 0:
                    pp = select.poll()
                    pp.register(cl._sock.fileno(), select.POLLIN | select.POLLHUP | select.POLLERR)
                    pp.poll(200)
                continue
            if name == 'cwrite':
                if cl._sock.fileno() < 0:
                    continue    # addWriter on a closed socket raises inside the handler: outside the client life cycle
                m.fire(write(bytes(op[1])), 'client')
                settle(m)
                mls = [f'cli wr {op[1]}']
            elif name == 'cclose':
                m.fire(close(), 'client')
                settle(m)
                mls = ['cli cl']
            elif name == 'unreg':
                # the client component is taken out of the tree (prepare_unregister) and put back
                was_up = bool(cl.connected)
                cl.unregister()
                settle(m)
                nd = log.count('D')
                if was_up and (nd != 1 or cl.connected or cl._sock.fileno() >= 0):
                    problems.append(f'client-release(unregister,{min(nd, 2)}-disconnected)')
                cl.register(m)
                settle(m)
                mls = ['cli un']
            elif name == 'cstop':
                was_up, queued = bool(cl.connected), bool(cl._buffer)
                m.fire(stopped(m))
                settle(m)
                nd = log.count('D')
                if was_up and not queued and (nd != 1 or cl.connected or cl._sock.fileno() >= 0):
                    problems.append(f'client-release(stopped,{min(nd, 2)}-disconnected)')
                elif was_up and queued and nd == 0 and not cl._closeflag:
                    problems.append('client-release(stopped,queued-output-close-not-pending)')
                mls = ['cli st']
            elif name == 'poll':
                p._generate_events(GE())
                settle(m)
                mls = []
                ci = iter(list(calls))
                rd = [c for c in calls if c[0] == 'rd']
                wt = [c for c in calls if c[0] == 'wt']
                for t in log:
                    if t == '@_read':
                        mls.append('cli rd ' + (rd.pop(0)[1] if rd else 'again'))
                    elif t == '@_write':
                        mls.append('cli wt ' + (wt.pop(0)[1] if wt else '0'))
                    elif t == '@_disconnect':
                        mls.append('cli hu')
                del ci
            else:
                raise ValueError(f'unknown client op {op!r}')
            evs = [t for t in log if not t.startswith('@')]
            for ml in mls[:-1]:
                lines.append(ml)
                per_op.append((ml, None))
            if mls:
                lines.append(mls[-1])
                per_op.append((mls[-1], evs))
            elif evs:
                per_op.append((None, evs))
    finally:
        S.socket = saved
        S.socketpair = saved_pair
        if tmp:
            shutil.rmtree(tmp, ignore_errors=True)
        try:
            if kind == 'epoll':
                p._poller.close()
        except Exception:
            pass
        for s in (ls, peer[0], getattr(locals().get('cl'), '_sock', None)):
            try:
                if s is not None:
                    socket.socket.close(s)
            except OSError:
                pass
        try:
            for fd in (p._ctrl_recv, p._ctrl_send):
                os.close(fd)
        except Exception:
            pass
    return lines, per_op, {'skipped': skipped[0], 'forced': forced[0], 'problems': problems}


def evaluate_clients(ctx, cases):
    # all cases are executed first; the model's answers (and the spec on the implementation's life line) come from
    # one driver batch per 100 cases
    execd = []
    for ops in cases:
        if isinstance(ops, dict):
            case = ops
            ops = case['client_ops']
        else:
            case = {'client_ops': ops}
        fam, ckind, pipe = case.get('cfamily', 'tcp'), case.get('ckind', 'select'), bool(case.get('pipe'))
        try:
            lines, per_op, cst = client_case(ctx, ops, fam, ckind, pipe)
        except OSError as e:
            raise Infra(f'client socket setup failed: {e}')
        life = [t for _ml, evs in per_op if evs is not None for t in evs if t in ('C', 'D')]
        if life:
            lines = lines + [('clispec pipe ' if pipe else 'clispec ') + ' '.join(life)]
        execd.append((case, ops, fam, ckind, pipe, lines, per_op, cst, life))
    answers = []
    for i in range(0, len(execd), 100):
        answers += ctx.driver.batch('conn', [e[5] for e in execd[i:i + 100]])
    for (case, ops, fam, ckind, pipe, lines, per_op, cst, life), ans in zip(execd, answers):
        ok = True
        it = iter(ans[1:])
        pend_model = []
        for ml, evs in per_op:
            if ml is not None:
                a = next(it)
                pend_model += [] if a == '-' else a.split()
            if evs is not None:
                if pend_model != evs and ok:
                    ok = False
                    ctx.disagree(case, {'where': 'client.' + (ml or 'none').split()[-2 if ml and len(ml.split()) > 2 else -1],
                                        'line': ml, 'impl': evs, 'model': pend_model})
                pend_model = []
        sa = ans[-1] if life else 'ok'
        if sa != 'ok':
            why = 'connect-while-connected' if cst['forced'] else 'other'
            ctx.violate(case, f'client-connected-disconnected-not-paired({why})', f'client events {life}')
        for sig in sorted(set(cst['problems'])):
            ctx.violate(case, sig, f"{'pipe' if pipe else fam}/{ckind}: a connected client was unregistered / stopped and did not "
                                   f"report exactly one disconnected and release its socket ({sig})")
        ctx.count('client_connect_while_connected', 'skipped' if cst['skipped'] else ('forced' if cst['forced'] else 'none'))
        for op in ops:
            ctx.count('client_ops', op[0])
        ctx.count('client_lifecycles', life.count('D'))
        ctx.count('client_endpoint', f"{'pipe' if pipe else fam}/{ckind}")
        ctx.case(case, nontrivial=bool(life.count('D')), validated=ok)


def gen_client(rng):
    ops = []
    names = ['co', 'psend', 'pclose', 'prst', 'cwrite', 'cclose', 'poll']
    ws = [10, 14, 6, 4, 12, 6, 40]
    up = False
    for _ in range(rng.randint(8, 30)):
        n = rng.choices(names, ws)[0]
        if n == 'co':
            good = rng.random() < 0.85
            ops.append(['co', int(good)])
            up = up or good
        elif n == 'psend':
            ops.append(['psend', rng.choice([1, 3, 50, 5000])])
        elif n == 'cwrite':
            ops.append(['cwrite', rng.choice([0, 1, 10, 3000])])
        elif n in ('pclose', 'prst', 'cclose'):
            ops.append([n])
            ops.append(['poll'])
            ops.append(['poll'])
            up = False
        else:
            ops.append(['poll'])
    ops += [['poll'], ['poll']]
    return ops


def gen_client_x(rng):
    """as gen_client, with `prepare_unregister` and `stopped` reaching the client"""
    ops = []
    for op in gen_client(rng):
        ops.append(op)
        r = rng.random()
        if r < 0.08:
            ops += [['unreg'], ['poll']]
        elif r < 0.16:
            ops += [['cstop'], ['poll'], ['poll']]
    return ops


CLIENT_X_DIRECTED = [
    [['co', 1], ['psend', 3], ['poll'], ['unreg'], ['poll'], ['co', 1], ['cclose'], ['poll']],
    [['co', 1], ['cwrite', 5], ['cstop'], ['poll'], ['poll']],
    [['co', 1], ['cstop'], ['poll'], ['co', 1], ['psend', 2], ['poll'], ['pclose'], ['poll'], ['poll']],
    [['co', 0], ['poll'], ['co', 1], ['unreg'], ['unreg'], ['cstop'], ['poll']],
    [['co', 1], ['prst'], ['poll'], ['poll'], ['co', 1], ['poll'], ['co', 0], ['poll']],
    [['co', 1], ['cwrite', 3000], ['cwrite', 10], ['unreg'], ['poll'], ['poll']],
    [['co', 1], ['psend', 50], ['pclose'], ['poll'], ['poll'], ['cstop'], ['unreg'], ['poll']],
]


CLIENT_DIRECTED = [
    [['co', 1], ['psend', 3], ['poll'], ['pclose'], ['poll'], ['poll']],
    [['co', 1], ['cwrite', 5], ['poll'], ['cclose'], ['poll']],
    [['co', 1], ['cwrite', 5], ['cclose'], ['poll'], ['poll']],
    [['co', 1], ['prst'], ['poll'], ['poll'], ['co', 1], ['psend', 2], ['poll'], ['cclose'], ['poll']],
    [['co', 0], ['poll'], ['co', 1], ['cclose'], ['poll'], ['cclose']],
    [['co', 1], ['pclose'], ['cwrite', 4], ['poll'], ['poll'], ['poll']],
    # known finding: connect on a connected client announces `connected` a second time
    [['co', 1], ['co', 1, 'force'], ['cclose'], ['poll'], ['poll']],
]


# ---------------------------------------------------------------------------------------

def make_cases(ctx):
    rng = ctx.rng
    cases = []
    for c in ctx.corpus():
        if 'ops' in c:
            cases.append({'ops': c['ops'], 'kind': c.get('kind', 'select'), 'family': c.get('family', 'tcp')})
    for d in DIRECTED:
        for k in KINDS:
            cases.append({'ops': [list(o) for o in d], 'kind': k, 'family': 'tcp'})
        cases.append({'ops': [list(o) for o in d], 'kind': rng.choice(KINDS), 'family': 'unix'})
    for d in abort_histories() + stall_histories():
        for k in KINDS:
            cases.append({'ops': [list(o) for o in d], 'kind': k, 'family': 'tcp'})
            cases.append({'ops': [list(o) for o in d], 'kind': k, 'family': 'unix'})
    thorough = ctx.tier == 'thorough' and not ctx.searching
    for d in close_histories():
        for k in KINDS:
            cases.append({'ops': [list(o) for o in d], 'kind': k, 'family': 'tcp'})
        cases.append({'ops': [list(o) for o in d], 'kind': rng.choice(KINDS), 'family': 'unix'})
    for ops in small_scope_close(3 if thorough else 2):
        for k in (KINDS if thorough else [rng.choice(KINDS)]):
            cases.append({'ops': ops, 'kind': k, 'family': 'tcp'})
    for _ in range(300 if thorough else 30 * ctx.scale):
        ops = gen_close_history(rng)
        fam = 'tcp' if rng.random() < 0.6 else 'unix'
        for k in KINDS:
            cases.append({'ops': ops, 'kind': k, 'family': fam})
    for ops in small_scope(3 if thorough else 2):
        for k in (KINDS if thorough else [rng.choice(KINDS)]):
            cases.append({'ops': ops, 'kind': k, 'family': 'tcp'})
    nrand = 1000 if thorough else 120 * ctx.scale
    for _ in range(nrand):
        ops = gen_history(rng)
        fam = 'tcp' if rng.random() < 0.7 else 'unix'
        for k in KINDS:
            cases.append({'ops': ops, 'kind': k, 'family': fam})
    return cases


def run(ctx):
    ctx.rule = ('each case = one history of peer actions (connect, send, shutdown, close, reset, drain), server-side '
                'write/close events and injected poller hang-ups applied to a real TCP/UNIX server under one of Select/Poll/EPoll and to the Lean model; '
                'directed histories (late write/close, reset before accept, half close, close while writing to a stalled peer, '
                'fatal send with pending close, many connections with fd reuse) x 3 pollers + abort histories (peer sends '
                '1/300/5000 bytes and resets / closes / half-closes with no round in between; alone, after polled traffic, '
                'with a server-side write queued or stalled, several connections in one round) x 3 pollers x tcp/unix '
                '+ stall histories (peer stops reading, server write of 20000/70000/400000 bytes partially sent, server close '
                'requested after / before it, peer then reads all / part / nothing and closes or resets; 1 and 2 connections) '
                'x 3 pollers x tcp/unix; every history is continued with rounds until each announced connection whose peer '
                'has closed got its disconnect or nothing changes any more '
                '+ every op sequence of length <= 2 '
                '(quick) / 3 (thorough) over one connection + random histories (1-5 connections, 20-60 actions) x 3 pollers; '
                'W11: close histories (server-wide close() / stopped with idle, unread, dead, backlog, queued and stalled '
                'connections, late events after the close, closed twice) and accept-fault histories x 3 pollers x tcp/unix, '
                'every op sequence of length <= 2/3 containing closeall/stop, random histories with accept faults and 1-2 '
                'server-wide closes; client cases: a real TCPClient / UNIXClient / Pipe() end against a plain listener / '
                'plain peer socket under Select/Poll/EPoll, with unregister and stopped; non-trivial = at least one connection accepted and '
                'disconnected; distinct = distinct (history, poller, family)')
    ctx.trusted += ['kernel: readiness as in C10 (validated by this run); recv/send results are taken from the record of the '
                    'real socket calls (the model says which calls are made, the records must coincide)',
                    'TCP/UNIX loopback delivers in order what a peer sent (end-to-end read comparison)',
                    'accept() returns connections in the order the peers connected (peer i <-> i-th accepted socket)']
    ctx.assumptions += ['the loop is stepped: zero-timeout poll rounds + tick() to quiescence; no run(), no threads',
                        'one server component per poller; TLS/starttls are not exercised; the listening socket is not an object '
                        'of the model (its closing by a server-wide close is checked on the implementation only)',
                        'write-side payloads are compared by length (contents are C11)',
                        'clients: TCPClient, UNIXClient and Pipe() ends (the other end driven as a plain socket); connect is '
                        'issued only while not connected; TLS is not exercised; UDPServer is not exercised']
    cases = make_cases(ctx)
    for i in range(0, len(cases), 40):
        evaluate(ctx, cases[i:i + 40])
        if ctx.time_up() or len(ctx.violations) > 40:
            break
    ccases = [[list(o) for o in d] for d in CLIENT_DIRECTED]
    for _ in range(1000 if (ctx.tier == 'thorough' and not ctx.searching) else 60 * ctx.scale):
        ccases.append(gen_client(ctx.rng))
    # W11: UNIXClient, Pipe() ends and TCPClient under every poller, with unregister / stop
    for ep in ('tcp', 'unix', 'pipe'):
        for k in KINDS:
            for d in CLIENT_DIRECTED[:6] + CLIENT_X_DIRECTED:
                ccases.append({'client_ops': [list(o) for o in d], 'cfamily': 'tcp' if ep == 'tcp' else 'unix', 'ckind': k,
                               'pipe': ep == 'pipe'})
    for _ in range(600 if (ctx.tier == 'thorough' and not ctx.searching) else 45 * ctx.scale):
        ep = ctx.rng.choice(['tcp', 'unix', 'unix', 'pipe'])
        ccases.append({'client_ops': gen_client_x(ctx.rng), 'cfamily': 'tcp' if ep == 'tcp' else 'unix',
                       'ckind': ctx.rng.choice(KINDS), 'pipe': ep == 'pipe'})
    evaluate_clients(ctx, ccases)
    import c12_accept          # the accept path: the listening socket as a model object (machine `connaccept`)
    c12_accept.run(ctx)


def search(ctx):
    run(ctx)


def replay(ctx, case):
    if 'aops' in case:
        import c12_accept
        c12_accept.replay(ctx, case)
    elif 'client_ops' in case:
        evaluate_clients(ctx, [case])
    else:
        evaluate(ctx, [{'ops': case['ops'], 'kind': case.get('kind', 'select'), 'family': case.get('family', 'tcp')}],
                 do_shrink=False)

"""C12, accept path: the LISTENING socket as a model object (machine `connaccept`, lean/CV/Model/ConnAccept.lean).

A real TCPServer / UNIXServer under Select / Poll / EPoll, built with the doubles of harness/c12.py (`Rig`, `LogListen`,
`LogSock`, the observer component).  The listening-socket double additionally records what the kernel (or an injected
fault) answered to every `accept()` call.  Each case is a history of
    conn j / crst j          peer j connects (crst: and resets at once, while still in the backlog)
    afault NAME              the next accept() raises NAME (the eight errno values `_accept` tolerates, or another one)
    lread                    a `_read(listening socket)` event is delivered to the server (what every poller fires)
    lround                   one real zero-timeout round of the poller (only when no pool socket has input)
    send j n / pclose j      peer j sends n bytes / closes
    cread j                  a `_read(socket j)` event is delivered
    close j / hup j          `close(sock)` / `_disconnect(sock)` event for pool socket j
    closeall / stop          server-wide close() / `stopped`
    lclose close|hup         `close(sock)` / `_disconnect(sock)` event naming the listening socket
The implementation's observations per op (connect/read/disconnect/error events per pool socket, recv/close calls, the
tables of every pool socket, the listening socket's row in the server's and the poller's tables, the `disconnect` events
for the listening socket, the `exception` events) are compared with the model's answer to the same op (accept answers,
recv results are inputs taken from the record), and the statement is judged on the implementation's own observations.
"""
import errno
import os
import select
import socket
import struct

TOLERATED = ['EAGAIN', 'EWOULDBLOCK', 'EPERM', 'EMFILE', 'ENOBUFS', 'ENFILE', 'ENOMEM', 'ECONNABORTED']
OTHERS = ['EIO', 'EINVAL', 'EBADF']
CLEAN_CLOSED = 128 | 256


def errname(code):
    for n in TOLERATED:
        if getattr(errno, n) == code:
            return 'EAGAIN' if n == 'EWOULDBLOCK' and errno.EAGAIN == errno.EWOULDBLOCK else n
    return 'OTHER'


def doubles():
    import c12

    class LogListen2(c12.LogListen):
        """the listening-socket double of c12 + a record of what every accept() call answered"""

        def accept(self):
            try:
                r = super().accept()
            except OSError as e:
                self.rig.alog.append(('errno', e.args[0]))
                raise
            self.rig.alog.append(('sock', r[0].oid))
            return r

    return LogListen2


def execute(ops, kind, family):
    """-> steps [{'line','cause','ev','sys','tab','L','spec', ...}], stats"""
    import c12
    from circuits import BaseComponent, handler
    from circuits.core.events import stopped
    from circuits.core.pollers import _disconnect, _read
    from circuits.net.events import close
    rig = c12.Rig(kind, family)
    steps, stats = [], {'answers': [], 'excs': 0, 'unknown': 0, 'skipped': 0, 'viol': [], 'exc': []}
    try:
        rig.alog, rig.excs = [], []
        rig.ls.__class__ = doubles()

        class ExcObs(BaseComponent):
            channel = '*'

            @handler('exception', channel='*', priority=60)
            def _on_exception(self, *args, **kw):
                rig.excs.append(1)

        ExcObs().register(rig.m)
        c12.settle(rig.m)
        del rig.log[:]
        peers = {}
        count = {'ldisc': 0}

        def lrow():
            s, p, srv = rig.ls, rig.p, rig.srv
            fl = 0
            fl |= 1 if s in srv._clients else 0
            fl |= 2 if s in srv._buffers else 0
            fl |= 4 if s in srv._closeq else 0
            fl |= 8 if s in p._read else 0
            fl |= 16 if s in p._write else 0
            fl |= 32 if s in p._targets else 0
            fl |= 64 if any(v is s for v in getattr(p, '_map', {}).values()) else 0
            fl |= 128 if s.fileno() < 0 else 0
            fl |= 256 if srv._sock is None else 0
            return fl

        def snap(line, cause, **info):
            c12.settle(rig.m)
            log, rig.log[:] = rig.log[:], []
            del rig.accepted[:]
            stats['unknown'] += sum(1 for e in log if e[0] == '?')
            lev = [e[1] for e in log if e[0] == 'L']
            count['ldisc'] += lev.count('disconnect')
            es = [e for e in log if e[0] in 'crde']
            sy = [e for e in log if e[0] in 'RSX']
            tab = rig.rows()
            st = {'line': line, 'cause': cause, 'ev': [c12.tok(e) for e in es], 'sys': [c12.tok(e) for e in sy], 'tab': tab,
                  'L': (lrow(), count['ldisc'], len(rig.excs)), 'lev': lev, 'raw': log}
            st['spec'] = ('spec ' + ' '.join(st['sys'] + st['ev'] + [tab])).rstrip()
            st.update(info)
            steps.append(st)
            return st

        def accept_lines(before_tab, before_L):
            """one model line per accept() call of the op just executed, judged on the implementation"""
            calls, rig.alog[:] = rig.alog[:], []
            lines = []
            for what, v in calls:
                if what == 'sock':
                    lines.append((f'lr sock {v} {rig.fnos[v]} {int(v in rig.gone)}', ('sock', v)))
                else:
                    lines.append((f'lr errno {errname(v)}', ('errno', errname(v))))
            return lines

        def deliver_listener(fire, direct=True):
            """fire() makes the server see the listening socket readable; every accept() call becomes one model op"""
            before = (rig.rows(), lrow())
            pending = rig.listener_ready()
            nexc = len(rig.excs)
            fire()
            c12.settle(rig.m)
            lines = accept_lines(*before)
            if not lines:
                if before[1] & 8 and not before[1] & 128 and (direct or pending):
                    stats['viol'].append((f"accept-not-called({'read-event' if direct else 'round'})", len(steps)))
                if direct or pending:
                    snap('lr errno EAGAIN', 'accept', answer=('none', None))
                else:
                    c12.settle(rig.m)
                    if rig.log:
                        snap('lr errno EAGAIN', 'accept', answer=('none', None))   # a round without input showed something
                return
            if len(lines) > 1:
                # several accepts in one delivery: the log cannot be split per call; compare the op as a whole
                stats['skipped'] += 1
            for i, (line, ans) in enumerate(lines):
                last = i == len(lines) - 1
                if not last:
                    continue
                st = snap(line, 'accept', answer=ans)
                stats['answers'].append(ans[1] if ans[0] == 'errno' else ('reset' if ans[1] in rig.gone else 'socket'))
                if ans[0] == 'errno':
                    left = []
                    if st['ev'] or st['sys'] or st['lev']:
                        left.append('events')
                    if st['tab'] != before[0] or st['L'][0] != before[1]:
                        left.append('tables')
                    if ans[1] != 'OTHER' and len(rig.excs) != nexc:
                        left.append('raised')
                    if left:
                        stats['viol'].append((f"accept-fault-left-trace({'+'.join(left)},{ans[1]})", len(steps) - 1))
                else:
                    o = ans[1]
                    mine = [t for t in st['ev'] if t.split(':')[1] == str(o)]
                    row = dict(t.split('=') for t in st['tab'][2:].split(',') if t).get(str(o), '0')
                    if o in rig.gone:
                        if any(t[0] in 'cd' for t in mine):
                            stats['viol'].append(('reset-before-accept-announced', len(steps) - 1))
                        elif int(row) != c12.F_CLOSED:
                            stats['viol'].append(('reset-before-accept-left-trace', len(steps) - 1))
                    else:
                        if mine != [f'c:{o}']:
                            stats['viol'].append(('accepted-socket-not-announced-once', len(steps) - 1))
                        elif int(row) & (c12.F_CLIENTS | c12.F_READ | c12.F_TARGETS) != (c12.F_CLIENTS | c12.F_READ | c12.F_TARGETS):
                            stats['viol'].append(('accepted-socket-not-registered-as-reader', len(steps) - 1))

        def listener_gone(st, name):
            if st['L'][0] != CLEAN_CLOSED:
                fl = st['L'][0]
                what = ('open' if not fl & 128 else 'poller-table' if fl & (8 | 16 | 32 | 64) else
                        'server-table' if fl & 7 else 'still-server-sock')
                stats['viol'].append((f'listener-left({what},{name})', len(steps) - 1))
            if st['L'][1] > 1:
                stats['viol'].append((f'listener-disconnected-twice({name})', len(steps) - 1))

        st0 = snap('start', 'start')
        if st0['L'][0] & (8 | 32) != (8 | 32) or st0['L'][0] & 128:
            stats['viol'].append(('listener-not-registered(start)', 0))
        for idx, op in enumerate(ops):
            name = op[0]
            try:
                if name in ('conn', 'crst'):
                    j = op[1]
                    if j in peers or rig.ls.fileno() < 0 or j != len(peers) + 1:
                        continue
                    c = socket.socket(socket.AF_INET if family == 'tcp' else socket.AF_UNIX, socket.SOCK_STREAM)
                    c.settimeout(2)
                    c.connect(rig.addr)
                    c.setblocking(False)
                    peers[j] = c
                    if name == 'crst':
                        c.setsockopt(socket.SOL_SOCKET, socket.SO_LINGER, struct.pack('ii', 1, 0))
                        c.close()
                    rig.wait_visible(rig.ls.fileno(), select.POLLIN)
                elif name == 'afault':
                    rig.faults.append(getattr(errno, op[1]))
                elif name == 'lread':
                    deliver_listener(lambda: rig.m.fire(_read(rig.ls), 'server'))
                elif name == 'lround':
                    if any(t.split(':')[1] not in ('0', 'x') for t in rig.probe().split()):
                        continue
                    deliver_listener(lambda: rig.p._generate_events(c12.GE()), direct=False)
                elif name in ('send', 'pclose'):
                    c = peers.get(op[1])
                    if c is None or c.fileno() < 0:
                        continue
                    if name == 'send':
                        try:
                            c.send(bytes((op[1] * 31 + k) & 255 or 1 for k in range(op[2])))
                        except OSError:
                            pass
                    else:
                        c.close()
                    s = rig.socks.get(op[1])
                    if s is not None and s.fileno() >= 0:
                        rig.wait_visible(s.fileno())
                elif name == 'cread':
                    s = rig.socks.get(op[1])
                    if s is None:
                        continue
                    rig.m.fire(_read(s), 'server')
                    c12.settle(rig.m)
                    got = [e for e in rig.log if e[0] == 'R' and e[1] == op[1]]
                    snap(f"rd {op[1]} {got[0][2] if got else 'again'}", 'read')
                elif name in ('close', 'hup'):
                    s = rig.socks.get(op[1])
                    if s is None:
                        continue
                    rig.m.fire(close(s) if name == 'close' else _disconnect(s), 'server')
                    snap(f"{'cl' if name == 'close' else 'hu'} {op[1]}", name)
                elif name in ('closeall', 'stop'):
                    if name == 'closeall':
                        rig.m.fire(close(), 'server')
                    else:
                        rig.m.fire(stopped(rig.m))
                    listener_gone(snap('ca' if name == 'closeall' else 'st', name), name)
                elif name == 'lclose':
                    rig.m.fire(close(rig.ls) if op[1] == 'close' else _disconnect(rig.ls), 'server')
                    listener_gone(snap('lc', 'lclose'), 'lclose-' + op[1])
                else:
                    raise ValueError(f'unknown op {op!r}')
            except c12.Infra:
                raise
            except Exception as e:   # the stepped loop must never raise
                stats['exc'].append((idx, f'{type(e).__name__}: {e}'))
                break
        stats['excs'] = len(rig.excs)
        for c in peers.values():
            try:
                c.close()
            except OSError:
                pass
    finally:
        rig.shutdown()
    return steps, stats


def judge(steps, answers):
    dis, fails = [], []
    it = iter(answers[1:])
    for i, st in enumerate(steps):
        got = next(it)
        if got == 'bad-op':
            dis.append((i, st['line'], 'the operation happened', 'bad-op'))
            next(it)
            continue
        toks = got.split()
        ev = [t for t in toks if t[0] in 'crde']
        sy = [t for t in toks if t[0] in 'RSX']
        tab = [t for t in toks if t.startswith('T:')]
        lst = [t for t in toks if t.startswith('L=')]
        want_l = 'L=%d,%d,%d' % st['L']
        import c12
        if c12.per_socket(ev) != c12.per_socket(st['ev']):
            dis.append((i, st['line'], {'events': st['ev']}, {'events': ev}))
        elif c12.per_socket(sy) != c12.per_socket(st['sys']):
            dis.append((i, st['line'], {'calls': st['sys']}, {'calls': sy}))
        elif tab != [st['tab']]:
            dis.append((i, st['line'], {'tables': st['tab']}, {'tables': tab}))
        elif lst != [want_l]:
            dis.append((i, st['line'], {'listening socket': want_l}, {'listening socket': lst}))
        sa = next(it)
        if sa.startswith('fail'):
            fails.append((i, sa.split(' ', 1)[1]))
        elif sa != 'ok':
            dis.append((i, st['spec'][:200], 'spec observer accepts the line', sa))
    return dis, fails


def evaluate(ctx, cases):
    results = []
    for case in cases:
        with ctx.guard(case, what='c12 accept history on the real server'):
            results.append(execute(case['aops'], case['kind'], case['family']))
    batches = [[f"kind {case['kind']}"] + [x for st in steps for x in (st['line'], st['spec'])]
               for case, (steps, _st) in zip(cases, results)]
    answers = ctx.driver.batch('connaccept', batches)
    for case, (steps, st), ans in zip(cases, results, answers):
        dis, fails = judge(steps, ans)
        for idx, msg in st['exc']:
            ctx.violate(case, 'accept-path-raised(stepped-loop)', f'op {idx}: {msg}')
        for sig, i in st['viol']:
            ctx.violate(case, sig, f"op line {steps[i]['line'] if i < len(steps) else '?'} (step {i}): events "
                                   f"{steps[i]['ev'] if i < len(steps) else ''} tables {steps[i]['tab'] if i < len(steps) else ''} "
                                   f"listening-socket row,disconnects,exceptions {steps[i]['L'] if i < len(steps) else ''}")
        for i, clause in fails:
            ctx.violate(case, f"{clause.replace(' ', '-')}(accept-path,{steps[i]['cause']})",
                        f"step {i} `{steps[i]['line']}`: observations {steps[i]['spec'][:300]}")
        for i, line, impl, model in dis[:1]:
            ctx.disagree(case, {'where': f'accept path, step {i}: {line}', 'impl': impl, 'model': model})
        for a in st['answers']:
            ctx.count('accept_answers', a)
        ctx.count('accept_poller_family', f"{case['kind']}/{case['family']}")
        ctx.count('accept_steps', min(len(steps) // 5 * 5, 30))
        ctx.count('accept_exceptions_reraised', min(st['excs'], 3))
        for s in steps:
            ctx.count('accept_ops', s['cause'])
        ctx.case(case, nontrivial=any(a in ('socket', 'reset') for a in st['answers']), validated=not dis)


DIRECTED = [
    [('conn', 1), ('lread',), ('send', 1, 5), ('cread', 1), ('pclose', 1), ('cread', 1), ('closeall',)],
    [('lread',), ('conn', 1), ('afault', 'EMFILE'), ('lread',), ('afault', 'ECONNABORTED'), ('lround',), ('lround',), ('stop',)],
    [('crst', 1), ('lread',), ('conn', 2), ('lround',), ('close', 2), ('lclose', 'close'), ('lread',)],
    [('conn', 1), ('conn', 2), ('afault', 'EIO'), ('lread',), ('lread',), ('lread',), ('lread',), ('lclose', 'hup'), ('closeall',),
     ('stop',), ('lread',)],
    [('conn', 1), ('closeall',), ('lread',), ('lround',), ('closeall',)],
    [('conn', 1), ('lround',), ('send', 1, 3), ('pclose', 1), ('cread', 1), ('cread', 1), ('cread', 1), ('hup', 1), ('stop',)],
] + [[('conn', 1), ('afault', e), ('lread',), ('lread',), ('stop',)] for e in TOLERATED + OTHERS]


def gen(rng):
    ops, n = [], 0
    for _ in range(rng.randint(6, 22)):
        r = rng.random()
        if r < 0.22:
            n += 1
            ops.append(('crst' if rng.random() < 0.3 else 'conn', n))
        elif r < 0.36:
            ops.append(('afault', rng.choice(TOLERATED + TOLERATED + OTHERS)))
        elif r < 0.58:
            ops.append(('lread',) if rng.random() < 0.6 else ('lround',))
        elif r < 0.70 and n:
            j = rng.randint(1, n)
            ops.append(('send', j, rng.randint(1, 40)) if rng.random() < 0.6 else ('pclose', j))
        elif r < 0.84 and n:
            ops.append(('cread', rng.randint(1, n)))
        elif r < 0.90 and n:
            ops.append((rng.choice(['close', 'hup']), rng.randint(1, n)))
        elif r < 0.93:
            ops.append((rng.choice(['closeall', 'stop']),))
        elif r < 0.95:
            ops.append(('lclose', rng.choice(['close', 'hup'])))
        else:
            ops.append(('lread',))
    ops.append((rng.choice(['closeall', 'stop']),))
    return ops


def make_cases(ctx):
    import c12
    cases = []
    for d in DIRECTED:
        for k in c12.KINDS:
            cases.append({'aops': [list(o) for o in d], 'kind': k, 'family': 'tcp'})
        cases.append({'aops': [list(o) for o in d], 'kind': ctx.rng.choice(c12.KINDS), 'family': 'unix'})
    thorough = ctx.tier == 'thorough' and not ctx.searching
    for _ in range(400 if thorough else 40 * ctx.scale):
        ops = [list(o) for o in gen(ctx.rng)]
        fam = 'tcp' if ctx.rng.random() < 0.7 else 'unix'
        for k in c12.KINDS:
            cases.append({'aops': ops, 'kind': k, 'family': fam})
    return cases


def run(ctx):
    ctx.rule += ('; accept path (c12_accept): histories of peer connects / resets in the backlog, injected accept() errnos '
                 '(8 tolerated + others), `_read(listening socket)` events and real poller rounds, reads, closes, server-wide '
                 'close / stop and close / hang-up events naming the listening socket, on a real TCPServer/UNIXServer x '
                 'Select/Poll/EPoll and on machine `connaccept`')
    cases = make_cases(ctx)
    for i in range(0, len(cases), 40):
        evaluate(ctx, cases[i:i + 40])
        if ctx.time_up() or len(ctx.violations) > 40:
            break


def replay(ctx, case):
    evaluate(ctx, [case])
